"""Common machinery of the pfhedge verification harness.

* lean gate: `lake build` of the property's modules + driver, axiom audit, forbidden-token scan
* line-protocol driver client (`lake env lean --run Driver.lean`)
* deterministic PRNG, dyadic generators, exactness guards
* comparison / disagreement bookkeeping, property-failure bookkeeping, known findings
* verdict logic of DESIGN.md §1.4 and evidence writing
"""
import os
import sys
import json
import time
import random
import hashlib
import subprocess
import traceback
import re
from fractions import Fraction
from collections import Counter

import warnings
warnings.filterwarnings("ignore", category=SyntaxWarning)
os.environ.setdefault("PYTHONDONTWRITEBYTECODE", "1")
os.environ.setdefault("PFHEDGE_VERIF", "1")
sys.dont_write_bytecode = True

HERE = os.path.dirname(os.path.abspath(__file__))
VERIF = os.path.dirname(HERE)
LEAN = os.path.join(VERIF, "lean")
REPO = os.environ.get("PFHEDGE_REPO", "/repo")
STD_AXIOMS = {"propext", "Classical.choice", "Quot.sound"}

if REPO not in sys.path:
    sys.path.insert(0, REPO)


def import_impl():
    """import the implementation under test from /repo's working tree (never a stale copy)"""
    import torch  # noqa
    import pfhedge
    f = os.path.realpath(pfhedge.__file__)
    if not f.startswith(os.path.realpath(REPO) + os.sep):
        raise InternalError(f"pfhedge imported from {f}, expected under {REPO}")
    torch.set_num_threads(1)
    return torch, pfhedge


class InternalError(Exception):
    pass


# ----------------------------------------------------------------------------------------------
# numbers on the wire

def frac_of_float(x):
    return Fraction(float(x))


def rat_str(q):
    if isinstance(q, str):
        return q
    q = Fraction(q)
    return str(q.numerator) if q.denominator == 1 else f"{q.numerator}/{q.denominator}"


def rat_of_str(s):
    return Fraction(s)


def float_bits(x):
    import struct
    return "x%016x" % struct.unpack("<Q", struct.pack("<d", float(x)))[0]


def float_of_bits(s):
    import struct
    return struct.unpack("<d", struct.pack("<Q", int(s[1:], 16)))[0]


def enc_rat(obj):
    """nested lists of Fractions/ints -> nested lists of rat strings"""
    if isinstance(obj, (list, tuple)):
        return [enc_rat(o) for o in obj]
    return rat_str(obj)


def dec_rat(obj):
    if isinstance(obj, list):
        return [dec_rat(o) for o in obj]
    return Fraction(obj)


def enc_flt(obj):
    if isinstance(obj, (list, tuple)):
        return [enc_flt(o) for o in obj]
    return float_bits(obj)


def dec_flt(obj):
    if isinstance(obj, list):
        return [dec_flt(o) for o in obj]
    return float_of_bits(obj)


def tensor_to_fracs(t):
    """torch tensor (any float dtype) -> nested lists of exact Fractions"""
    import torch
    import math

    def conv(o):
        if isinstance(o, list):
            return [conv(x) for x in o]
        if isinstance(o, float) and not math.isfinite(o):
            return "nan" if math.isnan(o) else ("inf" if o > 0 else "-inf")   # never equal to any exact value
        return Fraction(o)
    return conv(t.detach().to(torch.float64).tolist())


def is_dyadic_fit(q, mant):
    """q is representable with `mant` mantissa bits (ignoring exponent range)"""
    q = Fraction(q)
    d = q.denominator
    if d & (d - 1):
        return False
    n = abs(q.numerator)
    while n and n % 2 == 0:
        n //= 2
    return n.bit_length() <= mant


def exact_sum_ok(terms, mant):
    """every partial sum of `terms` (any order) is representable with `mant` bits:
    sufficient condition: (sum |t|) / (common lsb) < 2^mant"""
    terms = [Fraction(t) for t in terms if t != 0]
    if not terms:
        return True
    maxden = max(t.denominator for t in terms)
    if maxden & (maxden - 1):
        return False
    tot = sum(abs(t) for t in terms)
    return tot * maxden < (1 << mant)


MANT = {"float64": 53, "float32": 24, "float16": 11, "bfloat16": 8}


# ----------------------------------------------------------------------------------------------
# generators

class Gen:
    """all random choices derive from one PRNG state"""

    def __init__(self, seed):
        self.r = random.Random(seed)

    def dy(self, lo, hi, bits):
        """dyadic k * 2^-bits with lo <= value <= hi"""
        k = self.r.randint(int(lo * (1 << bits)), int(hi * (1 << bits)))
        return Fraction(k, 1 << bits)

    def choice(self, xs):
        return self.r.choice(xs)

    def weighted(self, pairs):
        tot = sum(w for _, w in pairs)
        x = self.r.random() * tot
        for v, w in pairs:
            x -= w
            if x <= 0:
                return v
        return pairs[-1][0]

    def chance(self, p):
        return self.r.random() < p

    def randint(self, a, b):
        return self.r.randint(a, b)

    def small(self, choices=(1, 1, 2, 2, 3, 3, 4, 5, 7, 8)):
        return self.r.choice(choices)


# ----------------------------------------------------------------------------------------------
# Lean side

_FORBIDDEN = [
    (re.compile(r"\bsorry\b"), "sorry"),
    (re.compile(r"\badmit\b"), "admit"),
    (re.compile(r"^\s*axiom\s", re.M), "axiom"),
    (re.compile(r"\bnative_decide\b"), "native_decide"),
    (re.compile(r"\bbv_decide\b"), "bv_decide"),
    (re.compile(r"\bimplemented_by\b"), "implemented_by"),
    (re.compile(r"\bunsafe\s"), "unsafe"),
    (re.compile(r"maxHeartbeats\s+0\b"), "maxHeartbeats 0"),
    (re.compile(r"\bextern\b"), "extern"),
]


def strip_lean_comments(src):
    out = []
    i, n, depth = 0, len(src), 0
    while i < n:
        if src.startswith("/-", i):
            depth += 1
            i += 2
        elif depth and src.startswith("-/", i):
            depth -= 1
            i += 2
        elif depth:
            if src[i] == "\n":
                out.append("\n")
            i += 1
        elif src.startswith("--", i):
            while i < n and src[i] != "\n":
                i += 1
        elif src[i] == '"':
            j = i + 1
            while j < n and src[j] != '"':
                j += 2 if src[j] == "\\" else 1
            out.append('""')
            i = j + 1
        else:
            out.append(src[i])
            i += 1
    return "".join(out)


_IMPORT_RX = re.compile(r"^\s*import\s+(PfVerif(?:\.\w+)+)", re.M)


def import_closure(module):
    """transitive closure of `import PfVerif.*` starting from a module name -> list of file paths"""
    seen, todo, files = set(), [module], []
    while todo:
        m = todo.pop()
        if m in seen:
            continue
        seen.add(m)
        p = os.path.join(LEAN, *m.split(".")) + ".lean"
        if not os.path.exists(p):
            continue
        files.append(p)
        for im in _IMPORT_RX.findall(open(p).read()):
            todo.append(im)
    return files


def forbidden_scan(modules):
    """forbidden tokens (outside comments/strings) in everything the given modules depend on"""
    hits = []
    files = []
    for m in modules:
        for p in import_closure(m):
            if p not in files:
                files.append(p)
    for p in files:
        src = strip_lean_comments(open(p).read())
        for rx, name in _FORBIDDEN:
            for m in rx.finditer(src):
                line = src.count("\n", 0, m.start()) + 1
                hits.append(f"{os.path.relpath(p, LEAN)}:{line}: {name}")
    return hits


def run(cmd, cwd=None, timeout=None, input=None):
    p = subprocess.run(cmd, cwd=cwd, input=input, capture_output=True, text=True, timeout=timeout)
    return p.returncode, p.stdout, p.stderr


def lake_build(targets, timeout=3600):
    rc, out, err = run(["lake", "build"] + list(targets), cwd=LEAN, timeout=timeout)
    return rc == 0, (out + err)


_AUDIT_RX = re.compile(r"^AUDIT (\S+) :: \[(.*)\]$")


def audit_module(prop):
    """returns (ok, [(theorem, [axioms])], log)"""
    path = os.path.join("PfVerif", "Audit", f"{prop}.lean")
    full = os.path.join(LEAN, path)
    if not os.path.exists(full):
        return False, [], f"missing {path}"
    rc, out, err = run(["lake", "env", "lean", path], cwd=LEAN, timeout=1800)
    thms = []
    for line in out.splitlines():
        m = _AUDIT_RX.match(line.strip())
        if m:
            ax = [a.strip() for a in m.group(2).split(",") if a.strip()]
            thms.append((m.group(1), ax))
    return rc == 0, thms, out + err


class Driver:
    """batch client of the line protocol"""

    def __init__(self):
        self.calls = 0
        self.lines = 0

    def __call__(self, reqs, timeout=3600):
        if not reqs:
            return []
        data = "\n".join(json.dumps(r, separators=(",", ":")) for r in reqs) + "\n"
        rc, out, err = run(["lake", "env", "lean", "--run", "Driver.lean"], cwd=LEAN,
                           input=data, timeout=timeout)
        self.calls += 1
        self.lines += len(reqs)
        lines = [l for l in out.splitlines() if l.strip()]
        if rc != 0 or len(lines) != len(reqs):
            raise DriverBroken(f"driver rc={rc}, {len(lines)}/{len(reqs)} lines; stderr: {err[-2000:]}")
        res = [json.loads(l) for l in lines]
        return res


class DriverBroken(Exception):
    pass


# ----------------------------------------------------------------------------------------------
# implementation-call wrapper: canonical errors + mutation monitor

def canon_error(e):
    import torch
    if isinstance(e, RecursionError):
        return "recursion_error"
    if isinstance(e, AssertionError):
        return "assertion_error"
    if isinstance(e, ValueError):
        return "value_error"
    if isinstance(e, TypeError):
        return "type_error"
    if isinstance(e, KeyError):
        return "key_error"
    if isinstance(e, AttributeError):
        return "attribute_error"
    if isinstance(e, (RuntimeError, IndexError)):
        return "runtime_error"
    return "other:" + type(e).__name__


def snapshot_tensors(objs):
    """bitwise snapshot of tensors (and of all buffers of instruments reachable from objs)"""
    import torch
    snap = []
    seen = set()

    def visit(o, path):
        if id(o) in seen:
            return
        seen.add(id(o))
        if isinstance(o, torch.Tensor):
            snap.append((path, o, o.detach().clone(), tuple(o.shape), o.dtype))
        elif isinstance(o, (list, tuple)):
            for i, x in enumerate(o):
                visit(x, f"{path}[{i}]")
        elif isinstance(o, dict):
            for k, x in o.items():
                visit(x, f"{path}[{k!r}]")
        else:
            bufs = getattr(o, "__dict__", {}).get("_buffers")
            if isinstance(bufs, dict):
                for k, x in list(bufs.items()):
                    if isinstance(x, torch.Tensor):
                        visit(x, f"{path}.{k}")
            unds = getattr(o, "__dict__", {}).get("_underliers")
            if isinstance(unds, dict):
                for k, x in unds.items():
                    visit(x, f"{path}.{k}")
            d = getattr(o, "__dict__", {}).get("derivative")
            if d is not None:
                visit(d, f"{path}.derivative")
    for name, o in objs:
        visit(o, name)
    return snap


def diff_snapshot(snap):
    import torch
    changed = []
    for path, ref, copy, shape, dtype in snap:
        if tuple(ref.shape) != shape or ref.dtype != dtype:
            changed.append(path + " (shape/dtype changed in place)")
            continue
        a, b = ref.detach(), copy
        same = torch.equal(a, b) or bool(((a == b) | (a.isnan() & b.isnan())).all())
        if not same:
            changed.append(path)
    return changed


def call_impl(fn, *args, watch=(), **kwargs):
    """call the implementation, canonicalise errors, detect mutation of `watch` objects and of
    all tensor arguments.  returns ("ok", value, mutated_paths) or ("err", kind, mutated_paths)"""
    objs = [(f"arg{i}", a) for i, a in enumerate(args)] + [(k, v) for k, v in kwargs.items()] \
        + list(watch)
    snap = snapshot_tensors(objs)
    try:
        v = fn(*args, **kwargs)
        st = ("ok", v)
    except Exception as e:  # noqa
        st = ("err", canon_error(e))
    return st[0], st[1], diff_snapshot(snap)


# ----------------------------------------------------------------------------------------------
# bookkeeping and verdict

def load_known_findings():
    p = os.path.join(VERIF, "known_findings.json")
    if not os.path.exists(p):
        return {"findings": [], "fixed": []}
    return json.load(open(p))


class Ctx:
    def __init__(self, prop, tier, seed):
        self.prop, self.tier, self.seed = prop, tier, seed
        self.t0 = time.time()
        self.gen = Gen(seed)
        self.driver = Driver()
        self.ties_broken = []        # broken proof obligations / correspondence
        self.failures = []           # property failures on the real code (failing inputs)
        self.known_hits = Counter()
        self.known_samples = {}
        self.stats = Counter()
        self.samples = []
        self.distinct = set()
        self.evaluations = 0
        self.traces = 0
        self.disagreements = 0
        self.thms = []
        self.lean_log = ""
        self.extra = {}
        self.mutations = []
        self.known = load_known_findings()
        self.assumptions = []
        self.extra_mods = []
        self.trusted = [
            "Lean 4.33 kernel; axioms propext, Classical.choice, Quot.sound only (audited each run)",
            "Mathlib v4.33 as a library of kernel-checked theorems",
            "hand-written model PfVerif.Model.* tied to /repo by this run's correspondence check (differential execution on generated inputs; strength bounded by the generators)",
            "harness: Driver.lean JSON/Rat/Float wire code, Python comparison policy",
            "PyTorch kernels on exactly representable data, libm",
        ]

    # -- lean gate -----------------------------------------------------------------------------
    def lean_gate(self, extra_targets=()):
        prop = self.prop
        if os.environ.get("VERIF_DEV_SKIP_LEAN") == "1":   # development aid only; never in MANIFEST
            ok, log = lake_build(["PfVerif.Driver.All"])
            if not ok:
                raise InternalError("driver build failed: " + log[-800:])
            self.extra["DEV_SKIP_LEAN"] = True
            return True
        targets = [f"PfVerif.Props.{prop}", "PfVerif.Driver.All", "PfVerif.Audit.Tool"] + list(extra_targets)
        # property theorems that live in lemma modules (import order) are listed in the audit file
        af = os.path.join(LEAN, "PfVerif", "Audit", f"{prop}.lean")
        extra_mods = []
        self.extra_mods = extra_mods
        if os.path.exists(af):
            for im in _IMPORT_RX.findall(open(af).read()):
                if im not in targets and not im.startswith("PfVerif.Audit"):
                    targets.append(im)
                    extra_mods.append(im)
        if self.tier == "thorough":
            # re-elaborate the property's theorem file from scratch
            for t in [os.path.join(LEAN, "PfVerif", "Props", f"{prop}.lean")]:
                if os.path.exists(t):
                    os.utime(t, None)
        try:
            ok, log = lake_build(targets)
        except subprocess.TimeoutExpired:
            raise InternalError("lake build timed out")
        self.lean_log = log[-4000:]
        if not ok:
            self.ties_broken.append({"kind": "lean-build", "detail": self.lean_log[-1500:]})
            return False
        bad = forbidden_scan([f"PfVerif.Props.{prop}", "PfVerif.Driver.All"] + extra_mods)
        if bad:
            self.ties_broken.append({"kind": "lean-forbidden-token", "detail": bad[:20]})
        ok, thms, log = audit_module(prop)
        self.thms = thms
        if not ok or not thms:
            self.ties_broken.append({"kind": "lean-audit", "detail": log[-1500:]})
            return False
        for name, ax in thms:
            if not set(ax) <= STD_AXIOMS:
                self.ties_broken.append({"kind": "lean-axioms", "detail": f"{name}: {ax}"})
        if self.tier == "thorough" and os.environ.get("VERIF_NO_LEANCHECKER") != "1":
            rc, out, err = run(["lake", "env", "leanchecker", f"PfVerif.Props.{prop}"] + extra_mods, cwd=LEAN,
                               timeout=3600)
            self.extra["leanchecker_rc"] = rc
            if rc != 0:
                self.ties_broken.append({"kind": "leanchecker", "detail": (out + err)[-1500:]})
        return not self.ties_broken

    # -- cases ---------------------------------------------------------------------------------
    def case(self, canon, nontrivial=True, tag=None):
        """register an explored case; `canon` any JSON-able canonical form"""
        self.evaluations += 1
        if tag:
            self.stats[tag] += 1
        if nontrivial:
            h = hashlib.sha1(json.dumps(canon, sort_keys=True, default=str).encode()).digest()[:10]
            self.distinct.add(h)
        if len(self.samples) < 3 or (len(self.samples) < 6 and tag and
                                     self.stats[tag] == 1):
            s = json.dumps(canon, default=str)
            if len(s) < 1500:
                self.samples.append(canon)

    def disagree(self, op, case, impl, model, note=""):
        self.disagreements += 1
        if sum(1 for t in self.ties_broken if t["kind"] == "correspondence") < 20:
            self.ties_broken.append({"kind": "correspondence", "op": op, "case": case,
                                     "impl": impl, "model": model, "note": note})

    def fail(self, what, case, key=None, detail=None):
        """the PROPERTY fails on the real code at `case`.  `key` = call-site/input-class id used
        for matching against known_findings.json"""
        for f in self.known.get("findings", []):
            if f.get("property") == self.prop and key is not None and (f.get("key") == key or key in f.get("keys", [])):
                self.known_hits[f["id"]] += 1
                self.known_samples.setdefault(f["id"], (f, case, detail))
                return
        if len(self.failures) < 50:
            self.failures.append({"what": what, "key": key, "case": case, "detail": detail})
        self.stats["property_failures"] += 1

    def mutated(self, call, paths, case):
        self.mutations.append({"call": call, "paths": paths, "case": case})

    # -- verdict -------------------------------------------------------------------------------
    def write_replay(self, payload):
        d = os.environ.get("VERIF_DEV_REPLAY_DIR") or os.path.join(VERIF, "replays")   # (development aid: parallel runs of one property)
        os.makedirs(d, exist_ok=True)
        blob = json.dumps(payload, indent=1, default=str)
        h = hashlib.sha1(blob.encode()).hexdigest()[:10]
        p = os.path.join(d, f"{self.prop}-{h}.json")
        with open(p, "w") as f:
            f.write(blob)
        return os.path.relpath(p, VERIF)

    def finish(self, rule, level="proof", explanation=None):
        wall = time.time() - self.t0
        # replay files of earlier runs of this property are stale: remove them
        rd = os.environ.get("VERIF_DEV_REPLAY_DIR") or os.path.join(VERIF, "replays")
        if os.path.isdir(rd):
            for f in os.listdir(rd):
                if f.startswith(self.prop + "-") and f.endswith(".json"):
                    try:
                        os.remove(os.path.join(rd, f))
                    except OSError:
                        pass
        out_lines = []
        rc = 0
        for fid, n in self.known_hits.items():
            f, case, detail = self.known_samples[fid]
            out_lines.append(f"KNOWN-FINDING: property={self.prop} {f['what']} [{fid}; {n} case(s) this run]")
        if self.failures:
            rc = 1
            seen = set()
            for fl in self.failures:
                k = (fl["what"], fl["key"])
                if k in seen:
                    continue
                seen.add(k)
                path = self.write_replay({"property": self.prop, "kind": "failing-input",
                                          "what": fl["what"], "key": fl["key"], "case": fl["case"],
                                          "detail": fl["detail"], "seed": self.seed,
                                          "tier": self.tier,
                                          "ties_broken": self.ties_broken[:3]})
                out_lines.append(f"VIOLATION property={self.prop} replay={path}")
        elif self.ties_broken:
            rc = 1
            path = self.write_replay({"property": self.prop, "kind": "tie-broken",
                                      "no_failing_input_found": True,
                                      "ties_broken": self.ties_broken[:10], "seed": self.seed,
                                      "tier": self.tier,
                                      "explanation": "a proof obligation or the model/implementation correspondence no longer checks; the property-directed search on the real code found no failing input"})
            out_lines.append(f"VIOLATION property={self.prop} replay={path} no-failing-input-found")
        disc = sum(1 for _, ax in self.thms if set(ax) <= STD_AXIOMS)
        mods = " ".join([f"PfVerif.Props.{self.prop}"] + list(getattr(self, "extra_mods", [])))
        cov = {
            "obligations": len(self.thms),
            "discharged": disc,
            "checker_cmd": f"cd lean && lake build {mods} && lake env lean PfVerif/Audit/{self.prop}.lean"
                           + (f" && lake env leanchecker {mods}" if self.tier == "thorough" else ""),
            "trusted_base": self.trusted,
            "theorems": [n for n, _ in self.thms],
            "evaluations": self.evaluations,
            "distinct_nontrivial": len(self.distinct),
            "rule": rule,
            "samples": self.samples[:8] if self.samples else [{"note": "no generated cases this run"}],
            "traces_validated_against_impl": self.traces,
            "disagreements_checked": self.disagreements,
            "driver_lines": self.driver.lines,
            "input_distribution": dict(self.stats),
            "known_findings_hit": dict(self.known_hits),
            "ties_broken": len(self.ties_broken),
            "mutations_observed": len(self.mutations),
        }
        if explanation:
            cov["explanation"] = explanation
        cov.update(self.extra)
        ev = {
            "property_id": self.prop, "tier": self.tier, "seed": self.seed, "level": level,
            "coverage": cov, "assumptions": (self.assumptions + self.trusted), "wall_s": round(wall, 2),
            "violations": len(self.failures) + (1 if (self.ties_broken and not self.failures) else 0),
        }
        d = os.path.join(VERIF, "evidence")
        if self.extra.get("DEV_SKIP_LEAN") or os.path.realpath(REPO) != "/repo":
            # development runs (Lean gate skipped, or a scratch copy of the repository under test) never touch the evidence
            d = "/tmp/verif_dev_evidence"
        os.makedirs(d, exist_ok=True)
        with open(os.path.join(d, f"{self.prop}.json"), "w") as f:
            json.dump(ev, f, indent=1, default=str)
        for l in out_lines:
            print(l)
        print(f"[{self.prop}] tier={self.tier} seed={self.seed} theorems={disc}/{len(self.thms)} "
              f"cases={self.evaluations} distinct_nontrivial={len(self.distinct)} "
              f"disagreements={self.disagreements} failures={len(self.failures)} "
              f"known={sum(self.known_hits.values())} wall={wall:.1f}s rc={rc}")
        return rc


def shrink_list(xs, test, minlen=1):
    """greedy delta-debugging on a list; test(candidate) -> True if still failing"""
    changed = True
    while changed and len(xs) > minlen:
        changed = False
        for i in range(len(xs)):
            cand = xs[:i] + xs[i + 1:]
            if len(cand) >= minlen and test(cand):
                xs = cand
                changed = True
                break
    return xs


def generic_replay(mod, prop, tier, payload):
    """`./check Cxx --replay <file>`: re-run the check with the seed and tier recorded in the replay
    file (every random choice derives from that seed, so the failing case is regenerated), and
    report whether the recorded failure key / broken tie is still present."""
    seed = int(payload.get("seed", 20260930))
    tier = payload.get("tier", tier)
    want = payload.get("key")
    print(f"[{prop}] replaying {payload.get('kind')} key={want} seed={seed} tier={tier}")
    if payload.get("case") is not None:
        print("  case:", json.dumps(payload["case"], default=str)[:600])
    if payload.get("detail") is not None:
        print("  detail:", json.dumps(payload["detail"], default=str)[:400])
    ctx = Ctx(prop, tier, seed)
    rc = mod.check(ctx)
    keys = {f.get("key") for f in ctx.failures}
    if want is not None:
        print(f"[{prop}] replay: recorded failure key {'STILL PRESENT' if want in keys else 'no longer reproduced'}")
    return rc
