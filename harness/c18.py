"""C18 — Black-Scholes functions are total at maturity and at zero volatility.

correspondence: bs_* functional forms at t, v in {0, tiny} vs the Lean model (Model/BS.lean) on the
Float carrier — IEEE special values are native there, so the KIND (nan/+inf/-inf/finite) must
agree exactly and finite values within a float bound.
predicate: at t = 0 or v = 0 prices equal the certain payoff, deltas their limits, nothing is NaN;
negative t / v raise; BlackScholes / WhalleyWilmott hedgers give finite hedges and P&L.
"""
import math
from fractions import Fraction as F
from common import *  # noqa

PRICE_FNS = ["european_price", "european_binary_price", "american_binary_price", "lookback_price"]
DELTA_FNS = ["european_delta", "european_binary_delta", "american_binary_delta"]
OTHER_FNS = ["european_gamma", "european_vega", "european_theta", "d1", "d2"]


def kind(x):
    if math.isnan(x):
        return "nan"
    if math.isinf(x):
        return "+inf" if x > 0 else "-inf"
    return "fin"


def call_bs(torch, fnl, fn, s, t, v, k, m, call):
    T = lambda x: torch.tensor(x, dtype=torch.float64)
    if fn in ("d1", "d2"):
        return getattr(fnl, fn)(T(s), T(t), T(v))
    f = getattr(fnl, "bs_" + fn)
    if fn == "european_price":
        return f(T(s), T(t), T(v), strike=k, call=call)
    if fn == "european_delta":
        return f(T(s), T(t), T(v), call=call)
    if fn in ("european_gamma", "european_vega", "european_theta"):
        return f(T(s), T(t), T(v), strike=k)
    if fn == "european_binary_price":
        return f(T(s), T(t), T(v), call=call)
    if fn in ("european_binary_delta", "european_binary_gamma", "european_binary_vega", "european_binary_theta"):
        return f(T(s), T(t), T(v), call=call, strike=k)
    if fn == "american_binary_price":
        return f(T(s), T(m), T(t), T(v))
    if fn.startswith("american_binary") or fn.startswith("lookback"):
        return f(T(s), T(m), T(t), T(v), strike=k)
    raise ValueError(fn)


def certain_payoff(fn, s, k, m, call):
    """value that is certain when no randomness is left (t = 0 or v = 0); None = not constrained"""
    S, M = k * math.exp(s), k * math.exp(m)
    if fn == "european_price":
        return max(S - k, 0.0) if call else max(k - S, 0.0)
    if fn == "european_binary_price":
        if s == 0:
            return None           # at the strike: not constrained ("away from the strike")
        return (1.0 if s > 0 else 0.0) if call else (1.0 if s < 0 else 0.0)
    if fn == "american_binary_price":
        if m == 0:
            return 1.0
        return 1.0 if m > 0 else 0.0
    if fn == "lookback_price":
        return max(max(M, S) - k, 0.0)
    if fn == "european_delta":
        if s == 0:
            return None
        return (1.0 if s > 0 else 0.0) if call else (0.0 if s > 0 else -1.0)
    if fn == "european_binary_delta":
        return 0.0 if s != 0 else None
    if fn == "american_binary_delta":
        return 0.0 if s != 0 else None
    return None


def check(ctx):
    torch, pfhedge = import_impl()
    import pfhedge.nn.functional as fnl
    g = ctx.gen
    ctx.lean_gate()
    zs = [0.0, 0.0, 0.0, 5e-324, 1e-300, 1e-16]
    ss = [0.0, 1e-12, -1e-12, 0.01, -0.01, 0.5, -0.5, 3.0, -3.0, 30.0, -30.0, 700.0, -700.0]
    n = 1500 if ctx.tier == "quick" else 20000
    reqs, metas = [], []
    for it in range(n):
        fn = g.choice(PRICE_FNS * 3 + DELTA_FNS * 3 + OTHER_FNS)
        s = g.choice(ss)
        which = g.choice(["t0", "v0", "both", "neg_t", "neg_v", "tiny"])
        t = g.choice([0.1, 1.0, 2.5])
        v = g.choice([0.1, 0.2, 1.0])
        if which == "t0":
            t = 0.0
        elif which == "v0":
            v = 0.0
        elif which == "both":
            t = v = 0.0
        elif which == "neg_t":
            t = -g.choice([1e-9, 0.1, 1.0])
        elif which == "neg_v":
            v = -g.choice([1e-9, 0.1, 1.0])
        else:
            if g.chance(0.5):
                t = g.choice(zs[3:])
            else:
                v = g.choice(zs[3:])
        k = g.choice([0.5, 1.0, 2.0, 7.5])
        call = g.chance(0.5) if fn in ("european_price", "european_delta", "european_binary_price", "european_binary_delta") else True
        m = s if fn.startswith("european") or fn in ("d1", "d2") else max(s, 0.0) + g.choice([0.0, 0.0, 0.1, 1.0]) if g.chance(0.7) else s
        case = {"fn": fn, "s": s, "t": t, "v": v, "k": k, "m": m, "call": call, "which": which}
        st, val, _ = call_impl(call_bs, torch, fnl, fn, s, t, v, k, m, call)
        got = float(val) if st == "ok" else val
        ctx.stats[f"fn={fn}"] += 1
        ctx.stats[f"which={which}"] += 1
        ctx.case(case, nontrivial=True, tag="bs_edge")
        ctx.traces += 1
        reqs.append({"op": "bs", "fn": fn, "call": call, "elems": [enc_flt([s, t, v, k, m])]})
        metas.append((case, st, got))
        # ---- predicate
        if which in ("neg_t", "neg_v"):
            if st == "ok":
                ctx.fail("negative time to maturity / volatility is not rejected", case, key=f"bs:{fn}:negative-accepted", detail=got)
            elif got != "value_error":
                ctx.fail("negative time to maturity / volatility raises the wrong error", case, key=f"bs:{fn}:negative-error", detail=got)
            continue
        if st != "ok":
            ctx.fail("Black-Scholes function raised at t=0 / v=0", case, key=f"bs:{fn}:edge-error", detail=got)
            continue
        if fn in PRICE_FNS + DELTA_FNS and which in ("t0", "v0", "both"):
            if math.isnan(got):
                ctx.fail(f"bs_{fn} is NaN at zero time to maturity / zero volatility", case, key=f"bs_{fn}:nan-at-expiry", detail="nan")
                continue
            exp = certain_payoff(fn, s, k, m, call)
            if exp is not None and not (abs(got - exp) <= 1e-9 * max(1.0, abs(exp))):
                ctx.fail(f"bs_{fn} at zero time to maturity / volatility differs from the certain payoff / limiting delta", case,
                         key=f"bs_{fn}:value-at-expiry", detail={"impl": got, "expected": exp})
        elif fn in PRICE_FNS + DELTA_FNS and math.isnan(got):
            ctx.fail(f"bs_{fn} is NaN at tiny time to maturity / volatility", case, key=f"bs_{fn}:nan-tiny", detail="nan")
    try:
        outs = ctx.driver(reqs)
    except DriverBroken as e:
        ctx.ties_broken.append({"kind": "driver", "detail": str(e)[:1500]})
        outs = []
    for (case, st, got), mo in zip(metas, outs):
        mm = mo[0]
        if st != "ok":
            if mm.get("err") != got:
                ctx.disagree("bs_edge", case, (st, got), mm)
            continue
        if "ok" not in mm:
            ctx.disagree("bs_edge", case, (st, got), mm)
            continue
        mv = float_of_bits(mm["ok"])
        if kind(mv) != kind(got) or (kind(got) == "fin" and abs(mv - got) > 1e-9 * max(1.0, abs(got)) and not (abs(got) > 1e300)):
            ctx.disagree("bs_edge", case, got, mv)
    # ---------------- hedgers: finite hedge and P&L on simulated paths incl. the final step
    from pfhedge.instruments import BrownianStock, HestonStock, EuropeanOption, EuropeanBinaryOption, AmericanBinaryOption, LookbackOption
    from pfhedge.nn import Hedger, BlackScholes, WhalleyWilmott
    torch.manual_seed(ctx.seed % (2 ** 31))
    for _ in range(12 if ctx.tier == "quick" else 150):
        und = g.choice(["brownian", "heston"])
        cost = g.choice([0.0, 1e-3])
        stock = BrownianStock(cost=cost, sigma=g.choice([0.1, 0.3])) if und == "brownian" else HestonStock(cost=cost)
        opt = g.choice([EuropeanOption, EuropeanBinaryOption, AmericanBinaryOption, LookbackOption])
        d = opt(stock, strike=g.choice([0.9, 1.0, 1.1]), maturity=g.choice([5 / 250, 20 / 250]))
        for mk in ("bs", "ww"):
            model = BlackScholes(d) if mk == "bs" else WhalleyWilmott(d)
            h = Hedger(model, model.inputs())
            d.simulate(n_paths=g.choice([1, 7, 50]))
            case = {"underlier": und, "option": opt.__name__, "model": mk, "cost": cost}
            with torch.no_grad():
                st1, hedge, _ = call_impl(h.compute_hedge, d)
                st2, plv, _ = call_impl(h.compute_pl, d)
            ctx.case(case | {"n": int(stock.spot.size(0))}, True, tag="hedger_finite")
            ctx.traces += 1
            if st1 != "ok" or st2 != "ok":
                ctx.fail("BlackScholes / WhalleyWilmott hedger raised on simulated paths", case, key=f"hedger:{mk}:{opt.__name__}:error",
                         detail=[str(hedge)[:100], str(plv)[:100]])
            elif not (bool(hedge.isfinite().all()) and bool(plv.isfinite().all())):
                ctx.fail("BlackScholes / WhalleyWilmott hedger produced a non-finite hedge or P&L", case,
                         key=f"hedger:{mk}:{opt.__name__}:nonfinite")
    return ctx.finish(
        rule="bs_* functions (4 prices, 3 deltas, European gamma/vega/theta, d1/d2) at t=0, v=0, both, tiny (5e-324,1e-300,1e-16), negative; "
             "|log-moneyness| in {0,1e-12,..,700}, strikes, call/put, running max >= spot; real BS/WW hedgers on simulated Brownian/Heston paths; "
             "every case non-trivial; distinct = sha1 of canonical case")
