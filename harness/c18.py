"""C18 — Black-Scholes functions are total at maturity and at zero volatility.

correspondence: bs_* functional forms at t, v in {0, tiny} vs the Lean model (Model/BS.lean) on the
Float carrier — IEEE special values are native there, so the KIND (nan/+inf/-inf/finite) must
agree exactly and finite values within a float bound.
predicate: at t = 0 or v = 0 prices equal the certain payoff, deltas their limits, nothing is NaN;
negative t / v raise; BlackScholes / WhalleyWilmott hedgers give finite hedges and P&L.
input class "negative": a negative time to maturity / volatility in one row of a tensor, through every route (functionals, module methods,
module(input) = forward, Hedger(module)(input), WhalleyWilmott, the state of a derivative with sigma < 0 / dt < 0, Hedger.get_input): an error, never a number;
input class "signed zero": t or v = -0.0 is zero.
input class "on the strike": markets (float32, the default dtype, and float64) whose spot sits EXACTLY on a strike that is not a binary
fraction (0.9, 0.95, 1.03, 1.05, 1.1, 1.2; init_state=(strike,)), every parameter taken from the derivative / the hedger's features:
zero-volatility paths resting on the strike (European price 0, delta +-1/2, American binary price 1, lookback price 0) and ordinary
paths started on the strike (an American binary struck at the initial spot pays 1 on every path: price at the last step = payoff).
input class "partial argument lists": a module bound to a simulated derivative (BlackScholes(d) / BS*.from_derivative(d), all four kinds) called
with SOME arguments (time_to_maturity = zeros, volatility = zeros, an explicit log-moneyness on a zero-volatility market, a negative time to
maturity / volatility) while the rest is acquired from the derivative: price = certain payoff, delta = limit, negatives raise (op "bs").
input class "puts at the edge through the hedgers": WhalleyWilmott(d)(input) at t = 0 / v = 0 away from the strike returns the limiting delta
(call 1 / 0, put -1 / 0, binaries 0) whatever the previous hedge (op "ww_module"); BlackScholes / WhalleyWilmott hedgers on BrownianStock(sigma=0)
paths away from the strike hold the limiting delta at every step (deterministic corpus of calls and puts, in / out of the money, cost 0 / > 0).
"""
import math
from fractions import Fraction as F
from common import *  # noqa

PRICE_FNS = ["european_price", "european_binary_price", "american_binary_price", "lookback_price"]
DELTA_FNS = ["european_delta", "european_binary_delta", "american_binary_delta"]
OTHER_FNS = ["european_gamma", "european_vega", "european_theta", "d1", "d2"]
NONDYADIC = [0.9, 0.95, 1.03, 1.05, 1.1, 1.2]          # strikes that are not binary fractions: float32(K) != K


def kind(x):
    if math.isnan(x):
        return "nan"
    if math.isinf(x):
        return "+inf" if x > 0 else "-inf"
    return "fin"


def call_bs(torch, fnl, fn, s, t, v, k, m, call, dtype=None):
    T = lambda x: torch.tensor(x, dtype=dtype or torch.float64)
    if fn in ("d1", "d2"):
        return getattr(fnl, fn)(T(s), T(t), T(v))
    f = getattr(fnl, "bs_" + fn)
    if fn == "european_price":
        return f(T(s), T(t), T(v), strike=k, call=call)
    if fn == "european_delta":
        return f(T(s), T(t), T(v), call=call)
    if fn in ("european_gamma", "european_vega", "european_theta"):
        return f(T(s), T(t), T(v), strike=k)
    if fn == "european_binary_price":
        return f(T(s), T(t), T(v), call=call)
    if fn in ("european_binary_delta", "european_binary_gamma", "european_binary_vega", "european_binary_theta"):
        return f(T(s), T(t), T(v), call=call, strike=k)
    if fn == "american_binary_price":
        return f(T(s), T(m), T(t), T(v))
    if fn.startswith("american_binary") or fn.startswith("lookback"):
        return f(T(s), T(m), T(t), T(v), strike=k)
    raise ValueError(fn)


def certain_payoff(fn, s, k, m, call, resting=False):
    """value that is certain when no randomness is left (t = 0 or v = 0); None = not constrained.
    resting: the state belongs to a zero-volatility path that sits on the strike at every step (log-moneyness identically 0): along
    such a path d1 = d2 = 0 for every (t, v) -> (0, 0), so the European delta has the unambiguous limit N(0) = 1/2 (put: -1/2)"""
    S, M = k * math.exp(s), k * math.exp(m)
    if fn == "european_price":
        return max(S - k, 0.0) if call else max(k - S, 0.0)
    if fn == "european_binary_price":
        if s == 0:
            return None           # at the strike: not constrained ("away from the strike")
        return (1.0 if s > 0 else 0.0) if call else (1.0 if s < 0 else 0.0)
    if fn == "american_binary_price":
        if m == 0:
            return 1.0
        return 1.0 if m > 0 else 0.0
    if fn == "lookback_price":
        return max(max(M, S) - k, 0.0)
    if fn == "european_delta":
        if s == 0:
            return (0.5 if call else -0.5) if resting else None
        return (1.0 if s > 0 else 0.0) if call else (0.0 if s > 0 else -1.0)
    if fn == "european_binary_delta":
        return 0.0 if s != 0 else None
    if fn == "american_binary_delta":
        return 0.0 if s != 0 else None
    return None


def check(ctx):
    torch, pfhedge = import_impl()
    import pfhedge.nn.functional as fnl
    g = ctx.gen
    ctx.lean_gate()
    zs = [0.0, 0.0, 0.0, 5e-324, 1e-300, 1e-16]
    ss = [0.0, 1e-12, -1e-12, 0.01, -0.01, 0.5, -0.5, 3.0, -3.0, 30.0, -30.0, 700.0, -700.0]
    n = 1500 if ctx.tier == "quick" else 20000
    reqs, metas = [], []
    for it in range(n):
        fn = g.choice(PRICE_FNS * 3 + DELTA_FNS * 3 + OTHER_FNS)
        s = g.choice(ss)
        which = g.choice(["t0", "v0", "both", "neg_t", "neg_v", "tiny"])
        t = g.choice([0.1, 1.0, 2.5])
        v = g.choice([0.1, 0.2, 1.0])
        if which == "t0":
            t = 0.0
        elif which == "v0":
            v = 0.0
        elif which == "both":
            t = v = 0.0
        elif which == "neg_t":
            t = -g.choice([1e-9, 0.1, 1.0])
        elif which == "neg_v":
            v = -g.choice([1e-9, 0.1, 1.0])
        else:
            if g.chance(0.5):
                t = g.choice(zs[3:])
            else:
                v = g.choice(zs[3:])
        # strikes that are not binary fractions only at moderate moneyness: K * exp(s) is then rounded, and at |s| >= 30 the put-call
        # parity S - K cancels at the scale of the spot (1e13 * 2^-53), beyond the absolute tolerance below
        k = g.choice([0.5, 1.0, 2.0, 7.5] + ([0.9, 1.05] if abs(s) <= 3.0 else []))
        call = g.chance(0.5) if fn in ("european_price", "european_delta", "european_binary_price", "european_binary_delta") else True
        m = s if fn.startswith("european") or fn in ("d1", "d2") else max(s, 0.0) + g.choice([0.0, 0.0, 0.1, 1.0]) if g.chance(0.7) else s
        case = {"fn": fn, "s": s, "t": t, "v": v, "k": k, "m": m, "call": call, "which": which}
        st, val, _ = call_impl(call_bs, torch, fnl, fn, s, t, v, k, m, call)
        got = float(val) if st == "ok" else val
        ctx.stats[f"fn={fn}"] += 1
        ctx.stats[f"which={which}"] += 1
        ctx.case(case, nontrivial=True, tag="bs_edge")
        ctx.traces += 1
        reqs.append({"op": "bs", "fn": fn, "call": call, "elems": [enc_flt([s, t, v, k, m])]})
        metas.append((case, st, got))
        # ---- predicate
        if which in ("neg_t", "neg_v"):
            if st == "ok":
                ctx.fail("negative time to maturity / volatility is not rejected", case, key=f"bs:{fn}:negative-accepted", detail=got)
            elif got != "value_error":
                ctx.fail("negative time to maturity / volatility raises the wrong error", case, key=f"bs:{fn}:negative-error", detail=got)
            continue
        if st != "ok":
            ctx.fail("Black-Scholes function raised at t=0 / v=0", case, key=f"bs:{fn}:edge-error", detail=got)
            continue
        if fn in PRICE_FNS + DELTA_FNS and which in ("t0", "v0", "both"):
            if math.isnan(got):
                ctx.fail(f"bs_{fn} is NaN at zero time to maturity / zero volatility", case, key=f"bs_{fn}:nan-at-expiry", detail="nan")
                continue
            exp = certain_payoff(fn, s, k, m, call)
            if exp is not None and not (abs(got - exp) <= 1e-9 * max(1.0, abs(exp))):
                ctx.fail(f"bs_{fn} at zero time to maturity / volatility differs from the certain payoff / limiting delta", case,
                         key=f"bs_{fn}:value-at-expiry", detail={"impl": got, "expected": exp})
        elif fn in PRICE_FNS + DELTA_FNS and math.isnan(got):
            ctx.fail(f"bs_{fn} is NaN at tiny time to maturity / volatility", case, key=f"bs_{fn}:nan-tiny", detail="nan")
    # signed zero (deterministic corpus): IEEE -0.0 IS zero (-0.0 == 0.0, it passes the validation t >= 0, v >= 0), so a time to maturity
    # or a volatility of -0.0 is "zero time to maturity / zero volatility": the price is the certain payoff, the delta its limit, as for +0.0
    nz_reported = set()
    for fn in PRICE_FNS + DELTA_FNS:
        for t, v in [(-0.0, 0.2), (0.1, -0.0), (-0.0, 0.0), (0.0, -0.0), (-0.0, -0.0)]:
            for s, touched in [(-0.03, False), (0.04, False), (-0.03, True)]:
                k = g.choice([1.0, 2.0, 0.5])
                call = g.chance(0.5) if fn in ("european_price", "european_delta", "european_binary_price", "european_binary_delta") else True
                m = s if (fn.startswith("european") or not touched) else max(s, 0.0) + g.choice([0.0, 0.1])
                case = {"fn": fn, "s": s, "t": t, "v": v, "k": k, "m": m, "call": call, "which": "negative_zero",
                        "t_is_negative_zero": math.copysign(1.0, t) < 0, "v_is_negative_zero": math.copysign(1.0, v) < 0}
                st, val, _ = call_impl(call_bs, torch, fnl, fn, s, t, v, k, m, call)
                got = float(val) if st == "ok" else val
                ctx.case(case, nontrivial=True, tag="bs_negative_zero")
                ctx.traces += 1
                reqs.append({"op": "bs", "fn": fn, "call": call, "elems": [enc_flt([s, t, v, k, m])]})
                metas.append((case, st, got))
                if st != "ok":
                    ctx.fail("Black-Scholes function raised at a time to maturity / volatility of -0.0 (which is zero)", case, key=f"bs:{fn}:negative-zero-error", detail=got)
                    continue
                exp = certain_payoff(fn, s, k, m, call)
                if (math.isnan(got) or (exp is not None and not (abs(got - exp) <= 1e-9 * max(1.0, abs(exp))))) and fn not in nz_reported:
                    nz_reported.add(fn)         # one failing input per function
                    ctx.fail(f"bs_{fn} at a time to maturity / volatility of -0.0 (IEEE negative zero, == 0) is NaN or differs from the certain payoff / "
                             "limiting delta it returns for +0.0", case, key=f"bs_{fn}:value-at-expiry:negative-zero", detail={"impl": got, "expected": exp})
    try:
        outs = ctx.driver(reqs)
    except DriverBroken as e:
        ctx.ties_broken.append({"kind": "driver", "detail": str(e)[:1500]})
        outs = []
    for (case, st, got), mo in zip(metas, outs):
        mm = mo[0]
        if st != "ok":
            if mm.get("err") != got:
                ctx.disagree("bs_edge", case, (st, got), mm)
            continue
        if "ok" not in mm:
            ctx.disagree("bs_edge", case, (st, got), mm)
            continue
        mv = float_of_bits(mm["ok"])
        if kind(mv) != kind(got) or (kind(got) == "fin" and abs(mv - got) > 1e-9 * max(1.0, abs(got)) and not (abs(got) > 1e300)):
            ctx.disagree("bs_edge", case, got, mv)
    # ---------------- hedgers: finite hedge and P&L on simulated paths incl. the final step
    from pfhedge.instruments import BrownianStock, HestonStock, EuropeanOption, EuropeanBinaryOption, AmericanBinaryOption, LookbackOption
    from pfhedge.nn import Hedger, BlackScholes, WhalleyWilmott
    torch.manual_seed(ctx.seed % (2 ** 31))
    HEDGE_DELTA_FN = {"EuropeanOption": "european_delta", "EuropeanBinaryOption": "european_binary_delta", "AmericanBinaryOption": "american_binary_delta"}

    def hedge_is_limiting_delta(case, mk, opt_name, call_, k_, hedge, stock):
        """zero-volatility paths (BrownianStock(sigma=0): the spot is constant) away from the strike: the Black-Scholes hedge IS the delta, i.e.
        its limiting value (call 1 / 0, put -1 / 0, binaries 0); the Whalley-Wilmott band has zero width there (gamma = 0), so a finite
        Whalley-Wilmott hedge is the same number.  Every time step, calls and puts."""
        fn = HEDGE_DELTA_FN.get(opt_name)
        if fn is None:
            return
        sp0 = stock.spot[:, 0].tolist()
        if not bool((stock.spot == stock.spot[:, :1]).all()):
            raise InternalError("zero-volatility market: the simulated path is not constant")
        kq = float(torch.tensor(k_, dtype=stock.spot.dtype))
        for p_ in range(len(sp0)):
            if sp0[p_] == kq:
                continue          # on the strike: the at-the-money limit, see the on-strike predicate
            s_ = math.log(sp0[p_] / kq)
            exp = certain_payoff(fn, s_, kq, s_, call_)
            if exp is None:
                continue
            ctx.stats[f"hedger:limiting-delta:{mk}:{'call' if call_ else 'put'}"] += 1
            if not bool(((hedge[p_, 0] - exp).abs() <= 1e-6).all()):
                ctx.fail("the hedge of a BlackScholes / WhalleyWilmott hedger on a zero-volatility path away from the strike is not the limiting delta "
                         "(call: 1 in / 0 out of the money, put: -1 / 0, binaries: 0)", case | {"path": p_},
                         key=f"hedger:{mk}:{opt_name}:{'call' if call_ else 'put'}:zero-volatility-limiting-delta",
                         detail={"hedge[path, 0, :]": hedge[p_, 0].tolist(), "expected": exp, "spot": sp0[p_], "strike": k_, "log_moneyness": s_})
                return

    # deterministic corpus: calls AND puts, in and out of the money, with and without transaction cost, on zero-volatility paths (a Whalley-
    # Wilmott hedger of a binary option only without cost: with a cost its band is NaN there, the recorded finding on the binary gammas)
    for optn, call_, k_, cost, mk in [(o_, c_, k__, co_, m_) for o_ in ("EuropeanOption", "EuropeanBinaryOption", "AmericanBinaryOption")
                                      for c_ in ((True, False) if o_ != "AmericanBinaryOption" else (True,)) for k__ in (0.9, 1.1)
                                      for co_ in (0.0, 1e-3) for m_ in ("bs", "ww")]:
        if mk == "ww" and cost > 0 and optn != "EuropeanOption":
            continue
        opt = {"EuropeanOption": EuropeanOption, "EuropeanBinaryOption": EuropeanBinaryOption, "AmericanBinaryOption": AmericanBinaryOption}[optn]
        stock = BrownianStock(cost=cost, sigma=0.0, dtype=g.choice([torch.float32, torch.float64]))
        d = opt(stock, strike=k_, maturity=g.choice([3 / 250, 5 / 250]), **({"call": call_} if optn != "AmericanBinaryOption" else {}))
        model = BlackScholes(d) if mk == "bs" else WhalleyWilmott(d)
        h = Hedger(model, model.inputs())
        d.simulate(n_paths=g.choice([1, 3]))
        case = {"underlier": "brownian", "option": optn, "model": mk, "cost": cost, "sigma": 0.0, "strike": k_, "call": call_,
                "dtype": str(stock.spot.dtype).replace("torch.", ""), "corpus": "zero-volatility"}
        ctx.case(case | {"n": int(stock.spot.size(0))}, True, tag="hedger_zero_volatility")
        ctx.traces += 1
        with torch.no_grad():
            st1, hedge, _ = call_impl(h.compute_hedge, d)
            st2, plv, _ = call_impl(h.compute_pl, d)
        if st1 != "ok" or st2 != "ok":
            ctx.fail("BlackScholes / WhalleyWilmott hedger raised on zero-volatility paths", case, key=f"hedger:{mk}:{optn}:error", detail=[str(hedge)[:100], str(plv)[:100]])
        elif not (bool(hedge.isfinite().all()) and bool(plv.isfinite().all())):
            ctx.fail("BlackScholes / WhalleyWilmott hedger produced a non-finite hedge or P&L", case, key=f"hedger:{mk}:{optn}:nonfinite")
        else:
            hedge_is_limiting_delta(case, mk, optn, call_, k_, hedge, stock)
    for _ in range(40 if ctx.tier == "quick" else 300):
        und = g.choice(["brownian", "heston"])
        cost = g.choice([0.0, 1e-3])
        # zero volatility is admissible: the paths are constant, at the money for strike 1 (gamma infinite, band 0 * inf or inf)
        sig = g.choice([0.1, 0.3, 0.0, 0.0])
        stock = BrownianStock(cost=cost, sigma=sig) if und == "brownian" else HestonStock(cost=cost)
        opt = g.choice([EuropeanOption, EuropeanBinaryOption, AmericanBinaryOption, LookbackOption])
        k_ = g.choice([0.9, 1.0, 1.1, 1.0])
        if opt is EuropeanBinaryOption and und == "brownian" and sig == 0.0 and k_ == 1.0:
            k_ = 1.1      # a European binary exactly at the strike with zero volatility has an infinite limiting delta (the property's
            #               "away from the strike"): the hedge is legitimately unbounded there
        # the market starts exactly ON the strike (init_state=(strike,), strikes that are not binary fractions, float32 paths): with zero
        # volatility the path rests there (Black-Scholes delta = the at-the-money limit +-1/2, gamma infinite), with an ordinary
        # volatility an American binary has touched its barrier at inception
        on_strike = und == "brownian" and g.chance(0.4)
        call_ = g.chance(0.5) if opt in (EuropeanOption, EuropeanBinaryOption) else True
        if on_strike:
            k_ = g.choice(NONDYADIC + [1.0])
            if opt is EuropeanBinaryOption and sig == 0.0:
                on_strike = False      # infinite limiting delta, see above
                k_ = 1.1
        d = opt(stock, strike=k_, maturity=g.choice([5 / 250, 20 / 250]), **({"call": call_} if opt in (EuropeanOption, EuropeanBinaryOption) else {}))
        for mk in ("bs", "ww"):
            model = BlackScholes(d) if mk == "bs" else WhalleyWilmott(d)
            h = Hedger(model, model.inputs())
            d.simulate(n_paths=g.choice([1, 7, 50]), **({"init_state": (k_,)} if on_strike else {}))
            case = {"underlier": und, "option": opt.__name__, "model": mk, "cost": cost, "sigma": sig if und == "brownian" else None,
                    "strike": float(d.strike), "call": call_, "spot_starts_on_strike": on_strike}
            ctx.stats[f"hedger:on_strike={on_strike}"] += 1
            with torch.no_grad():
                st1, hedge, _ = call_impl(h.compute_hedge, d)
                st2, plv, _ = call_impl(h.compute_pl, d)
            ctx.case(case | {"n": int(stock.spot.size(0))}, True, tag="hedger_finite")
            ctx.traces += 1
            if st1 != "ok" or st2 != "ok":
                ctx.fail("BlackScholes / WhalleyWilmott hedger raised on simulated paths", case, key=f"hedger:{mk}:{opt.__name__}:error",
                         detail=[str(hedge)[:100], str(plv)[:100]])
            elif not (bool(hedge.isfinite().all()) and bool(plv.isfinite().all())):
                key = f"hedger:{mk}:{opt.__name__}:nonfinite"
                if und == "brownian" and sig == 0.0:
                    # call-site / input-class keys of the two recorded findings; every other non-finite hedge keeps its own key
                    if opt is LookbackOption:
                        key = "hedger:lookback:nonfinite:zero-volatility"
                    elif mk == "ww" and cost > 0 and opt in (EuropeanBinaryOption, AmericanBinaryOption):
                        key = "hedger:ww-binary:nonfinite:zero-volatility"
                ctx.fail("BlackScholes / WhalleyWilmott hedger produced a non-finite hedge or P&L", case, key=key)
            elif on_strike and sig == 0.0 and opt is EuropeanOption and mk == "bs":
                # the Black-Scholes hedge IS the delta: on a zero-volatility path resting on the strike it is the at-the-money limit
                lim = 0.5 if call_ else -0.5
                if not bool(((hedge - lim).abs() <= 1e-6).all()):
                    ctx.fail("the Black-Scholes hedge of a European option on a zero-volatility path resting exactly on the strike is not the limiting "
                             "at-the-money delta +-1/2", case, key="hedger:bs:EuropeanOption:on-strike:zero-volatility-delta",
                             detail={"hedge[0, 0, :]": hedge[0, 0].tolist(), "expected": lim, "spot[0, 0]": float(stock.spot[0, 0])})
            if st1 == "ok" and st2 == "ok" and und == "brownian" and sig == 0.0 and bool(hedge.isfinite().all()):
                hedge_is_limiting_delta(case, mk, opt.__name__, call_, k_, hedge, stock)
    # ---------------- the lookback delta is the autograd derivative of the price: evaluate it at the edge as the closed-form ones
    import pfhedge.nn.functional as fnl_
    for _ in range(40 if ctx.tier == "quick" else 400):
        s_ = g.choice([0.0, -0.1, 0.2, -1e-12])
        m_ = max(s_, g.choice([0.0, 0.05, 0.3]))
        t_, v_ = g.choice([(0.0, 0.2), (0.1, 0.0), (0.0, 0.0), (1e-300, 0.2), (0.1, 1e-300)])
        k_ = g.choice([1.0, 0.5, 3.0])
        T_ = lambda x: torch.tensor([x], dtype=torch.float64)
        case = {"fn": "lookback_delta", "s": s_, "m": m_, "t": t_, "v": v_, "k": k_}
        ctx.case(case, True, tag="lookback_delta_edge")
        st, out, _ = call_impl(fnl_.bs_lookback_delta, T_(s_), T_(m_), T_(t_), T_(v_), k_)
        if st != "ok":
            ctx.fail("bs_lookback_delta raised at zero time to maturity / volatility", case, key="bs_lookback_delta:error-at-expiry", detail=out)
        elif bool(out.isnan().any()):
            ctx.fail("bs_lookback_delta is NaN at zero time to maturity / zero volatility", case,
                     key="bs_lookback_delta:nan-at-expiry" if (t_ == 0.0 or v_ == 0.0) else "bs_lookback_delta:nan-tiny")
    # ---------------- the Whalley-Wilmott module itself at the edge of the domain (the hedger never evaluates it at time to
    # maturity 0, a user may): the previous hedge clamped to delta -/+ width must not be NaN where the band is 0 or infinite
    # corpus first: witnesses of the repaired zero-cost defect (width = (0 * inf)^(1/3) = nan at the money)
    OPT_FN_ = {"EuropeanOption": "european", "EuropeanBinaryOption": "european_binary", "AmericanBinaryOption": "american_binary"}
    ww_corpus = [(0.0, 1.0, 0.0, 0.1, 0.0, 0.5), (0.0, 1.0, 0.0, 0.0, 0.2, 0.25), (0.0, 2.0, 0.0, 0.0, 0.0, 1.0)]
    for it_ in range(len(ww_corpus) + (40 if ctx.tier == "quick" else 500)):
        cost = g.choice([0.0, 1e-3, 1e-2])
        k = g.choice([1.0, 0.9, 2.0])
        s_ = g.choice([0.0, 0.0, 1e-12, -0.1, 0.2])
        t_ = g.choice([0.0, 0.1, 1e-300])
        v_ = g.choice([0.0, 0.2, 1e-300])
        prev = g.choice([0.0, 0.5, 1.0, -0.25])
        if it_ < len(ww_corpus):
            cost, k, s_, t_, v_, prev = ww_corpus[it_]
        d = EuropeanOption(BrownianStock(cost=cost), strike=k, call=g.chance(0.5))
        ww = WhalleyWilmott(d, a=g.choice([1.0, 0.5]))
        inp = torch.tensor([[s_, t_, v_, prev]], dtype=torch.float64)
        case = {"ww_module": True, "cost": cost, "strike": k, "call": bool(d.call), "log_moneyness": s_, "time_to_maturity": t_, "volatility": v_, "prev_hedge": prev}
        ctx.case(case, nontrivial=(t_ == 0.0 or v_ == 0.0), tag="ww_edge")
        st, out, _ = call_impl(ww, inp)
        if st != "ok":
            ctx.fail("WhalleyWilmott module raised at the edge of the domain", case, key="ww_module:edge:error", detail=out)
        elif bool(out.isnan().any()):
            ctx.fail("WhalleyWilmott module returns NaN at zero time to maturity / zero volatility", case, key="ww_module:edge:nan",
                     detail={"output": out.tolist(), "width": ww.width(inp[..., :-1]).tolist()})
        elif (t_ == 0.0 or v_ == 0.0) and s_ != 0.0:
            # away from the strike the band has zero width (gamma = 0): the hedge is the limiting delta whatever the previous hedge was
            exp = certain_payoff("european_delta", s_, k, s_, bool(d.call))
            if not (tuple(out.shape) == (1, 1) and abs(float(out[0, 0]) - exp) <= 1e-9):
                ctx.fail("WhalleyWilmott module at zero time to maturity / zero volatility away from the strike does not return the limiting delta",
                         case, key=f"ww_module:edge:{'call' if d.call else 'put'}:limiting-delta", detail={"output": out.tolist(), "expected": exp})
    # deterministic corpus: calls and PUTS (delta in [-1, 0]) and binaries, in / out of the money, every kind of edge, previous hedges on both sides
    # of the limit; (N, 4) inputs in float32 and float64; the European rows also go to the model of the module forward (op "ww_module")
    ww_reqs, ww_meta = [], []
    for optn, call_, cost, dtn in [(o_, c_, co_, dt_) for o_ in ("EuropeanOption", "EuropeanBinaryOption", "AmericanBinaryOption")
                                   for c_ in ((True, False) if o_ != "AmericanBinaryOption" else (True,))
                                   for co_ in ((0.0, 1e-3) if o_ == "EuropeanOption" else (0.0,)) for dt_ in ("float64", "float32")]:
        dtp = getattr(torch, dtn)
        k = g.choice([0.9, 1.0, 2.0])
        a_ = g.choice([1.0, 0.5])
        opt = {"EuropeanOption": EuropeanOption, "EuropeanBinaryOption": EuropeanBinaryOption, "AmericanBinaryOption": AmericanBinaryOption}[optn]
        d = opt(BrownianStock(cost=cost, dtype=dtp), strike=k, **({"call": call_} if optn != "AmericanBinaryOption" else {}))
        ww = WhalleyWilmott(d, a=a_)
        names = list(ww.inputs())
        rows = []
        for s_ in (-0.1, 0.2, -1e-3):
            for t_, v_ in ((0.0, 0.2), (0.1, 0.0), (0.0, 0.0)):
                prev = g.choice([0.0, -0.3, 0.7, 1.0, -1.0, -0.7])
                row = {"log_moneyness": s_, "max_log_moneyness": max(s_, 0.0) if g.chance(0.5) else s_, "time_to_maturity": t_, "volatility": v_, "prev_hedge": prev}
                rows.append([row[nm] for nm in names])
        inp = torch.tensor(rows, dtype=dtp)
        case = {"ww_module": True, "corpus": True, "option": optn, "call": call_, "cost": cost, "strike": k, "a": a_, "dtype": dtn, "inputs": names, "rows": rows}
        ctx.case(case, True, tag="ww_edge_corpus")
        ctx.traces += 1
        st, out, _ = call_impl(ww, inp)
        if st != "ok" or tuple(out.shape) != (len(rows), 1):
            ctx.fail("WhalleyWilmott module raised at the edge of the domain", case, key="ww_module:edge:error", detail=str(out)[:200])
            continue
        vals = out.detach().reshape(-1).tolist()
        for r_, val in zip(rows, vals):
            s_ = float(torch.tensor(r_[0], dtype=dtp))
            m_ = float(torch.tensor(r_[names.index("max_log_moneyness")], dtype=dtp)) if "max_log_moneyness" in names else s_
            exp = certain_payoff(HEDGE_DELTA_FN[optn], s_, k, m_, call_)
            if math.isnan(val):
                ctx.fail("WhalleyWilmott module returns NaN at zero time to maturity / zero volatility", case | {"row": r_}, key="ww_module:edge:nan")
                break
            if exp is not None and not abs(val - exp) <= 1e-6:
                ctx.fail("WhalleyWilmott module at zero time to maturity / zero volatility away from the strike does not return the limiting delta "
                         "(call 1 / 0, put -1 / 0, binaries 0)", case | {"row": r_},
                         key=f"ww_module:edge:{OPT_FN_[optn]}:{'call' if call_ else 'put'}:limiting-delta", detail={"output": val, "expected": exp})
                break
        if optn == "EuropeanOption" and dtn == "float64":
            ww_reqs.append({"op": "ww_module", "what": "forward", "kind": "european", "call": call_, "strike": float_bits(k), "cost": float_bits(cost),
                            "a": float_bits(a_), "rows": enc_flt(rows)})
            ww_meta.append((case, vals))
    try:
        wouts = ctx.driver(ww_reqs)
    except DriverBroken as e:
        ctx.ties_broken.append({"kind": "driver", "detail": str(e)[:1500]})
        wouts = []
    for (case, vals), mo in zip(ww_meta, wouts):
        for r_, val, mm in zip(case["rows"], vals, mo):
            mv = float_of_bits(mm["ok"]) if "ok" in mm else None
            if mv is None or kind(mv) != kind(val) or (kind(val) == "fin" and abs(mv - val) > 1e-9):
                ctx.disagree("ww_module_edge", case | {"row": r_}, val, mm)
                break
    # ---------------- the module layer (BS* modules, BlackScholes(derivative)): the same statements through the objects a user and
    # the hedgers call.  (a) modules built with a strike / call flag, evaluated at explicit t = 0 / v = 0 inputs; (b) modules built
    # from a simulated or injected derivative, evaluated on the derivative's own state: every (path, step) with time to maturity 0
    # (the last column) or volatility 0 must carry the certain payoff, and the last column must equal derivative.payoff()
    import pfhedge.nn as pnn
    import pfhedge.instruments as pin
    from hedge_common import gen_market, build_derivative, tens
    OPT_FN = {"EuropeanOption": "european", "EuropeanBinaryOption": "european_binary",
              "AmericanBinaryOption": "american_binary", "LookbackOption": "lookback"}

    def nan_key(fn):
        return "bs_lookback_delta:nan-at-expiry" if fn == "lookback_delta" else f"bs_module:{fn}:nan-at-expiry"

    for _ in range(300 if ctx.tier == "quick" else 4000):
        option = g.choice(sorted(OPT_FN))
        pd = option in ("AmericanBinaryOption", "LookbackOption")
        what = g.choice(["price", "delta"])
        fn = OPT_FN[option] + "_" + what
        call = True if pd else g.chance(0.5)
        k = g.choice([0.5, 0.9, 2.0, 7.5, 1.0])
        s = g.choice(ss)
        which = g.choice(["t0", "v0", "both"])
        t = 0.0 if which in ("t0", "both") else g.choice([0.1, 1.0, 2.5])
        v = 0.0 if which in ("v0", "both") else g.choice([0.1, 0.2, 1.0])
        m = (max(s, 0.0) + g.choice([0.0, 0.0, 0.1, 1.0]) if g.chance(0.7) else s) if pd else s
        built = g.choice(["direct", "from_derivative", "BlackScholes"])
        case = {"module": "BS" + option, "built": built, "method": what, "s": s, "t": t, "v": v, "k": k, "m": m, "call": call, "which": which}
        ctx.case(case, True, tag="bs_module_edge")
        ctx.stats[f"module_fn={fn}"] += 1
        ctx.traces += 1
        cls = getattr(pnn, "BS" + option)
        if built == "direct":
            mod = cls(strike=k) if pd else cls(call=call, strike=k)
        else:
            d_ = getattr(pin, option)(pin.BrownianStock(), call=call, strike=k)
            mod = cls.from_derivative(d_) if built == "from_derivative" else pnn.BlackScholes(d_)
        T_ = lambda x: torch.tensor([x], dtype=torch.float64)
        kw = {"log_moneyness": T_(s), "time_to_maturity": T_(t), "volatility": T_(v)}
        if pd:
            kw["max_log_moneyness"] = T_(m)
        st, out, _ = call_impl(getattr(mod, what), **kw)
        if st != "ok":
            ctx.fail(f"BS{option}.{what} raised at t=0 / v=0", case, key=f"bs_module:{fn}:edge-error", detail=out)
            continue
        got = float(out.reshape(-1)[0])
        if math.isnan(got):
            ctx.fail(f"BS{option}.{what} is NaN at zero time to maturity / zero volatility", case, key=nan_key(fn), detail="nan")
            continue
        exp = certain_payoff(fn, s, k, m, call)
        if exp is not None and not (abs(got - exp) <= 1e-9 * max(1.0, abs(exp))):
            ctx.fail(f"BS{option}.{what} at zero time to maturity / volatility differs from the certain payoff / limiting delta", case,
                     key=f"bs_module:{fn}:value-at-expiry", detail={"module": got, "expected": exp})
        ref = float(call_bs(torch, fnl, fn, [s], [t], [v], k, [m], call).reshape(-1)[0])
        if kind(ref) != kind(got) or (kind(got) == "fin" and abs(ref - got) > 1e-9 * max(1.0, abs(got))):
            ctx.fail(f"BS{option}.{what} at zero time to maturity / volatility differs from the functional form bs_{fn}", case,
                     key=f"bs_module:{fn}:differs-from-functional", detail={"module": got, "functional": ref})
    for _ in range(60 if ctx.tier == "quick" else 600):
        option = g.choice(sorted(OPT_FN))
        pd = option in ("AmericanBinaryOption", "LookbackOption")
        call = True if pd else g.chance(0.5)
        source = g.choice(["simulated", "simulated", "injected", "on_strike", "on_strike"])
        built = g.choice(["BlackScholes", "from_derivative"])
        resting = False
        if source == "on_strike":
            # the spot sits EXACTLY on a strike that is not a binary fraction, in the dtype of the market (float32 = pfhedge's default):
            # sigma = 0: the path rests on the strike, every step is a zero-volatility state at the money; sigma > 0: an ordinary path
            # started on the strike (American binary: barrier touched at inception, payoff 1 on every path; running maximum >= strike)
            dtp = g.choice([torch.float32, torch.float32, torch.float64])
            sig = g.choice([0.0, 0.0, 0.2, 0.5])
            k = g.choice(NONDYADIC)
            resting = sig == 0.0
            u = pin.BrownianStock(sigma=sig, dtype=dtp)
            d = getattr(pin, option)(u, call=call, strike=k, maturity=g.choice([3 / 250, 10 / 250]))
            tseed = g.randint(0, 2 ** 31 - 1)
            torch.manual_seed(tseed)
            d.simulate(n_paths=g.choice([1, 3, 8, 64]), init_state=(k,))
            case = {"option": option, "call": call, "strike": k, "built": built, "source": source, "underlier": "brownian", "sigma": sig,
                    "dtype": str(dtp).replace("torch.", ""), "init_state": [k], "torch_seed": tseed, "spot": u.spot[:8].tolist()}
        elif source == "injected":
            mk = gen_market(g, primary=g.choice(["BrownianStock", "HestonStock"]))     # Heston: zero volatilities inside the path
            mk["option"], mk["call"] = option, call
            if mk["primary"] == "BrownianStock" and g.chance(0.3):
                mk["sigma"] = F(0)
                mk["vol"] = [[F(0)] * mk["T"] for _ in range(mk["N"])]
                mk["var"] = mk["vol"]
            d, u = build_derivative(torch, mk)
            k = float(mk["strike"])
            case = {"option": option, "call": call, "strike": k, "built": built, "source": source, "primary": mk["primary"],
                    "spot": enc_rat(mk["spot"]), "vol": enc_rat(mk["vol"]), "dt": rat_str(mk["dt"])}
        else:
            und = g.choice(["brownian", "heston"])
            sig = g.choice([0.2, 0.5, 0.0])
            k = g.choice([0.9, 1.0, 1.1, 0.5, 2.0])
            u = pin.BrownianStock(sigma=sig, dtype=torch.float64) if und == "brownian" else pin.HestonStock(dtype=torch.float64)
            d = getattr(pin, option)(u, call=call, strike=k, maturity=g.choice([3 / 250, 10 / 250]))
            tseed = g.randint(0, 2 ** 31 - 1)
            torch.manual_seed(tseed)
            d.simulate(n_paths=g.choice([1, 3, 8]), init_state=(g.choice([1.0, 1.0, 0.8, 1.25]),) if und == "brownian" else None)
            case = {"option": option, "call": call, "strike": k, "built": built, "source": source, "underlier": und,
                    "sigma": sig if und == "brownian" else None, "torch_seed": tseed, "spot": u.spot.tolist()}
        ctx.case(case, True, tag="bs_module_paths")
        ctx.stats[f"module_paths:{option}:{source}"] += 1
        ctx.traces += 1
        mod = pnn.BlackScholes(d) if built == "BlackScholes" else getattr(pnn, "BS" + option).from_derivative(d)
        spot, vol = u.spot.detach().clone(), u.volatility.detach().clone()
        st1, price, _ = call_impl(mod.price, watch=[("derivative", d)])
        st2, delta, _ = call_impl(mod.delta, watch=[("derivative", d)])
        if st1 != "ok" or st2 != "ok" or tuple(price.shape) != tuple(spot.shape) or tuple(delta.shape) != tuple(spot.shape):
            ctx.fail("price() / delta() of a module built from a simulated derivative raised or has the wrong shape", case,
                     key=f"bs_module:{option}:paths:error", detail=[str(price)[:100], str(delta)[:100]])
            continue
        N_, T_n = spot.shape
        sp, vl, pr, dl = spot.tolist(), vol.tolist(), price.detach().tolist(), delta.detach().tolist()
        pay = d.payoff().tolist()
        bad = set()
        # the strike of a float32 market is the float32 number nearest to K (init_state=(K,) and strike=K are the same number there):
        # log-moneyness and "at the strike" are taken against it; float32 values carry a few float32 roundings (16 eps), float64 as before
        f32 = spot.dtype == torch.float32
        kq = float(torch.tensor(k, dtype=spot.dtype))
        TOL = 16 * 2.0 ** -23 if f32 else 1e-9
        if source == "on_strike":
            ctx.stats["module_paths:on_strike:" + ("resting" if resting else "started") + (":float32" if f32 else ":float64")] += 1
            if not all(sp[p_][0] == kq for p_ in range(N_)) or (resting and not all(x == kq for row in sp for x in row)):
                raise InternalError("on-strike market: the simulated path does not start / rest on the strike")
            if option == "AmericanBinaryOption" and not all(x == 1.0 for x in pay):
                raise InternalError("on-strike market: an American binary struck at the initial spot must pay 1 on every path")
        # the same parameters through the features of a hedger (what the hedgers feed the module with) at the last time step
        feat_price = feat_delta = None
        hh = Hedger(mod, mod.inputs())
        with torch.no_grad():
            stf, _, _ = call_impl(hh.compute_hedge, d)
            if stf == "ok":
                stf, last, _ = call_impl(hh.get_input, d, T_n - 1)
            if stf == "ok":
                cols = [last[..., i_] for i_ in range(last.size(-1))]
                st3, fp_, _ = call_impl(mod.price, *cols)
                st4, fd_, _ = call_impl(mod.delta, *cols)
                if st3 == "ok" and tuple(fp_.shape) == (N_, 1):
                    feat_price = fp_[:, 0].tolist()
                if st4 == "ok" and tuple(fd_.shape) == (N_, 1):
                    feat_delta = fd_[:, 0].tolist()
        for p_ in range(N_):
            run = -math.inf
            for j in range(T_n):
                run = max(run, sp[p_][j])
                if not (j == T_n - 1 or vl[p_][j] == 0.0):
                    continue
                s_, m_ = math.log(sp[p_][j] / kq), math.log(run / kq)
                at = case | {"path": p_, "step": j, "s": s_, "m": m_, "v": vl[p_][j], "last_column": j == T_n - 1}
                routes = [("price", pr[p_][j], ""), ("delta", dl[p_][j], "")]
                if j == T_n - 1 and feat_price is not None:
                    routes.append(("price", feat_price[p_], ":hedger-features"))
                if j == T_n - 1 and feat_delta is not None:
                    routes.append(("delta", feat_delta[p_], ":hedger-features"))
                for what, val, route in routes:
                    fn = OPT_FN[option] + "_" + what
                    if (fn, "nan") not in bad and math.isnan(val):
                        bad.add((fn, "nan"))
                        ctx.fail(f"{what}() of the module built from a derivative is NaN where the time to maturity or the volatility of the "
                                 "simulated state is zero", at, key=nan_key(fn), detail="nan")
                    exp = certain_payoff(fn, s_, kq, m_, call, resting=resting)
                    if (fn, "val") not in bad and exp is not None and not math.isnan(val) and not (abs(val - exp) <= TOL * max(1.0, abs(exp))):
                        bad.add((fn, "val"))
                        ctx.fail(f"{what}() of the module built from a derivative differs from the certain payoff / limiting delta where the time to "
                                 "maturity or the volatility of the simulated state is zero" + (" (parameters from the hedger's features)" if route else ""), at,
                                 key=f"bs_module:{fn}:value-at-expiry" + (":on-strike" if source == "on_strike" else "") + route,
                                 detail={"module": val, "expected": exp})
            # the maturity column is the payoff of that path (a European binary exactly at the strike is not constrained)
            at_strike = option == "EuropeanBinaryOption" and sp[p_][-1] == kq
            if "pay" not in bad and not at_strike and not math.isnan(pr[p_][-1]) and not (abs(pr[p_][-1] - pay[p_]) <= TOL * max(1.0, abs(pay[p_]))):
                bad.add("pay")
                ctx.fail("BlackScholes(derivative).price() at time to maturity 0 (last column) differs from derivative.payoff()", case | {"path": p_},
                         key=f"bs_module:{option}:maturity-column-vs-payoff" + (":on-strike" if source == "on_strike" else ""),
                         detail={"price[:, -1]": pr[p_][-1], "payoff": pay[p_], "spot[path]": sp[p_], "strike": k})
            if "payf" not in bad and feat_price is not None and not at_strike and not math.isnan(feat_price[p_]) \
                    and not (abs(feat_price[p_] - pay[p_]) <= TOL * max(1.0, abs(pay[p_]))):
                bad.add("payf")
                ctx.fail("the Black-Scholes price evaluated on the hedger's features of the last time step (time to maturity 0) differs from derivative.payoff()",
                         case | {"path": p_}, key=f"bs_module:{option}:maturity-features-vs-payoff" + (":on-strike" if source == "on_strike" else ""),
                         detail={"price": feat_price[p_], "payoff": pay[p_], "spot[path]": sp[p_], "strike": k})
    # ---------------- NEGATIVE time to maturity / volatility through EVERY route that leads to a Black-Scholes formula: "rejected with an
    # error instead of a silent NaN" (or a silent number).  The functional block above feeds negative 0-dim float64 arguments to the
    # functionals; here the negative entry sits in ONE row of a tensor of otherwise legal rows (float32 and float64, shapes (1,F) / (N,F) /
    # (N,T,F), magnitudes from 1.0 down to the smallest negative number of the dtype) and is fed through: the functionals of the option kind
    # (price, delta, gamma, vega, theta); the methods of the module (BS<kind>(...), BS<kind>.from_derivative, BlackScholes(derivative)) with
    # positional and named columns; module(input) = forward on the concatenated input (what a hedger calls); Hedger(module, inputs)(input);
    # WhalleyWilmott(derivative)(input), its width() and a Hedger on it.  Correspondence: the offending row goes to the model of the module
    # forward (op "ww_module", what = "bs" / "forward") and of the functionals (op "bs"), which must reject it too.
    GREEKS = ["price", "delta", "gamma", "vega", "theta"]
    MODEL_BS_FNS = set(PRICE_FNS + DELTA_FNS + OTHER_FNS + [f"{k_}_{w_}" for k_ in ("european_binary", "american_binary") for w_ in ("gamma", "vega", "theta")])
    neg_reqs, neg_meta = [], []

    def must_reject(route, fn_, case, key_prefix):
        """the PROPERTY: the call raises (the ValueError of the validation); returns (status, value) for the correspondence"""
        st, out, _ = call_impl(fn_)
        ctx.stats[f"negative:route={route}"] += 1
        if st == "ok":
            shown = out.detach().reshape(-1).tolist()[:8] if hasattr(out, "detach") else str(out)[:200]
            ctx.fail(f"a negative time to maturity / volatility is not rejected by {route}: a number comes back instead of an error", case | {"route": route},
                     key=f"{key_prefix}:negative-accepted:{route}", detail={"returned": shown})
        elif out != "value_error":
            ctx.fail(f"a negative time to maturity / volatility makes {route} raise something else than the ValueError of the validation", case | {"route": route},
                     key=f"{key_prefix}:negative-error:{route}", detail=out)
        return st, out

    neg_corpus = [(o_, b_, "float32", "neg_t", 1e-9, "(N,F)") for o_ in sorted(OPT_FN) for b_ in ("direct", "BlackScholes", "WhalleyWilmott")] + \
                 [(o_, "from_derivative", "float64", "neg_v", 1e-9, "(N,T,F)") for o_ in sorted(OPT_FN)]
    for it_ in range(len(neg_corpus) + (60 if ctx.tier == "quick" else 900)):
        option = g.choice(sorted(OPT_FN))
        built = g.choice(["direct", "from_derivative", "BlackScholes", "WhalleyWilmott", "WhalleyWilmott"])
        dtn = g.choice(["float32", "float64"])
        which = g.choice(["neg_t", "neg_t", "neg_v", "both"])
        mag = g.choice([1e-9, 0.1, 1.0, 1e-30, "smallest"])
        shape = g.choice(["(1,F)", "(N,F)", "(N,F)", "(N,T,F)"])
        if it_ < len(neg_corpus):
            option, built, dtn, which, mag, shape = neg_corpus[it_]
        okind = OPT_FN[option]
        pd = option in ("AmericanBinaryOption", "LookbackOption")
        dtp = getattr(torch, dtn)
        if mag == "smallest":
            mag = 5e-324 if dtn == "float64" else 2.0 ** -149
        call = True if pd else g.chance(0.5)
        k = g.choice([0.5, 0.9, 1.0, 1.1, 2.0])
        cost = g.choice([0.0, 1e-3, 1e-2])
        a_ = g.choice([1.0, 0.5])
        d_ = getattr(pin, option)(pin.BrownianStock(cost=cost, dtype=dtp), call=call, strike=k)
        cls = getattr(pnn, "BS" + option)
        if built == "direct":
            mod = cls(strike=k) if pd else cls(call=call, strike=k)
        elif built == "from_derivative":
            mod = cls.from_derivative(d_)
        elif built == "BlackScholes":
            mod = pnn.BlackScholes(d_)
        else:
            mod = pnn.WhalleyWilmott(d_, a=a_)
        names = list(mod.inputs())
        N_ = 1 if shape == "(1,F)" else g.choice([2, 3, 5])
        T_n = g.choice([1, 2, 3]) if shape == "(N,T,F)" else 1
        rows = []
        for _i in range(N_ * T_n):
            s_ = g.choice([0.0, -0.03, 0.04, -0.5, 0.5, 1e-12])
            rows.append({"log_moneyness": s_, "max_log_moneyness": (max(s_, 0.0) + g.choice([0.0, 0.0, 0.1])) if g.chance(0.7) else s_,
                         "time_to_maturity": g.choice([0.0, 0.1, 1.0]), "volatility": g.choice([0.0, 0.2, 1.0]),
                         "prev_hedge": g.choice([0.0, 0.3, 1.0, -0.25])})
        bad = g.randint(0, len(rows) - 1)
        if which in ("neg_t", "both"):
            rows[bad]["time_to_maturity"] = -mag
        if which in ("neg_v", "both"):
            rows[bad]["volatility"] = -(mag if which == "neg_v" else g.choice([1e-9, 0.2]))
        x = torch.tensor([[r_[nm] for nm in names] for r_ in rows], dtype=dtp)
        bad_row = [float(z) for z in x[bad].tolist()]                  # the numbers of the dtype
        if not (bad_row[names.index("time_to_maturity")] < 0 or bad_row[names.index("volatility")] < 0):
            raise InternalError("negative-input scenario: no negative entry after conversion to the dtype")
        x = x.reshape(N_, T_n, len(names)) if shape == "(N,T,F)" else x
        case = {"negative": which, "option": option, "built": built, "dtype": dtn, "call": call, "strike": k, "cost": cost, "inputs": names,
                "input_shape": list(x.shape), "offending_row": bad_row, "offending_row_index": bad, "rows": len(rows)}
        ctx.case(case, True, tag="negative_routes")
        ctx.stats[f"negative:{which}:{built}"] += 1
        ctx.traces += 1
        prefix = f"ww_module:{okind}" if built == "WhalleyWilmott" else f"bs_module:{okind}"
        cols = [x[..., [i_]] for i_ in range(len(names))] if g.chance(0.5) else [x[..., i_] for i_ in range(len(names))]
        if built == "WhalleyWilmott":
            fst = must_reject("WhalleyWilmott.forward", lambda: mod(x), case, prefix)
            must_reject("WhalleyWilmott.width", lambda: mod.width(x[..., :-1]), case, prefix)
            must_reject("Hedger(WhalleyWilmott).forward", lambda: Hedger(mod, names)(x if x.dim() == 3 else x.unsqueeze(1)), case, prefix)
            neg_reqs.append({"op": "ww_module", "what": "forward", "kind": okind, "call": call, "strike": float_bits(k), "cost": float_bits(cost),
                             "a": float_bits(a_), "rows": enc_flt([bad_row])})
            neg_meta.append((case | {"route": "WhalleyWilmott.forward"}, fst))
        else:
            for meth in GREEKS:
                if g.chance(0.5):
                    must_reject(f"module.{meth}", lambda: getattr(mod, meth)(*cols), case, prefix)
                else:
                    must_reject(f"module.{meth}", lambda: getattr(mod, meth)(**dict(zip(names, cols))), case, prefix)
            fst = must_reject("module.forward", lambda: mod(x), case, prefix)
            must_reject("Hedger(module).forward", lambda: Hedger(mod, names)(x if x.dim() == 3 else x.unsqueeze(1)), case, prefix)
            neg_reqs.append({"op": "ww_module", "what": "bs", "kind": okind, "call": call, "strike": float_bits(k), "cost": float_bits(cost),
                             "a": float_bits(1.0), "rows": enc_flt([bad_row])})
            neg_meta.append((case | {"route": "module.forward"}, fst))
            flat = x.reshape(-1, len(names))
            col = lambda nm: flat[:, names.index(nm)].tolist()
            s_l, t_l, v_l = col("log_moneyness"), col("time_to_maturity"), col("volatility")
            m_l = col("max_log_moneyness") if pd else s_l
            for meth in GREEKS:
                fn = f"{okind}_{meth}"
                fst = must_reject(f"bs_{fn}", lambda: call_bs(torch, fnl, fn, s_l, t_l, v_l, k, m_l, call, dtype=dtp), case, f"bs:{fn}")
                if fn in MODEL_BS_FNS:
                    neg_reqs.append({"op": "bs", "fn": fn, "call": call, "elems": [enc_flt([s_l[bad], t_l[bad], v_l[bad], k, m_l[bad]])]})
                    neg_meta.append((case | {"route": f"bs_{fn}"}, fst))
    # ... and where the negative number is the STATE of the derivative the module / the hedger reads its parameters from: an underlier whose
    # volatility is negative (BrownianStock(sigma < 0): the paths are those of |sigma|, the volatility buffer is sigma), an underlier with dt < 0
    # (time to maturity = (T - 1 - i) dt < 0 at every step but the last), and the feature tensor of a healthy market (Hedger.get_input) with one
    # time-to-maturity / volatility entry replaced by a negative number: price() / delta() / gamma() without arguments, forward on the features,
    # Hedger.compute_hedge / compute_pl -- none may return numbers
    for _ in range(16 if ctx.tier == "quick" else 200):
        option = g.choice(sorted(OPT_FN))
        okind = OPT_FN[option]
        mk = g.choice(["bs", "ww"])
        source = g.choice(["negative_sigma", "negative_dt", "get_input_perturbed", "get_input_perturbed"])
        dtn = g.choice(["float32", "float64"])
        dtp = getattr(torch, dtn)
        call = g.chance(0.5) if option in ("EuropeanOption", "EuropeanBinaryOption") else True
        k = g.choice([0.9, 1.0, 1.1])
        cost = g.choice([0.0, 1e-3])
        n_steps = g.choice([2, 3, 5])
        tseed = g.randint(0, 2 ** 31 - 1)
        torch.manual_seed(tseed)
        sig = -g.choice([0.2, 1e-9, 1.0]) if source == "negative_sigma" else g.choice([0.2, 0.0])
        dt_ = -1 / 250 if source == "negative_dt" else 1 / 250
        u = pin.BrownianStock(sigma=sig, cost=cost, dt=dt_, dtype=dtp)
        d = getattr(pin, option)(u, call=call, strike=k, maturity=n_steps / 250)
        if source == "negative_dt":
            u.register_buffer("spot", torch.tensor([[g.choice([0.9, 1.0, 1.05, 1.2]) for _j in range(n_steps + 1)] for _i in range(g.choice([1, 3]))], dtype=dtp))
        else:
            d.simulate(n_paths=g.choice([1, 3, 8]))
        case = {"negative": source, "option": option, "model": mk, "dtype": dtn, "call": call, "strike": k, "cost": cost, "sigma": sig, "dt": dt_,
                "n_steps": n_steps, "torch_seed": tseed, "spot": u.spot[:4].tolist()}
        ctx.case(case, True, tag="negative_state")
        ctx.stats[f"negative:state:{source}:{mk}"] += 1
        ctx.traces += 1
        bsm = pnn.BlackScholes(d)
        mod = bsm if mk == "bs" else pnn.WhalleyWilmott(d)
        prefix = (f"ww_module:{okind}" if mk == "ww" else f"bs_module:{okind}") + ":state"
        st, feats, _ = call_impl(Hedger(bsm, bsm.inputs()).get_input, d, None)
        if st != "ok":
            raise InternalError(f"Hedger.get_input raised on a simulated derivative: {feats}")
        feats = feats.detach().clone()                                      # (N, T, F) of the Black-Scholes module
        names = list(bsm.inputs())
        if source == "get_input_perturbed":
            i_, j_ = g.randint(0, feats.size(0) - 1), g.randint(0, feats.size(1) - 1)
            nm = g.choice(["time_to_maturity", "volatility"])
            feats[i_, j_, names.index(nm)] = -g.choice([1e-9, 0.1, 1.0, 2.0 ** -149])
            case = case | {"replaced": nm, "at": [i_, j_], "features[at]": feats[i_, j_].tolist()}
        if not bool(((feats[..., names.index("time_to_maturity")] < 0) | (feats[..., names.index("volatility")] < 0)).any()):
            raise InternalError("negative-state scenario: the features of the derivative contain no negative time to maturity / volatility")
        if mk == "ww":
            feats = torch.cat([feats, torch.full_like(feats[..., :1], g.choice([0.0, 0.3, 1.0]))], dim=-1)
        hh = Hedger(mod, mod.inputs())
        must_reject("forward(features of the derivative)", lambda: mod(feats), case, prefix)
        must_reject("Hedger.forward(features of the derivative)", lambda: hh(feats), case, prefix)
        if source != "get_input_perturbed":
            with torch.no_grad():
                must_reject("Hedger.compute_hedge", lambda: hh.compute_hedge(d), case, prefix)
                must_reject("Hedger.compute_pl", lambda: hh.compute_pl(d), case, prefix)
            for meth in ("price", "delta", "gamma"):
                must_reject(f"BlackScholes(derivative).{meth}()", lambda: getattr(bsm, meth)(), case, f"bs_module:{okind}:state")
    # ---------------- PARTIAL argument lists to a module bound to a simulated derivative: every argument a caller passes is the one that is
    # used, every argument left out is acquired from the derivative (log-moneyness, running maximum, time to maturity of the grid, volatility of
    # the underlier).  The caller puts the module at the edge with the arguments he passes: time_to_maturity = zeros ("if it expired now") and
    # / or volatility = zeros on the simulated spots, an explicit log-moneyness on a zero-volatility market, or a NEGATIVE time to maturity /
    # volatility while the rest is acquired.  Predicates of the property, element by element over the (N, T) grid: price = the certain payoff,
    # delta = its limit, nothing is NaN; a negative argument is rejected by price / delta / gamma / vega / theta.  One element of each case
    # goes to the model of the functionals (op "bs") with the arguments the call stands for.
    part_reqs, part_meta = [], []
    EDGES = ["t0", "v0", "both", "state_v0", "neg_t", "neg_v"]
    part_corpus = [(o_, b_, e_, ("volatility",) if e_ in ("v0", "neg_v") else ("time_to_maturity", "volatility") if e_ == "both"
                    else ("log_moneyness",) if e_ == "state_v0" else ("time_to_maturity",))
                   for o_ in sorted(OPT_FN) for b_ in ("BlackScholes", "from_derivative") for e_ in EDGES]
    for it_ in range(len(part_corpus) + (40 if ctx.tier == "quick" else 500)):
        option = g.choice(sorted(OPT_FN))
        built = g.choice(["BlackScholes", "from_derivative"])
        edge = g.choice(EDGES)
        given = None
        if it_ < len(part_corpus):
            option, built, edge, given = part_corpus[it_]
        okind = OPT_FN[option]
        pd = option in ("AmericanBinaryOption", "LookbackOption")
        call = True if pd else g.chance(0.5)
        k = g.choice([0.9, 1.0, 1.1, 0.5, 2.0])
        sig = 0.0 if edge == "state_v0" else g.choice([0.2, 0.5, 0.0])
        u = pin.BrownianStock(sigma=sig, dtype=torch.float64)
        d = getattr(pin, option)(u, call=call, strike=k, maturity=g.choice([3 / 250, 10 / 250]))
        tseed = g.randint(0, 2 ** 31 - 1)
        torch.manual_seed(tseed)
        d.simulate(n_paths=g.choice([1, 3, 8]), init_state=(g.choice([1.0, 0.8, 1.25, 1.0]),))
        mod = pnn.BlackScholes(d) if built == "BlackScholes" else getattr(pnn, "BS" + option).from_derivative(d)
        names = list(mod.inputs())
        if given is None:
            # a proper, non-empty subset of the arguments that contains the one(s) put at the edge
            must = {"t0": ["time_to_maturity"], "v0": ["volatility"], "both": ["time_to_maturity", "volatility"], "state_v0": [],
                    "neg_t": ["time_to_maturity"], "neg_v": ["volatility"]}[edge]
            free = [nm for nm in names if nm not in must and not (edge == "state_v0" and nm == "volatility")]
            extra = [nm for nm in free if g.chance(0.4)]
            if not must and not extra:
                extra = [g.choice(free)]
            given = tuple(nm for nm in names if nm in must or nm in extra)
            if len(given) == len(names):
                given = tuple(nm for nm in given if nm in must) or given[:1]
        spot = u.spot.detach().clone()
        N_, T_n = spot.shape
        acq = {"log_moneyness": d.log_moneyness().detach().clone(), "time_to_maturity": d.time_to_maturity().detach().clone(),
               "volatility": u.volatility.detach().clone()}
        if pd:
            acq["max_log_moneyness"] = d.max_log_moneyness().detach().clone()
        used = dict(acq)
        if "time_to_maturity" in given:
            used["time_to_maturity"] = torch.zeros_like(spot) if edge != "neg_t" else torch.full_like(spot, g.choice([0.0, 0.1]))
        if "volatility" in given:
            used["volatility"] = torch.zeros_like(spot) if edge in ("v0", "both") else torch.full_like(spot, g.choice([0.2, 1.0]))
            if edge == "state_v0":
                raise InternalError("partial-argument scenario: the volatility must be acquired from the zero-volatility market")
        if "log_moneyness" in given:
            used["log_moneyness"] = torch.tensor([[g.choice([-0.3, -0.03, 0.04, 0.5, 0.0]) for _j in range(T_n)] for _i in range(N_)], dtype=torch.float64)
            if pd and "max_log_moneyness" not in given:
                used["log_moneyness"] = torch.minimum(used["log_moneyness"], acq["max_log_moneyness"])     # the spot never exceeds its running maximum
        if "max_log_moneyness" in given:
            used["max_log_moneyness"] = torch.maximum(used["log_moneyness"], torch.zeros_like(spot)) + g.choice([0.0, 0.0, 0.1]) if g.chance(0.7) \
                else used["log_moneyness"].clone()
        bad_at = None
        if edge in ("neg_t", "neg_v"):
            nm = "time_to_maturity" if edge == "neg_t" else "volatility"
            bad_at = (g.randint(0, N_ - 1), g.randint(0, T_n - 1))
            if g.chance(0.5):
                used[nm] = torch.full_like(spot, -g.choice([1.0, 0.1]))           # negative everywhere
            else:
                used[nm][bad_at] = -g.choice([1e-9, 0.1, 1.0, 5e-324])           # one negative entry
        kwargs = {nm: used[nm].clone() for nm in given}
        positional = g.chance(0.3) and list(given) == names[:len(given)]
        case = {"partial": True, "edge": edge, "option": option, "built": built, "call": call, "strike": k, "sigma": sig, "given": list(given),
                "acquired": [nm for nm in names if nm not in given], "positional": positional, "torch_seed": tseed, "spot": spot[:4].tolist(),
                "given_values": {nm: kwargs[nm][:4].tolist() for nm in given}}
        ctx.case(case, True, tag="bs_module_partial")
        ctx.stats[f"partial:{edge}:{option}"] += 1
        ctx.stats["partial:given=" + ",".join(given)] += 1
        ctx.traces += 1
        invoke = (lambda meth: getattr(mod, meth)(*[kwargs[nm].clone() for nm in given])) if positional else \
            (lambda meth: getattr(mod, meth)(**{nm: kwargs[nm].clone() for nm in given}))
        U = {nm: used[nm].tolist() for nm in used}
        pick = bad_at or (g.randint(0, N_ - 1), g.randint(0, T_n - 1))
        elem = lambda p_, j: [U["log_moneyness"][p_][j], U["time_to_maturity"][p_][j], U["volatility"][p_][j], k,
                              U["max_log_moneyness"][p_][j] if pd else U["log_moneyness"][p_][j]]
        if edge in ("neg_t", "neg_v"):
            for meth in GREEKS:
                fst = must_reject(f"module.{meth}(partial arguments)", lambda: invoke(meth), case, f"bs_module:{okind}")
                fn = f"{okind}_{meth}"
                if fn in MODEL_BS_FNS:
                    part_reqs.append({"op": "bs", "fn": fn, "call": call, "elems": [enc_flt(elem(*pick))]})
                    part_meta.append((case | {"method": meth, "element": list(pick)}, fst[0], fst[1]))
            continue
        for what in ("price", "delta"):
            fn = f"{okind}_{what}"
            st, out, _ = call_impl(invoke, what, watch=[("derivative", d)])
            if st != "ok" or tuple(out.shape) != (N_, T_n):
                ctx.fail(f"{what}() with a partial argument list at the edge raised or has the wrong shape", case | {"method": what},
                         key=f"bs_module:{fn}:partial:edge-error", detail=str(out)[:200])
                continue
            vals = out.detach().tolist()
            if fn in MODEL_BS_FNS:
                part_reqs.append({"op": "bs", "fn": fn, "call": call, "elems": [enc_flt(elem(*pick))]})
                part_meta.append((case | {"method": what, "element": list(pick)}, "ok", vals[pick[0]][pick[1]]))
            done = set()
            for p_ in range(N_):
                for j in range(T_n):
                    s_, t_, v_, _k, m_ = elem(p_, j)
                    if not (t_ == 0.0 or v_ == 0.0):
                        continue
                    at = case | {"method": what, "path": p_, "step": j, "s": s_, "m": m_, "t": t_, "v": v_}
                    val = vals[p_][j]
                    if "nan" not in done and math.isnan(val):
                        done.add("nan")
                        ctx.fail(f"{what}() with a partial argument list is NaN at zero time to maturity / zero volatility", at, key=nan_key(fn), detail="nan")
                    exp = certain_payoff(fn, s_, k, m_, call, resting=(sig == 0.0 and "log_moneyness" not in given))
                    if "val" not in done and exp is not None and not math.isnan(val) and not (abs(val - exp) <= 1e-9 * max(1.0, abs(exp))):
                        done.add("val")
                        ctx.fail(f"{what}() of a module bound to a derivative, called with a partial argument list (passed: {', '.join(given)}; the rest acquired "
                                 "from the derivative), differs from the certain payoff / limiting delta at the zero time to maturity / zero volatility the "
                                 "arguments stand for", at, key=f"bs_module:{fn}:partial:value-at-expiry", detail={"module": val, "expected": exp})
    try:
        pouts = ctx.driver(part_reqs)
    except DriverBroken as e:
        ctx.ties_broken.append({"kind": "driver", "detail": str(e)[:1500]})
        pouts = []
    for (case, st, got), mo in zip(part_meta, pouts):
        mm = mo[0]
        if st != "ok":
            if mm.get("err") != got:
                ctx.disagree("bs_partial", case, (st, got), mm)
            continue
        if hasattr(got, "detach"):
            got = float(got.detach().reshape(-1)[0])       # a number came back where the model rejects (already a failure above)
        mv = float_of_bits(mm["ok"]) if "ok" in mm else None
        if mv is None or kind(mv) != kind(got) or (kind(got) == "fin" and abs(mv - got) > 1e-9 * max(1.0, abs(got))):
            ctx.disagree("bs_partial", case, got, mm)
    try:
        nouts = ctx.driver(neg_reqs)
    except DriverBroken as e:
        ctx.ties_broken.append({"kind": "driver", "detail": str(e)[:1500]})
        nouts = []
    for (case, (st, got)), mo in zip(neg_meta, nouts):
        mm = mo[0]
        impl = {"err": got} if st != "ok" else {"ok": got.detach().reshape(-1).tolist()[:8]}
        if mm.get("err") != "value_error" or impl != {"err": "value_error"}:
            if mm != impl:
                ctx.disagree("negative_row", case, impl, mm)
    return ctx.finish(
        rule="bs_* functions (4 prices, 3 deltas, European gamma/vega/theta, d1/d2) at t=0, v=0, both, tiny (5e-324,1e-300,1e-16), negative; "
             "|log-moneyness| in {0,1e-12,..,700}, strikes, call/put, running max >= spot; real BS/WW hedgers on simulated Brownian/Heston paths; the four BS modules (direct / from_derivative / BlackScholes, strikes != 1, calls and puts) "
             "at explicit t=0 / v=0 inputs and on simulated / injected derivatives (last column vs payoff, zero-volatility steps; price / delta also "
             "evaluated on the hedger's features of the last time step); markets ON the strike (init_state=(K,), K in {0.9,0.95,1.03,1.05,1.1,1.2}, float32 "
             "and float64, sigma 0 = resting on the strike: European delta +-1/2, or sigma in {0.2,0.5}: American binary touched at inception) through "
             "BlackScholes / BS*.from_derivative, the hedger features and the BS / WW hedgers; float32 values within 16 * 2^-23; "
             "negative t / v (1.0 .. the smallest negative number of float32 / float64) in one row of (1,F) / (N,F) / (N,T,F) inputs through the functionals (price, "
             "delta, gamma, vega, theta), module methods, module(input), Hedger(module)(input), WhalleyWilmott forward / width, and as the state of the derivative "
             "(sigma < 0, dt < 0, a perturbed Hedger.get_input) through price() / delta() / gamma(), compute_hedge, compute_pl: all raise ValueError (the offending "
             "row also to ops ww_module / bs); corpus of signed zeros (t or v = -0.0 is zero); "
             "partial argument lists (t = zeros / v = zeros / explicit log-moneyness on a zero-volatility market / a negative t or v passed, the rest acquired) to "
             "modules bound to a simulated derivative: certain payoff, limiting delta, ValueError; WhalleyWilmott(d)(input) and BS / WW hedgers on zero-volatility "
             "paths away from the strike = the limiting delta for calls and puts (-1 / 0) and binaries (0); "
             "every case non-trivial; distinct = sha1 of canonical case")
