"""C20 — Clamps, the Whalley-Wilmott band and small helpers follow their formulas.

correspondence: clamp / leaky_clamp / Clamp() / LeakyClamp() exact at Rat on dyadic data (tensor,
scalar and one-sided bounds, inverted bounds, both inverted_output modes, invalid mode);
bilerp exact; WhalleyWilmott(derivative)(input), ww_width, svi_variance / SVIVariance,
box_muller, realized_volatility through the Float carrier.
predicate: the documented piecewise formulas evaluated independently in Python (Fractions /
math), incl. band membership for Whalley-Wilmott and equality with the BS delta at zero cost.
Whalley-Wilmott is run for every derivative a Black-Scholes module exists for (European, European binary, lookback, American binary:
four and FIVE input features), through forward() on the concatenated input (several rows, previous hedge placed relative to the band)
and through a Hedger on simulated paths; oracle = delta / gamma of an independent Black-Scholes module called with named arguments;
correspondence of the half-width with op "ww_width" and of the band logic with the exact op "ww" (European also op "ww_full").
The MODULE itself -- which column of the row is the previous hedge, which option kind's delta and gamma, the half-width and the clamp --
is the model definition `wwForwardRow` (Model/WWModule.lean; theorems in Lemmas/C20Module.lean), evaluated by op "ww_module" on every row
of every WhalleyWilmott.forward section (all four kinds, all input shapes flattened to rows), on the per-step rows (features of the step +
previous hedge) of the Hedger section, and on rows of a wrong length (error kinds); compared with the output of the real module.
The band INFINITELY wide (gamma = +inf: a European option exactly at the money at maturity or at zero volatility, cost > 0): the previous hedge
is kept, never NaN (zero cost: the delta limit +-1/2); rows sent to the same ops (IEEE infinities on the Float carrier, compared NaN-aware),
also through a Hedger on markets that rest on / visit the strike with zero volatility.
The helpers are also evaluated OUTSIDE the usual range of their arguments, wherever the documented formula is defined: bilerp weights
outside [0, 1] (float / 0-dim / per-element tensor weights, float32 and float64), SVI parameters of any sign, box_muller with u1 <= 0 /
around epsilon, angles beyond one turn and a caller-chosen epsilon, ww_width with negative / huge gamma, cost rates up to 1 and tensor
cost / a, realized volatility of prices over many orders of magnitude -- all of them also sent to their model ops.
"""
import math
from fractions import Fraction as F
from common import *  # noqa


def spec_clamp(x, lo, hi, mode):
    """documented behaviour of clamp"""
    if lo is not None and hi is not None and lo > hi:
        return (lo + hi) / 2 if mode == "mean" else hi
    if lo is not None and x < lo:
        return lo
    if hi is not None and x > hi:
        return hi
    return x


def spec_leaky(x, lo, hi, slope, mode):
    """documented behaviour of leaky_clamp for 0 <= slope <= 1"""
    if lo is not None and hi is not None and lo > hi:
        return (lo + hi) / 2 if mode == "mean" else hi
    if lo is not None and x < lo:
        return lo + slope * (x - lo)
    if hi is not None and x > hi:
        return hi + slope * (x - hi)
    return x


def gen_clamp(g, tier):
    fn = g.choice(["leaky", "clamp", "leaky_mod", "clamp_mod"])
    dtype = g.weighted([("float64", 3), ("float32", 1)])
    n = g.small((1, 2, 3, 5, 8))
    layout = g.weighted([("tensor", 4), ("scalar", 2), ("lo_only", 1), ("hi_only", 1), ("none", 0.5), ("mixed", 1)])
    slope = g.choice([F(0), F(1, 100), F(1, 4), F(1, 2), F(1), F(1, 8)]) if fn in ("leaky", "leaky_mod") else F(0)
    if slope == F(1, 100):
        slope = F(1, 128)
    mode = g.weighted([("mean", 4), ("max", 4), ("bogus", 0.4)])
    if fn == "clamp_mod":
        mode = "mean"
    elems = []
    slo, shi = g.dy(-2, 2, 2), g.dy(-2, 2, 2)
    for _ in range(n):
        x = g.dy(-4, 4, 3)
        lo, hi = g.dy(-2, 2, 2), g.dy(-2, 2, 2)
        r = g.r.random()
        if r < 0.2:
            x = lo
        elif r < 0.4:
            x = hi
        elif r < 0.5:
            hi = lo
        if layout in ("scalar", "mixed"):
            lo = slo
        if layout == "scalar":
            hi = shi
        if layout == "lo_only":
            hi = None
        if layout == "hi_only":
            lo = None
        if layout == "none":
            lo = hi = None
        elems.append([x, lo, hi])
    return dict(fn=fn, dtype=dtype, layout=layout, slope=slope, mode=mode, elems=elems)


def clamp_req(c):
    return {"op": "clamp", "fn": c["fn"], "slope": rat_str(c["slope"]), "mode": c["mode"],
            "elems": [[rat_str(x), None if lo is None else rat_str(lo), None if hi is None else rat_str(hi)]
                      for x, lo, hi in c["elems"]]}


def impl_clamp(torch, c):
    import pfhedge.nn.functional as fnl
    from pfhedge.nn import Clamp, LeakyClamp
    dt = getattr(torch, c["dtype"])
    x = torch.tensor([float(e[0]) for e in c["elems"]], dtype=dt)

    def bound(i):
        vals = [e[i] for e in c["elems"]]
        if vals[0] is None:
            return None
        if c["layout"] == "scalar" or (c["layout"] == "mixed" and i == 1):
            return float(vals[0]) if len(set(vals)) == 1 else torch.tensor([float(v) for v in vals], dtype=dt)
        return torch.tensor([float(v) for v in vals], dtype=dt)
    lo, hi = bound(1), bound(2)
    if c["fn"] == "leaky":
        st, v, mut = call_impl(fnl.leaky_clamp, x, lo, hi, clamped_slope=float(c["slope"]), inverted_output=c["mode"])
    elif c["fn"] == "clamp":
        st, v, mut = call_impl(fnl.clamp, x, lo, hi, inverted_output=c["mode"])
    elif c["fn"] == "leaky_mod":
        try:
            mod = LeakyClamp(clamped_slope=float(c["slope"]), inverted_output=c["mode"])
        except Exception as e:  # noqa
            return ("err", canon_error(e)), []
        st, v, mut = call_impl(mod, x, lo, hi)
    else:
        st, v, mut = call_impl(Clamp(), x, lo, hi)
    if st == "ok":
        if tuple(v.shape) != tuple(x.shape):
            return ("badshape", list(v.shape)), mut
        return ("ok", tensor_to_fracs(v)), mut
    return ("err", v), mut


def mres(m):
    if isinstance(m, dict) and "ok" in m:
        return ("ok", dec_rat(m["ok"]))
    if isinstance(m, dict) and "err" in m:
        return ("err", m["err"])
    return ("bad", m)


def close(a, b, rel=1e-9, ab=1e-12):
    if math.isnan(a) or math.isnan(b):
        return math.isnan(a) and math.isnan(b)
    if math.isinf(a) or math.isinf(b):
        return a == b
    return abs(a - b) <= rel * max(abs(a), abs(b)) + ab


def check(ctx):
    torch, pfhedge = import_impl()
    import pfhedge.nn.functional as fnl
    g = ctx.gen
    ctx.lean_gate()
    n = 2500 if ctx.tier == "quick" else 40000
    cases = [gen_clamp(g, ctx.tier) for _ in range(n)]
    impl = []
    for c in cases:
        r, mut = impl_clamp(torch, c)
        if mut:
            ctx.mutated(c["fn"], mut, clamp_req(c))
        impl.append(r)
    try:
        model = [mres(m) for m in ctx.driver([clamp_req(c) for c in cases])]
    except DriverBroken as e:
        ctx.ties_broken.append({"kind": "driver", "detail": str(e)[:1500]})
        model = [("bad", None)] * len(cases)
    for c, ri, rm in zip(cases, impl, model):
        inv = any(lo is not None and hi is not None and lo > hi for _, lo, hi in c["elems"])
        for k in ("fn", "layout", "mode"):
            ctx.stats[f"{k}={c[k]}"] += 1
        ctx.stats[f"inverted={inv}"] += 1
        ctx.case(clamp_req(c) | {"dtype": c["dtype"]}, nontrivial=c["layout"] != "none", tag=c["fn"])
        ctx.traces += 1
        if c["layout"] == "none" and c["fn"] == "clamp" and c["mode"] == "max":
            continue   # torch.clamp(None, None): backend error text only
        mixed_max = (c["fn"] == "clamp" and c["mode"] == "max" and c["layout"] == "mixed"
                     and ri == ("err", "type_error"))
        if mixed_max:
            # torch.clamp accepts two numbers or two tensors, not one of each.  The model is
            # element-wise (no scalar/tensor distinction), so this input class is judged by the
            # property predicate only.
            ctx.fail("clamp(inverted_output='max') raises TypeError when one bound is a float and the other a tensor",
                     clamp_req(c), key="clamp:max-mode:mixed-scalar-tensor-bounds", detail=ri)
            continue
        if ri != rm:
            ctx.disagree(c["fn"], clamp_req(c) | {"dtype": c["dtype"]},
                         ri if ri[0] != "ok" else ("ok", enc_rat(ri[1])), rm if rm[0] != "ok" else ("ok", enc_rat(rm[1])))
        # predicate: documented piecewise values
        if c["mode"] == "bogus":
            both = all(lo is not None and hi is not None for _, lo, hi in c["elems"])
            if ri[0] == "ok" and (c["fn"] in ("clamp",) or both):
                ctx.fail("an invalid inverted_output mode is accepted", clamp_req(c), key=f"{c['fn']}:bogus-mode")
            continue
        if ri[0] != "ok":
            ctx.fail(f"{c['fn']} raised on valid arguments", clamp_req(c), key=f"{c['fn']}:error", detail=ri)
            continue
        for (x, lo, hi), got in zip(c["elems"], ri[1]):
            if c["fn"] in ("clamp", "clamp_mod"):
                exp = spec_clamp(x, lo, hi, c["mode"])
            else:
                exp = spec_leaky(x, lo, hi, c["slope"], c["mode"])
            if got != exp:
                what = f"{c['fn']} differs from its documented piecewise formula"
                key = f"{c['fn']}:value"
                if c["fn"] == "leaky_mod" and c["mode"] == "max" and lo is not None and hi is not None and lo > hi:
                    what = "LeakyClamp module ignores inverted_output (returns the mean where min > max although 'max' is configured)"
                    key = "LeakyClamp.forward:inverted_output"
                ctx.fail(what, clamp_req(c), key=key,
                         detail={"x": rat_str(x), "lo": str(lo), "hi": str(hi), "impl": rat_str(got), "expected": rat_str(exp)})
                break
    # ---------------- bilerp (exact): weights inside the unit square, on its boundary and OUTSIDE it (the documented formula is a
    # polynomial in the weights: linear extrapolation), each weight a Python float, a 0-dim tensor or one weight per element
    breq, bmeta = [], []
    for _ in range(300 if ctx.tier == "quick" else 4000):
        n_ = g.small((1, 1, 1, 2, 3, 5))
        dtn = g.weighted([("float64", 3), ("float32", 1)])
        dt_ = getattr(torch, dtn)
        wrange = g.weighted([("unit", 2), ("outside", 3)])
        wforms = [g.weighted([("float", 2), ("tensor", 2), ("tensor0", 1)]) for _i in range(2)]
        vals = [[g.dy(-4, 4, 3) for _j in range(4)] for _i in range(n_)]

        def weight():
            if wrange == "unit":
                return g.dy(0, 1, 3)
            return g.choice([g.dy(-3, 0, 3), g.dy(1, 4, 3), g.dy(-3, 4, 3), g.dy(0, 1, 3)])
        ws = []
        for form in wforms:
            w = [weight() for _i in range(n_)]
            ws.append(w if form == "tensor" else [w[0]] * n_)
        if wrange == "outside" and all(0 <= w <= 1 for w_ in ws for w in w_):
            ws[g.randint(0, 1)] = [g.choice([g.dy(-3, -1, 3) - F(1, 8), g.dy(1, 4, 3) + F(1, 8)])] * n_
        t = [torch.tensor([float(v[j]) for v in vals], dtype=dt_) for j in range(4)]
        wt = [float(w[0]) if form == "float" else (torch.tensor(float(w[0]), dtype=dt_) if form == "tensor0" else
                                                   torch.tensor([float(x) for x in w], dtype=dt_)) for form, w in zip(wforms, ws)]
        st, v, mut = call_impl(fnl.bilerp, *t, *wt)
        got = tensor_to_fracs(v) if st == "ok" and tuple(v.shape) == (n_,) else [v if st != "ok" else "shape " + str(list(v.shape))] * n_
        elems = [list(vals[i]) + [ws[0][i], ws[1][i]] for i in range(n_)]
        outside = any(not 0 <= w <= 1 for w_ in ws for w in w_)
        case = {"bilerp": enc_rat(elems), "dtype": dtn, "weight_forms": wforms}
        ctx.case(case, True, tag="bilerp")
        ctx.stats[f"bilerp:weights={'outside [0,1]' if outside else 'in [0,1]'}"] += 1
        ctx.traces += 1
        if mut:
            ctx.mutated("bilerp", mut, case)
        for e, gv in zip(elems, got):
            a, b, c_, d, u, w = e
            exp = (1 - u) * (1 - w) * a + u * (1 - w) * b + (1 - u) * w * c_ + u * w * d
            if gv != exp:
                ctx.fail("bilerp differs from the bilinear interpolation formula" + (" for a weight outside [0, 1]" if not (0 <= u <= 1 and 0 <= w <= 1) else ""),
                         case, key="bilerp:value" if (0 <= u <= 1 and 0 <= w <= 1) else "bilerp:value:weight-outside-unit-interval",
                         detail={"element": enc_rat(e), "impl": str(gv), "expected": rat_str(exp)})
                break
        for e, gv in zip(elems, got):
            breq.append(e)
            bmeta.append(gv)
    # ---------------- Whalley-Wilmott, ww_width, svi, box_muller, realized_volatility (Float)
    from pfhedge.instruments import BrownianStock, EuropeanOption
    from pfhedge.nn import WhalleyWilmott, BlackScholes, SVIVariance
    wwreqs, wwmeta = [], []
    wmod_reqs, wmod_meta = [], []           # op "ww_module": one request per (module, block of rows); meta = list of (case, impl, tol) per row

    def wmod_add(kind, call, k, cost, a, rows, metas, what="forward"):
        """rows of one module sent to the model of the module; metas: per row (case, impl value or ("err", kind), absolute tolerance or None
        = the tolerance of "ww_full")"""
        wmod_reqs.append({"op": "ww_module", "what": what, "kind": kind, "call": call, "strike": float_bits(k), "cost": float_bits(cost),
                          "a": float_bits(a), "rows": enc_flt(rows)})
        wmod_meta.append(list(metas))
    for _ in range(120 if ctx.tier == "quick" else 1500):
        cost = g.choice([0.0, 0.0, 1e-4, 1e-3, 1e-2, 5e-2])
        a = g.choice([0.25, 1.0, 3.0, 1.0])
        k = g.choice([0.5, 1.0, 2.0, 1.0, 7.5])
        call = g.chance(0.7)
        d = EuropeanOption(BrownianStock(cost=cost, dtype=torch.float64), call=call, strike=k)
        m = WhalleyWilmott(d, a=a)
        bs = BlackScholes(d)
        rows = []
        for _ in range(6):
            s = g.r.uniform(-0.5, 0.5)
            t = g.choice([0.01, 0.1, 0.25, 1.0, 2.0, g.r.uniform(0.01, 3)])
            v = g.choice([0.1, 0.2, 0.5, g.r.uniform(0.05, 1.0)])
            with torch.no_grad():
                x3 = torch.tensor([[s, t, v]], dtype=torch.float64)
                delta = float(bs(x3))
                width = float(m.width(x3))
            where = g.choice(["inside", "above", "below", "on_hi", "on_lo", "at_delta"])
            prev = {"inside": delta + 0.5 * width * g.r.uniform(-1, 1), "above": delta + width + g.r.uniform(0.01, 1),
                    "below": delta - width - g.r.uniform(0.01, 1), "on_hi": delta + width, "on_lo": delta - width,
                    "at_delta": delta}[where]
            rows.append([s, t, v, prev])
            with torch.no_grad():
                out = float(m(torch.tensor([[s, t, v, prev]], dtype=torch.float64)))
            case = {"cost": cost, "a": a, "k": k, "call": call, "row": [s, t, v, prev], "where": where}
            ctx.case(case, nontrivial=cost > 0, tag="ww")
            ctx.stats[f"ww:where={where}"] += 1
            ctx.stats[f"ww:cost>0={cost > 0}"] += 1
            ctx.traces += 1
            # predicate: band logic with the documented half-width, from BS delta/gamma of the real code
            with torch.no_grad():
                gam = float(bs.gamma(torch.tensor([[s]], dtype=torch.float64), torch.tensor([[t]], dtype=torch.float64),
                                     torch.tensor([[v]], dtype=torch.float64)))
            wdoc = (3 * cost * gam ** 2 * (k * math.exp(s)) / (2 * a)) ** (1 / 3)
            lo_, hi_ = delta - wdoc, delta + wdoc
            exp = prev if lo_ <= prev <= hi_ else (hi_ if prev > hi_ else lo_)
            tol = 1e-9 * (1 + abs(exp)) + 1e-7 * wdoc
            if abs(out - exp) > tol:
                ctx.fail("Whalley-Wilmott hedge is not clamp(prev, delta -/+ (3 c gamma^2 S / (2a))^(1/3))", case,
                         key="WhalleyWilmott.forward:band", detail={"impl": out, "expected": exp, "delta": delta, "width_doc": wdoc})
            if cost == 0 and abs(out - delta) > 1e-12:
                ctx.fail("Whalley-Wilmott with zero cost differs from the Black-Scholes delta", case,
                         key="WhalleyWilmott.forward:zero-cost", detail={"impl": out, "delta": delta})
            wwmeta.append((case, out))
        wwreqs.append({"op": "ww_full", "cost": float_bits(cost), "a": float_bits(a), "k": float_bits(k), "call": call,
                       "elems": enc_flt(rows)})
        wmod_add("european", call, k, cost, a, rows, [(c_, o_, None) for c_, o_ in wwmeta[-len(rows):]])
    # svi / box_muller / ww_width / realized vol
    sreq_elems, smeta = [], []
    for _ in range(200 if ctx.tier == "quick" else 3000):
        e = [g.r.uniform(-1, 1), g.r.uniform(0, 0.1), g.r.uniform(0, 1), g.r.uniform(-0.9, 0.9), g.r.uniform(-0.5, 0.5),
             g.choice([g.r.uniform(0.01, 2), g.r.uniform(0.01, 2), 0.0, -g.r.uniform(0.01, 2)])]
        if g.chance(0.4):
            # the formula is defined for all real parameters: also outside the range of a calibrated smile (a < 0, b < 0, |rho| > 1, far strikes)
            e = [g.r.uniform(-6, 6), g.r.uniform(-1, 1), g.r.uniform(-2, 2), g.r.uniform(-3, 3), g.r.uniform(-4, 4),
                 g.choice([g.r.uniform(-10, 10), 0.0, g.r.uniform(0.01, 2)])]
            ctx.stats["svi:parameters outside the usual range"] += 1
        k_, a_, b_, rho, m_, sg = e
        par = [a_, b_, rho, m_, sg]
        if g.chance(0.3):
            par = [torch.tensor(x, dtype=torch.float64) for x in par]       # parameters given as (0-dim) tensors
        if g.chance(0.5):
            got = float(fnl.svi_variance(torch.tensor(k_, dtype=torch.float64), *par))
        else:
            got = float(SVIVariance(*par)(torch.tensor(k_, dtype=torch.float64)))
        exp = a_ + b_ * (rho * (k_ - m_) + math.sqrt((k_ - m_) ** 2 + sg ** 2))
        ctx.case({"svi": e}, True, tag="svi")
        ctx.traces += 1
        if not close(got, exp):
            ctx.fail("svi_variance differs from a + b(rho(k-m) + sqrt((k-m)^2 + sigma^2))", {"svi": e}, key="svi_variance:value",
                     detail={"impl": got, "expected": exp})
        sreq_elems.append(e)
        smeta.append(got)
    bm_elems, bm_meta = [], []
    bm_eps = {}        # non-default epsilon -> (elems, outputs); one model request per epsilon
    for _ in range(200 if ctx.tier == "quick" else 3000):
        u1 = g.choice([g.r.random(), g.r.random(), 1e-12, 0.0, 1.0, 0.5])
        u2 = g.r.random()
        eps = None
        if g.chance(0.4):
            # outside the range of uniform samples / of the default: u1 at and around epsilon, u1 <= 0 (clamped to epsilon as documented),
            # angles beyond one turn, a caller-chosen epsilon
            eps = g.choice([None, None, 1e-6, 1e-3, 0.25])
            ev = 1e-10 if eps is None else eps
            u1 = g.choice([ev, ev * (1 + 1e-9), ev * (1 - 1e-9), 2 * ev, ev / 2, 3e-10, 1e-300, -g.r.random(), -1e-12, g.r.random(), 1.0 - 2.0 ** -53])
            u2 = g.choice([g.r.uniform(-3, 3), g.r.uniform(-3, 3), -g.r.random(), 1.0, 0.0, -0.25, 2.5])
            ctx.stats["box_muller:arguments outside the usual range"] += 1
        ev = 1e-10 if eps is None else eps
        kw = {} if eps is None else {"epsilon": eps}
        z1, z2 = fnl.box_muller(torch.tensor(u1, dtype=torch.float64), torch.tensor(u2, dtype=torch.float64), **kw)
        z1, z2 = float(z1), float(z2)
        r = math.sqrt(-2 * math.log(max(u1, ev)))
        e1, e2 = r * math.cos(2 * math.pi * u2), r * math.sin(2 * math.pi * u2)
        case = {"box_muller": [u1, u2]} if eps is None else {"box_muller": [u1, u2], "epsilon": eps}
        ctx.case(case, True, tag="box_muller")
        ctx.traces += 1
        if not (close(z1, e1, ab=1e-9) and close(z2, e2, ab=1e-9)):
            ctx.fail("box_muller differs from sqrt(-2 log u1) (cos, sin)(2 pi u2)", case, key="box_muller:value",
                     detail={"impl": [z1, z2], "expected": [e1, e2]})
        if eps is None:
            bm_elems.append([u1, u2])
            bm_meta.append((z1, z2))
        else:
            bm_eps.setdefault(eps, ([], []))
            bm_eps[eps][0].append([u1, u2])
            bm_eps[eps][1].append((z1, z2))
    wreq_elems, wmeta = [], []
    for _ in range(200 if ctx.tier == "quick" else 3000):
        e = [g.choice([g.r.uniform(0, 5), g.r.uniform(0, 5), math.inf, 1e200]), g.r.uniform(0.1, 3), g.choice([0.0, 1e-4, 1e-3, 1e-2, -0.0]),
             g.choice([0.25, 1.0, 3.0, 10.0])]
        cost_a = [e[2], e[3]]
        if g.chance(0.4):
            # a NEGATIVE gamma (short positions, binaries past the strike: only gamma^2 enters), large gammas, penny / large spots, cost rates
            # up to 100 %, tiny / large risk aversions; cost and a given as tensors
            e = [g.choice([-g.r.uniform(0, 5), -g.r.uniform(0, 5), g.r.uniform(-300, 300), -math.inf, -1e200, g.r.uniform(-1e-3, 1e-3)]),
                 g.choice([g.r.uniform(0.1, 3), g.r.uniform(1e-3, 0.1), g.r.uniform(3, 1e3)]), g.choice([0.0, 1e-4, 1e-2, 0.1, 0.5, 1.0, -0.0]),
                 g.choice([0.25, 1.0, 1e-3, 100.0, g.r.uniform(0.01, 20)])]
            cost_a = [torch.tensor(x, dtype=torch.float64) if g.chance(0.4) else x for x in e[2:]]
            ctx.stats["ww_width:arguments outside the usual range"] += 1
        got = float(fnl.ww_width(torch.tensor(e[0], dtype=torch.float64), torch.tensor(e[1], dtype=torch.float64), *cost_a))
        # no cost, no band - also where gamma is infinite (documented: the strategy is then the Black-Scholes delta hedge)
        exp = 0.0 if e[2] == 0 else (math.inf if abs(e[0]) >= 1e150 else (3 * e[2] * e[0] ** 2 * e[1] / (2 * e[3])) ** (1 / 3))
        ctx.case({"ww_width": e}, e[2] > 0, tag="ww_width")
        ctx.traces += 1
        if not close(got, exp):
            ctx.fail("ww_width differs from (3 c gamma^2 S / (2a))^(1/3)", {"ww_width": e}, key="ww_width:value",
                     detail={"impl": got, "expected": exp})
        wreq_elems.append(e)
        wmeta.append(got)
    rv_reqs, rv_meta = [], []
    for _ in range(100 if ctx.tier == "quick" else 1000):
        T = g.small((2, 3, 5, 8, 20))
        dt = g.choice([1 / 250, 0.1, 1 / 12])
        path = [math.exp(g.r.uniform(-0.3, 0.3)) for _ in range(T)]
        if g.chance(0.3):
            # prices over many orders of magnitude, intervals far from a trading day
            dt = g.choice([1e-6, 2.0, 10.0, 1 / 250])
            path = [math.exp(g.r.uniform(-8, 8)) for _ in range(T)]
            ctx.stats["realized_vol:arguments outside the usual range"] += 1
        got = float(fnl.realized_volatility(torch.tensor([path], dtype=torch.float64), dt)[0])
        lr = [math.log(path[i + 1]) - math.log(path[i]) for i in range(T - 1)]
        exp = math.sqrt(sum(x * x for x in lr) / len(lr) / dt)
        ctx.case({"realized_vol": path, "dt": dt}, True, tag="realized_vol")
        ctx.traces += 1
        if not close(got, exp):
            ctx.fail("realized_volatility differs from sqrt(mean squared log-return / dt)", {"path": path, "dt": dt},
                     key="realized_volatility:value", detail={"impl": got, "expected": exp})
        rv_reqs.append({"op": "var_swap", "dt": float_bits(dt), "strike": float_bits(0.0), "paths": enc_flt([path])})
        rv_meta.append(got)
    # ---------------- one WhalleyWilmott module used again after the cost of its underlier changed (cost -> 0: the band collapses
    # onto the Black-Scholes delta; 0 -> cost > 0: the band opens): forward / width follow the cost the underlier has at call time
    for _ in range(40 if ctx.tier == "quick" else 600):
        a = g.choice([0.25, 1.0, 3.0, 1.0])
        k = g.choice([0.5, 1.0, 2.0, 1.0, 7.5])
        call = g.chance(0.7)
        costs = [g.choice([0.0, 1e-4, 1e-3, 1e-2, 5e-2])]
        for _i in range(g.choice([1, 2, 2])):
            costs.append(g.choice([c for c in [0.0, 0.0, 1e-4, 1e-3, 1e-2, 5e-2] if c != costs[-1]]))
        stock = BrownianStock(cost=costs[0], dtype=torch.float64)
        d = EuropeanOption(stock, call=call, strike=k)
        m = WhalleyWilmott(d, a=a)
        bs = BlackScholes(EuropeanOption(BrownianStock(dtype=torch.float64), call=call, strike=k))   # delta / gamma do not involve the cost
        for stage, cost in enumerate(costs):
            if stage > 0:
                stock.cost = cost
            old = costs[stage - 1] if stage > 0 else cost
            rows, wmod_rows = [], []
            for _j in range(3):
                s = g.r.uniform(-0.5, 0.5)
                t = g.choice([0.01, 0.1, 0.25, 1.0, 2.0, g.r.uniform(0.01, 3)])
                v = g.choice([0.1, 0.2, 0.5, g.r.uniform(0.05, 1.0)])
                x3 = torch.tensor([[s, t, v]], dtype=torch.float64)
                with torch.no_grad():
                    delta = float(bs(x3))
                    gam = float(bs.gamma(x3[..., [0]], x3[..., [1]], x3[..., [2]]))
                spot = k * math.exp(s)
                wdoc = (3 * cost * gam ** 2 * spot / (2 * a)) ** (1 / 3)
                wold = (3 * old * gam ** 2 * spot / (2 * a)) ** (1 / 3)
                where = g.choice(["in_current", "in_previous", "outside_both", "on_hi", "on_lo", "at_delta"])
                sgn = g.choice([-1, 1])
                prev = {"in_current": delta + sgn * wdoc * g.r.uniform(0.1, 0.9), "in_previous": delta + sgn * wold * g.r.uniform(0.1, 0.9),
                        "outside_both": delta + sgn * (max(wdoc, wold) + g.r.uniform(0.01, 1)), "on_hi": delta + wdoc, "on_lo": delta - wdoc,
                        "at_delta": delta}[where]
                rows.append([s, t, v, prev])
                st, o, mut = call_impl(m, torch.tensor([[s, t, v, prev]], dtype=torch.float64))
                st2, w, mut2 = call_impl(m.width, x3)
                case = {"cost": cost, "costs_so_far": costs[:stage + 1], "a": a, "k": k, "call": call, "row": [s, t, v, prev], "where": where}
                ctx.case(case, nontrivial=stage > 0, tag="ww:cost-changed" if stage > 0 else "ww:before-cost-change")
                ctx.stats[f"ww:cost-change={'none' if stage == 0 else ('to-zero' if cost == 0 else ('from-zero' if old == 0 else 'pos-to-pos'))}"] += 1
                ctx.traces += 1
                if mut or mut2:
                    ctx.mutated("WhalleyWilmott", mut or mut2, case)
                if st != "ok" or st2 != "ok":
                    ctx.fail("Whalley-Wilmott module raised when used again after the cost of its underlier changed", case,
                             key="WhalleyWilmott:cost-changed:error", detail=o if st != "ok" else w)
                    continue
                out, wid = float(o.detach()), float(w.detach())
                sfx = ":cost-changed" if stage > 0 else ""
                if abs(wid - wdoc) > 1e-7 * wdoc + 1e-12:
                    ctx.fail("WhalleyWilmott.width is not (3 c gamma^2 S / (2a))^(1/3) for the cost c the underlier has now", case,
                             key="WhalleyWilmott.width" + (sfx or ":value"), detail={"impl": wid, "width_doc": wdoc, "width_for_previous_cost": wold})
                lo_, hi_ = delta - wdoc, delta + wdoc
                exp = prev if lo_ <= prev <= hi_ else (hi_ if prev > hi_ else lo_)
                if abs(out - exp) > 1e-9 * (1 + abs(exp)) + 1e-7 * wdoc:
                    ctx.fail("Whalley-Wilmott hedge is not clamp(prev, delta -/+ (3 c gamma^2 S / (2a))^(1/3)) for the cost c the underlier has now", case,
                             key="WhalleyWilmott.forward:band" + sfx, detail={"impl": out, "expected": exp, "delta": delta, "width_doc": wdoc,
                                                                               "width_for_previous_cost": wold})
                if cost == 0 and abs(out - delta) > 1e-12:
                    ctx.fail("Whalley-Wilmott differs from the Black-Scholes delta although the cost of the underlier is zero now", case,
                             key="WhalleyWilmott.forward:zero-cost" + sfx, detail={"impl": out, "delta": delta})
                wwmeta.append((case, out))
                wmod_rows.append(([s, t, v, prev], case, out))
            wwreqs.append({"op": "ww_full", "cost": float_bits(cost), "a": float_bits(a), "k": float_bits(k), "call": call,
                           "elems": enc_flt(rows)})
            wmod_add("european", call, k, cost, a, [r_ for r_, _c, _o in wmod_rows], [(c_, o_, None) for _r, c_, o_ in wmod_rows])
    # ---------------- Whalley-Wilmott for every derivative a Black-Scholes module exists for -- also those with FIVE input features
    # (lookback, American binary: log_moneyness, max_log_moneyness, time_to_maturity, volatility, prev_hedge) and the European binary
    # (negative gamma past the strike) -- through forward() on the concatenated input, several rows at once, with the previous hedge
    # placed relative to the band (in particular different from every other column).  Oracle: delta and gamma of an independent
    # Black-Scholes module called with NAMED arguments, the documented half-width, the band rule row by row.
    from pfhedge.instruments import EuropeanBinaryOption, LookbackOption, AmericanBinaryOption
    from pfhedge.nn import Hedger
    WW_KINDS = {"european": EuropeanOption, "european_binary": EuropeanBinaryOption, "lookback": LookbackOption,
                "american_binary": AmericanBinaryOption}

    def ww_derivative(kind, stock, k, call, **kw):
        return WW_KINDS[kind](stock, strike=k, **kw) if kind in ("lookback", "american_binary") else WW_KINDS[kind](stock, call=call, strike=k, **kw)

    def ww_state(kind):
        """one state (log_moneyness, max_log_moneyness, time_to_maturity, volatility) of the derivative, by name"""
        s = g.r.uniform(-0.5, 0.5)
        t = g.choice([0.01, 0.1, 0.25, 1.0, 2.0, g.r.uniform(0.01, 3)])
        v = g.choice([0.1, 0.2, 0.5, g.r.uniform(0.05, 1.0)])
        mx = None
        if kind == "lookback":
            mx = s + g.choice([0.0, g.r.uniform(0, 0.3), g.r.uniform(0, 0.05)])         # the running maximum is never below the spot
        elif kind == "american_binary":
            s = -abs(s) - 0.005                                                          # not yet hit ...
            mx = g.choice([s, s * g.r.random(), s * g.r.random(), g.r.uniform(0, 0.1)])   # ... except in the last form (max >= strike)
        return {"log_moneyness": s, "max_log_moneyness": mx, "time_to_maturity": t, "volatility": v}

    ww_rat_elems, ww_rat_meta = [], []
    for _ in range(70 if ctx.tier == "quick" else 900):
        kind = g.weighted([("lookback", 3), ("american_binary", 3), ("european_binary", 2), ("european", 1)])
        cost = g.choice([0.0, 1e-4, 1e-3, 1e-2, 5e-2])
        a = g.choice([0.25, 1.0, 3.0, 1.0])
        k = g.choice([0.5, 1.0, 2.0, 1.0, 7.5])
        call = g.chance(0.7) if kind in ("european", "european_binary") else True
        d = ww_derivative(kind, BrownianStock(cost=cost, dtype=torch.float64), k, call)
        m = WhalleyWilmott(d, a=a)
        ref = BlackScholes(ww_derivative(kind, BrownianStock(dtype=torch.float64), k, call))       # delta / gamma do not involve the cost
        names = m.inputs()
        n_rows = g.choice([1, 3, 6])
        states = [ww_state(kind) for _i in range(n_rows)]
        col = lambda name: torch.tensor([[st_[name]] for st_ in states], dtype=torch.float64)          # (N, 1)
        base = {"kind": kind, "inputs": names, "cost": cost, "a": a, "k": k, "call": call}
        st0, dg, _m = call_impl(lambda: (ref.delta(**{nm: col(nm) for nm in names[:-1]}).detach(),
                                         ref.gamma(**{nm: col(nm) for nm in names[:-1]}).detach(),
                                         m.width(torch.cat([col(nm) for nm in names[:-1]], dim=-1)).detach()))
        if st0 != "ok":
            ctx.fail("Black-Scholes delta / gamma or WhalleyWilmott.width raised on an ordinary state", base | {"states": states},
                     key=f"WhalleyWilmott:{kind}:error", detail=dg)
            continue
        deltas, gammas, widths = ([float(z) for z in t_.reshape(-1).tolist()] for t_ in dg)
        rows, wheres = [], []
        for st_, delta, width in zip(states, deltas, widths):
            where = g.choice(["inside", "above", "below", "on_hi", "on_lo", "at_delta", "far"])
            width_ = width if math.isfinite(width) else 0.0
            prev = {"inside": delta + 0.5 * width_ * g.r.uniform(-1, 1), "above": delta + width_ + g.r.uniform(0.01, 1),
                    "below": delta - width_ - g.r.uniform(0.01, 1), "on_hi": delta + width_, "on_lo": delta - width_,
                    "at_delta": delta, "far": g.r.uniform(-3, 3)}[where]
            rows.append([st_[nm] for nm in names[:-1]] + [prev])
            wheres.append(where)
        shape = g.choice(["(N,F)", "(N,F)", "(N,1,F)", "(1,N,F)"])
        x = torch.tensor(rows, dtype=torch.float64)
        x = x if shape == "(N,F)" else (x.unsqueeze(1) if shape == "(N,1,F)" else x.unsqueeze(0))
        st, o, mut = call_impl(m, x)
        if mut:
            ctx.mutated("WhalleyWilmott", mut, base | {"rows": rows})
        if st != "ok" or tuple(o.shape) != tuple(x.shape[:-1]) + (1,):
            ctx.fail("WhalleyWilmott.forward raised / returned a wrong shape on the concatenated input features of its derivative",
                     base | {"rows": rows, "input_shape": list(x.shape)}, key=f"WhalleyWilmott:{kind}:error", detail=o if st != "ok" else list(o.shape))
            continue
        outs = [float(z) for z in o.detach().reshape(-1).tolist()]
        all_rows_ok = True
        # the module as a whole against its model (op "ww_module"): every row of the input, whatever its shape was.  The autograd-based
        # quantities (lookback delta / gamma, American binary gamma) are derivatives on both sides: the tolerance of the band oracle below
        fin = [math.isfinite(delta) and math.isfinite(gam) and math.isfinite(out) for delta, gam, out in zip(deltas, gammas, outs)]
        wmod_add(kind, call, k, cost, a, [row for row, f_ in zip(rows, fin) if f_],
                 [(base | {"row": row, "where": where, "input_shape": shape}, out,
                   None if kind in ("european", "european_binary") else 1e-9 * (1 + abs(out)) + 1e-7 * (abs(wid) if math.isfinite(wid) else 0.0))
                  for row, where, wid, out, f_ in zip(rows, wheres, widths, outs, fin) if f_])
        for row, where, delta, gam, wid, out in zip(rows, wheres, deltas, gammas, widths, outs):
            case = base | {"row": row, "where": where, "input_shape": shape}
            ctx.case(case, nontrivial=cost > 0, tag="ww:" + kind)
            ctx.stats[f"ww:{len(names)} input features:where={where}"] += 1
            ctx.traces += 1
            if not (math.isfinite(delta) and math.isfinite(gam)):
                ctx.stats["ww: Black-Scholes delta / gamma not finite (skipped; C18 matter)"] += 1
                all_rows_ok = False
                continue
            prev, s_ = row[-1], row[0]
            spot = k * math.exp(s_)
            wdoc = (3 * cost * gam ** 2 * spot / (2 * a)) ** (1 / 3)
            if abs(wid - wdoc) > 1e-7 * wdoc + 1e-12:
                ctx.fail("WhalleyWilmott.width is not (3 c gamma^2 S / (2a))^(1/3)", case, key=f"WhalleyWilmott.width:{kind}",
                         detail={"impl": wid, "width_doc": wdoc, "gamma": gam})
            lo_, hi_ = delta - wdoc, delta + wdoc
            exp = prev if lo_ <= prev <= hi_ else (hi_ if prev > hi_ else lo_)
            if not abs(out - exp) <= 1e-9 * (1 + abs(exp)) + 1e-7 * wdoc:
                ctx.fail("Whalley-Wilmott hedge is not clamp(prev, delta -/+ (3 c gamma^2 S / (2a))^(1/3)) for a derivative with "
                         f"{len(names)} input features", case, key=f"WhalleyWilmott.forward:band:{kind}",
                         detail={"impl": out, "expected": exp, "prev_hedge": prev, "delta": delta, "gamma": gam, "width_doc": wdoc})
            if cost == 0 and not abs(out - delta) <= 1e-12:
                ctx.fail("Whalley-Wilmott with zero cost differs from the Black-Scholes delta", case,
                         key=f"WhalleyWilmott.forward:zero-cost:{kind}", detail={"impl": out, "delta": delta})
            # correspondence: the half-width (model op ww_width on the real gamma) and the band logic (exact model op ww on the real delta / width)
            wreq_elems.append([gam, spot, cost, a])
            wmeta.append(wid)
            if math.isfinite(wid):
                ww_rat_elems.append([F(prev), F(delta), F(wid)])
                ww_rat_meta.append((case, out, 1e-15 * (1 + abs(delta) + abs(wid))))
        if kind == "european" and all_rows_ok:
            for row, where, out in zip(rows, wheres, outs):
                wwmeta.append((base | {"row": row, "where": where}, out))
            wwreqs.append({"op": "ww_full", "cost": float_bits(cost), "a": float_bits(a), "k": float_bits(k), "call": call, "elems": enc_flt(rows)})
    # ---------------- ... and through a Hedger on simulated paths: the hedge at every step is the previous hedge (0 before the first step)
    # clamped to the band of that step's state (features of the derivative, named), for all four derivatives
    for _ in range(24 if ctx.tier == "quick" else 300):
        kind = g.weighted([("lookback", 3), ("american_binary", 3), ("european_binary", 1), ("european", 1)])
        cost = g.choice([1e-4, 1e-3, 1e-2, 0.0])
        a = g.choice([0.25, 1.0, 3.0])
        k = g.choice([1.02, 1.05, 1.1]) if kind == "american_binary" else g.choice([0.9, 1.0, 1.0, 1.1])
        call = g.chance(0.7) if kind in ("european", "european_binary") else True
        sigma = g.choice([0.2, 0.4, 0.8])
        n_steps, dt_, n_paths, seed = g.randint(3, 8), g.choice([1 / 250, 1 / 50, 1 / 12]), g.randint(2, 4), g.randint(0, 2 ** 31 - 1)
        stock = BrownianStock(sigma=sigma, cost=cost, dt=dt_, dtype=torch.float64)
        d = ww_derivative(kind, stock, k, call, maturity=n_steps * dt_)
        m = WhalleyWilmott(d, a=a)
        ref = BlackScholes(ww_derivative(kind, BrownianStock(dtype=torch.float64), k, call))
        names = m.inputs()
        case = {"kind": kind, "inputs": names, "cost": cost, "a": a, "k": k, "call": call, "sigma": sigma, "n_steps": n_steps, "dt": dt_,
                "n_paths": n_paths, "torch_seed": seed}
        torch.manual_seed(seed)
        d.simulate(n_paths=n_paths)
        st, hedge, mut = call_impl(Hedger(m, inputs=names).compute_hedge, d)
        ctx.case(case, nontrivial=cost > 0, tag="ww:hedger:" + kind)
        ctx.traces += 1
        if mut:
            ctx.mutated("Hedger(WhalleyWilmott).compute_hedge", mut, case)
        if st != "ok" or hedge.dim() != 3 or tuple(hedge.shape[:2]) != (n_paths, 1):
            ctx.fail("Hedger(WhalleyWilmott(derivative)).compute_hedge raised / returned a wrong shape", case, key=f"WhalleyWilmott:hedger:{kind}:error",
                     detail=hedge if st != "ok" else list(hedge.shape))
            continue
        hedge = hedge.detach()
        found = False
        step_rows, step_meta = [], []
        for ts in range(hedge.size(-1) - 1):
            feats = {"log_moneyness": d.log_moneyness(ts), "time_to_maturity": d.time_to_maturity(ts), "volatility": stock.volatility[:, [ts]]}
            if "max_log_moneyness" in names:
                feats["max_log_moneyness"] = d.max_log_moneyness(ts)
            kw = {nm: feats[nm].detach().clone() for nm in names[:-1]}
            delta, gam = ref.delta(**kw).detach(), ref.gamma(**kw).detach()
            prev = hedge[:, 0, [ts - 1]] if ts else torch.zeros_like(delta)
            wdoc = (3 * cost * gam.square() * (k * feats["log_moneyness"].exp()) / (2 * a)) ** (1 / 3)
            exp = torch.where(prev < delta - wdoc, delta - wdoc, torch.where(prev > delta + wdoc, delta + wdoc, prev))
            okay = (delta.isfinite() & gam.isfinite())
            bad = okay & ~((hedge[:, 0, [ts]] - exp).abs() <= 1e-9 * (1 + exp.abs()) + 1e-7 * wdoc)
            ctx.stats["ww:hedger:steps"] += int(okay.sum())
            # the module against its model at every step of every path: the row the hedger hands to the module is (features of the step,
            # hedge of the step before -- zero before the first step); its output is the hedge of the step
            for i in range(n_paths):
                row = [float(kw[nm][i, 0]) for nm in names[:-1]] + [float(prev[i, 0])]
                out_ = float(hedge[i, 0, ts])
                if not (bool(okay[i, 0]) and math.isfinite(out_)):
                    continue
                step_rows.append(row)
                step_meta.append((case | {"path": i, "step": ts, "row": row}, out_,
                                  None if kind in ("european", "european_binary") else
                                  1e-9 * (1 + abs(out_)) + 1e-7 * (abs(float(wdoc[i, 0])) if math.isfinite(float(wdoc[i, 0])) else 0.0)))
            ctx.stats["ww:hedger:previous hedge kept"] += int((okay & (exp == prev)).sum())
            if bool(bad.any()) and not found:
                i = int(bad.nonzero()[0][0])
                found = True
                ctx.fail("the hedge of a Hedger with the Whalley-Wilmott strategy is not the previous hedge clamped to delta -/+ (3 c gamma^2 S / (2a))^(1/3) "
                         "at some step", case, key=f"WhalleyWilmott:hedger:{kind}:band",
                         detail={"path": i, "step": ts, "impl": float(hedge[i, 0, ts]), "expected": float(exp[i, 0]), "prev_hedge": float(prev[i, 0]),
                                 "delta": float(delta[i, 0]), "gamma": float(gam[i, 0]), "width_doc": float(wdoc[i, 0]),
                                 "state": {nm: float(kw[nm][i, 0]) for nm in names[:-1]}})
        wmod_add(kind, call, k, cost, a, step_rows, step_meta)
    # ---------------- the band INFINITELY wide.  Exactly at the money (log-moneyness 0) at maturity or at zero volatility the Black-Scholes gamma
    # of a European option is +inf, so with a positive cost the half-width is +inf and the band is the whole line: the strategy KEEPS the
    # previous hedge, whatever it is (never NaN); with zero cost there is no band and the hedge is the at-the-money delta limit +-1/2.  Next
    # to them: bands that are finite but astronomically wide (time to maturity / volatility 1e-300: the previous hedge is kept), states off the
    # strike at maturity (gamma 0: the band collapses onto the delta 0 / 1), ordinary rows in the same input tensor.  All rows go to the
    # model of the module (op "ww_module", forward and width: IEEE infinities are native on the Float carrier; compared NaN-aware), to
    # op "ww_full" and the half-widths to op "ww_width" (gamma = inf).
    inf_corpus = [(1e-3, 1.0, 1.0, True, "float64"), (5e-4, 2.5, 1.3, False, "float64"), (1e-2, 0.25, 0.8, True, "float32"), (0.0, 1.0, 1.0, True, "float64")]
    for it_ in range(len(inf_corpus) + (50 if ctx.tier == "quick" else 700)):
        cost = g.choice([1e-4, 1e-3, 1e-2, 5e-2, 1e-3, 0.0])
        a = g.choice([0.25, 1.0, 3.0, 1.0])
        k = g.choice([0.5, 1.0, 2.0, 1.0, 7.5, 1.3])
        call = g.chance(0.6)
        dtn = g.weighted([("float64", 3), ("float32", 1)])
        if it_ < len(inf_corpus):
            cost, a, k, call, dtn = inf_corpus[it_]
        dt_ = getattr(torch, dtn)
        d = EuropeanOption(BrownianStock(cost=cost, dtype=dt_), call=call, strike=k)
        m = WhalleyWilmott(d, a=a)
        ref = BlackScholes(EuropeanOption(BrownianStock(dtype=dt_), call=call, strike=k))
        n_rows = 6 if it_ < len(inf_corpus) else g.choice([1, 2, 4, 6])
        rows, kinds_ = [], []
        for i_ in range(n_rows):
            rk = g.weighted([("inf_t0", 3), ("inf_v0", 3), ("inf_both", 2), ("huge", 2), ("off_strike_t0", 1), ("ordinary", 2)])
            if it_ < len(inf_corpus):
                rk = ["inf_t0", "inf_v0", "inf_both", "huge", "off_strike_t0", "ordinary"][i_]
            t = g.choice([1 / 250, 0.1, 1.0, 2.0])
            v = g.choice([0.05, 0.2, 0.6])
            s = 0.0
            if rk == "inf_t0":
                t = 0.0
            elif rk == "inf_v0":
                v = 0.0
            elif rk == "inf_both":
                t = v = 0.0
            elif rk == "huge":
                if g.chance(0.5):
                    t = 1e-300 if dtn == "float64" else 1e-30
                else:
                    v = 1e-300 if dtn == "float64" else 1e-30
            elif rk == "off_strike_t0":
                s = g.choice([-0.2, -0.03, 0.01, 0.15, 1e-12 if dtn == "float64" else 1e-6])
                if g.chance(0.5):
                    t = 0.0
                else:
                    v = 0.0
            else:
                s = g.r.uniform(-0.5, 0.5)
            prev = g.choice([0.0, 0.37, 0.5, -0.3, 1.0, 1.4, 5.0, -1e6, g.r.uniform(-3, 3)])
            if rk.startswith("inf") and g.chance(0.15):
                prev = g.choice([1e300, -1e300]) if dtn == "float64" else g.choice([1e30, -1e30])
            rows.append([s, t, v, prev])
            kinds_.append(rk)
        shape = g.choice(["(N,F)", "(N,F)", "(N,1,F)", "(1,N,F)"])
        x = torch.tensor(rows, dtype=dt_)
        rows = [[float(z) for z in r_] for r_ in x.tolist()]                       # the numbers of the dtype
        x = x if shape == "(N,F)" else (x.unsqueeze(1) if shape == "(N,1,F)" else x.unsqueeze(0))
        base = {"kind": "european", "cost": cost, "a": a, "k": k, "call": call, "dtype": dtn, "input_shape": shape}
        st, o, mut = call_impl(m, x)
        st2, w_, mut2 = call_impl(m.width, x[..., :-1])
        if mut or mut2:
            ctx.mutated("WhalleyWilmott", mut or mut2, base | {"rows": rows})
        if st != "ok" or st2 != "ok" or tuple(o.shape) != tuple(x.shape[:-1]) + (1,) or tuple(w_.shape) != tuple(x.shape[:-1]) + (1,):
            ctx.fail("WhalleyWilmott.forward / width raised or returned a wrong shape on rows where the band is infinitely wide / degenerate",
                     base | {"rows": rows}, key="WhalleyWilmott:infinite-band:error", detail=[str(o)[:100], str(w_)[:100]])
            continue
        outs = [float(z) for z in o.detach().reshape(-1).tolist()]
        wids = [float(z) for z in w_.detach().reshape(-1).tolist()]
        lim = 0.5 if call else -0.5
        metas_f, metas_w = [], []
        for row, rk, out, wid in zip(rows, kinds_, outs, wids):
            s, t, v, prev = row
            case = base | {"row": row, "row_kind": rk}
            ctx.case(case, nontrivial=cost > 0, tag="ww:infinite-band" if rk.startswith("inf") else "ww:edge:" + rk)
            ctx.stats[f"ww:edge:{rk}:cost>0={cost > 0}"] += 1
            ctx.traces += 1
            metas_f.append((case, out, None))
            metas_w.append((case | {"what": "width"}, wid, None))
            if rk.startswith("inf"):
                wreq_elems.append([math.inf, k, cost, a])          # spot = k exp(0)
                wmeta.append(wid)
                if cost > 0:
                    if wid != math.inf:
                        ctx.fail("WhalleyWilmott.width is not +inf where the gamma is infinite (at the money at maturity / zero volatility) and the cost positive",
                                 case, key="WhalleyWilmott.width:infinite-band", detail={"impl": wid})
                    if not out == prev:
                        ctx.fail("Whalley-Wilmott does not keep the previous hedge where the no-transaction band is infinitely wide (gamma = inf: at the money "
                                 "at maturity or at zero volatility, cost > 0)", case, key="WhalleyWilmott.forward:infinite-band",
                                 detail={"impl": out, "expected": prev, "width": wid})
                else:
                    if wid != 0.0 or not out == lim:
                        ctx.fail("Whalley-Wilmott with zero cost is not the Black-Scholes delta (at the money at maturity / zero volatility: +-1/2) "
                                 "where the gamma is infinite", case, key="WhalleyWilmott.forward:zero-cost:infinite-gamma",
                                 detail={"impl": out, "expected": lim, "width": wid})
                continue
            if rk == "off_strike_t0":
                # no randomness left and off the strike: delta 1 / 0 (put: 0 / -1), gamma 0, the band is the point delta
                exp = (1.0 if s > 0 else 0.0) if call else (0.0 if s > 0 else -1.0)
                if wid != 0.0 or not out == exp:
                    ctx.fail("Whalley-Wilmott at maturity / zero volatility off the strike is not the limiting Black-Scholes delta (band of width 0)", case,
                             key="WhalleyWilmott.forward:degenerate-band", detail={"impl": out, "expected": exp, "width": wid})
                continue
            # huge / ordinary: the band oracle from the delta and gamma of an independent Black-Scholes module (named arguments)
            kw = {"log_moneyness": torch.tensor([[s]], dtype=dt_), "time_to_maturity": torch.tensor([[t]], dtype=dt_), "volatility": torch.tensor([[v]], dtype=dt_)}
            with torch.no_grad():
                delta, gam = float(ref.delta(**kw)), float(ref.gamma(**kw))
            if not (math.isfinite(delta) and math.isfinite(gam)):
                ctx.stats["ww: Black-Scholes delta / gamma not finite (skipped; C18 matter)"] += 1
                continue
            g2 = gam * gam                      # may overflow to inf, as in the code (float32: beyond 3.4e38)
            if dtn == "float32" and g2 > 3.0e38:
                g2 = math.inf
            wdoc = (3 * cost * g2 * (k * math.exp(s)) / (2 * a)) ** (1 / 3) if cost > 0 else 0.0
            rel = 1e-7 if dtn == "float64" else 1e-3
            if math.isinf(wdoc):
                if wid != wdoc or not out == prev:
                    ctx.fail("Whalley-Wilmott does not keep the previous hedge where gamma^2 overflows (the band is the whole line)", case,
                             key="WhalleyWilmott.forward:huge-band", detail={"impl": out, "expected": prev, "width": wid})
                continue
            if not abs(wid - wdoc) <= rel * wdoc + 1e-12:
                ctx.fail("WhalleyWilmott.width is not (3 c gamma^2 S / (2a))^(1/3)", case, key="WhalleyWilmott.width:european:edge",
                         detail={"impl": wid, "width_doc": wdoc, "gamma": gam})
            lo_, hi_ = delta - wdoc, delta + wdoc
            exp = prev if lo_ <= prev <= hi_ else (hi_ if prev > hi_ else lo_)
            if rk == "huge" and cost > 0 and lo_ * (1 - rel) < prev < hi_ * (1 - rel) and not out == prev:
                ctx.fail("Whalley-Wilmott does not keep the previous hedge inside an astronomically wide (finite) band", case,
                         key="WhalleyWilmott.forward:huge-band", detail={"impl": out, "expected": prev, "width": wid})
            elif not abs(out - exp) <= (1e-9 if dtn == "float64" else 1e-5) * (1 + abs(exp)) + rel * wdoc:
                ctx.fail("Whalley-Wilmott hedge is not clamp(prev, delta -/+ (3 c gamma^2 S / (2a))^(1/3))", case, key="WhalleyWilmott.forward:band:edge-rows",
                         detail={"impl": out, "expected": exp, "delta": delta, "width_doc": wdoc})
        if dtn == "float64":
            wmod_add("european", call, k, cost, a, rows, metas_f)
            wmod_add("european", call, k, cost, a, [r_[:-1] for r_ in rows], metas_w, what="width")
            for (case, out, _t) in metas_f:
                wwmeta.append((case, out))
            wwreqs.append({"op": "ww_full", "cost": float_bits(cost), "a": float_bits(a), "k": float_bits(k), "call": call, "elems": enc_flt(rows)})
    # ... and through a Hedger: (a) a zero-volatility market resting exactly on the strike (BrownianStock(sigma=0), init_state=(strike,)): every
    # step is at the money with zero volatility -- infinite band with a cost (the hedge stays at its initial 0), +-1/2 without; (b) a market with
    # injected buffers (HestonStock: spot and variance given) that visits the strike with zero variance at some steps after ordinary steps: there
    # the hedge of the step before is kept, elsewhere the band rule holds.  Every (path, step) row also goes to the model of the module.
    from pfhedge.instruments import HestonStock
    for it_ in range(16 if ctx.tier == "quick" else 200):
        mode = "resting" if it_ % 2 == 0 else "visits"
        cost = g.choice([1e-4, 1e-3, 1e-2, 1e-3, 0.0])
        a = g.choice([0.25, 1.0, 3.0])
        k = g.choice([1.0, 0.9, 1.1, 2.0, 1.03])
        call = g.chance(0.6)
        n_steps, dtv, n_paths = g.randint(2, 6), g.choice([1 / 250, 1 / 50, 1 / 12]), g.randint(1, 3)
        if mode == "resting":
            stock = BrownianStock(sigma=0.0, cost=cost, dt=dtv, dtype=torch.float64)
            d = EuropeanOption(stock, call=call, strike=k, maturity=n_steps * dtv)
            d.simulate(n_paths=n_paths, init_state=(k,))
        else:
            stock = HestonStock(cost=cost, dt=dtv, dtype=torch.float64)
            d = EuropeanOption(stock, call=call, strike=k, maturity=n_steps * dtv)
            spot_, var_ = [], []
            for _p in range(n_paths):
                on = [g.chance(0.5) for _j in range(n_steps + 1)]
                on[0] = False                                           # an ordinary first step: the hedge carried into the band is not the initial 0
                if not any(on[1:n_steps]):
                    on[g.randint(1, n_steps - 1) if n_steps > 1 else 0] = n_steps > 1
                spot_.append([k if o_ else k * g.choice([0.8, 0.95, 1.05, 1.25]) for o_ in on])
                var_.append([0.0 if o_ else g.choice([0.01, 0.04, 0.25, 0.0]) for o_ in on])
            stock.register_buffer("spot", torch.tensor(spot_, dtype=torch.float64))
            stock.register_buffer("variance", torch.tensor(var_, dtype=torch.float64))
        m = WhalleyWilmott(d, a=a)
        ref = BlackScholes(EuropeanOption(BrownianStock(dtype=torch.float64), call=call, strike=k))
        names = m.inputs()
        case = {"kind": "european", "market": mode, "cost": cost, "a": a, "k": k, "call": call, "dt": dtv, "spot": stock.spot.tolist(),
                "volatility": stock.volatility.tolist()}
        st, hedge, mut = call_impl(Hedger(m, inputs=names).compute_hedge, d)
        ctx.case(case, nontrivial=cost > 0, tag="ww:hedger:infinite-band:" + mode)
        ctx.traces += 1
        if mut:
            ctx.mutated("Hedger(WhalleyWilmott).compute_hedge", mut, case)
        if st != "ok" or hedge.dim() != 3 or tuple(hedge.shape) != (n_paths, 1, n_steps + 1):
            ctx.fail("Hedger(WhalleyWilmott(derivative)).compute_hedge raised / returned a wrong shape on a market that sits on the strike with zero volatility",
                     case, key="WhalleyWilmott:hedger:infinite-band:error", detail=hedge if st != "ok" else list(hedge.shape))
            continue
        hedge = hedge.detach()
        step_rows, step_meta, found = [], [], False
        for ts in range(n_steps):
            for i in range(n_paths):
                s_, t_, v_ = float(d.log_moneyness(ts)[i, 0]), float(d.time_to_maturity(ts)[i, 0]), float(stock.volatility[i, ts])
                prev = float(hedge[i, 0, ts - 1]) if ts else 0.0
                out = float(hedge[i, 0, ts])
                row = [s_, t_, v_, prev]
                at = case | {"path": i, "step": ts, "row": row}
                infinite = s_ == 0.0 and (v_ == 0.0 or t_ == 0.0)
                ctx.stats[f"ww:hedger:infinite-band:steps:{'infinite' if infinite else 'other'}"] += 1
                if infinite:
                    exp = prev if cost > 0 else (0.5 if call else -0.5)
                    if not out == exp and not found:
                        found = True
                        ctx.fail("the hedge of a Hedger with the Whalley-Wilmott strategy is not the hedge of the step before where the band is infinitely wide "
                                 "(spot on the strike, zero volatility, cost > 0)" if cost > 0 else "the hedge of a Hedger with the Whalley-Wilmott strategy and zero "
                                 "cost is not the at-the-money delta limit +-1/2 on the strike at zero volatility", at,
                                 key="WhalleyWilmott:hedger:infinite-band" if cost > 0 else "WhalleyWilmott:hedger:zero-cost:infinite-gamma",
                                 detail={"impl": out, "expected": exp, "hedge[path]": hedge[i, 0].tolist()})
                else:
                    kw = {"log_moneyness": torch.tensor([[s_]], dtype=torch.float64), "time_to_maturity": torch.tensor([[t_]], dtype=torch.float64),
                          "volatility": torch.tensor([[v_]], dtype=torch.float64)}
                    with torch.no_grad():
                        delta, gam = float(ref.delta(**kw)), float(ref.gamma(**kw))
                    if not (math.isfinite(delta) and math.isfinite(gam)):
                        continue
                    wdoc = (3 * cost * gam ** 2 * (k * math.exp(s_)) / (2 * a)) ** (1 / 3) if cost > 0 else 0.0
                    exp = prev if delta - wdoc <= prev <= delta + wdoc else (delta + wdoc if prev > delta + wdoc else delta - wdoc)
                    if not abs(out - exp) <= 1e-9 * (1 + abs(exp)) + 1e-7 * wdoc and not found:
                        found = True
                        ctx.fail("the hedge of a Hedger with the Whalley-Wilmott strategy is not the previous hedge clamped to delta -/+ (3 c gamma^2 S / (2a))^(1/3) "
                                 "at some step", at, key="WhalleyWilmott:hedger:european:band:zero-volatility-market",
                                 detail={"impl": out, "expected": exp, "delta": delta, "gamma": gam, "width_doc": wdoc})
                if math.isfinite(prev):
                    step_rows.append(row)
                    step_meta.append((at, out, None))
        wmod_add("european", call, k, cost, a, step_rows, step_meta)
    # ---------------- rows of a wrong length and inputs(): the model of the module says what the real module does with them (too many columns:
    # TypeError of the positional call; an empty row: IndexError; too few: the missing parameters are looked up in the derivative, which has not
    # been simulated here: AttributeError) -- error kinds and, for the full length, values (time to maturity / volatility of any sign)
    inputs_reqs, inputs_meta = [], []
    for kind in WW_KINDS:
        d = ww_derivative(kind, BrownianStock(dtype=torch.float64), 1.0, True)
        inputs_reqs.append({"op": "ww_module", "what": "inputs", "kind": kind})
        inputs_meta.append((kind, list(WhalleyWilmott(d).inputs())))
    for _ in range(12 if ctx.tier == "quick" else 120):
        kind = g.choice(list(WW_KINDS))
        cost, a, k = g.choice([0.0, 1e-3, 1e-2]), g.choice([0.25, 1.0, 3.0]), g.choice([0.5, 1.0, 2.0])
        call = g.chance(0.7) if kind in ("european", "european_binary") else True
        m = WhalleyWilmott(ww_derivative(kind, BrownianStock(cost=cost, dtype=torch.float64), k, call), a=a)
        n_in = len(m.inputs())
        rows_, metas_ = [], []
        for L in list(range(0, n_in + 3)) + [n_in, n_in]:
            row = [g.choice([g.r.uniform(-0.5, 0.5), g.r.uniform(0.05, 1.0), g.r.uniform(0.05, 1.0), -g.r.uniform(0.05, 1.0)]) for _i in range(L)]
            st, o, mut = call_impl(m, torch.tensor([row], dtype=torch.float64))
            case = {"kind": kind, "inputs": m.inputs(), "cost": cost, "a": a, "k": k, "call": call, "row": row, "row_length": L}
            ctx.case(case, nontrivial=L != n_in, tag="ww:row-length")
            ctx.stats[f"ww:row-length:{'full' if L == n_in else ('short' if L < n_in else 'long')}:{st if st != 'ok' else 'ok'}"] += 1
            ctx.traces += 1
            if mut:
                ctx.mutated("WhalleyWilmott", mut, case)
            if st == "ok" and not math.isfinite(float(o.detach().reshape(-1)[0])):
                continue
            rows_.append(row)
            metas_.append((case, float(o.detach().reshape(-1)[0]) if st == "ok" else ("err", o),
                           None if kind in ("european", "european_binary") else 1e-9 * (1 + abs(float(o.detach().reshape(-1)[0]))) + 1e-7 if st == "ok" else None))
        wmod_add(kind, call, k, cost, a, rows_, metas_)
    # ---------------- tensor-valued dt: 0-dim, one interval per path (shape (N,) for input (N,T), (N,M) for input (N,M,T)), incl. the
    # coincidence "last batch dimension == T-1"; oracle: sigma^2 = 1/(T-1) sum_i (1/dt) log(S_{i+1}/S_i)^2 path by path
    for _ in range(120 if ctx.tier == "quick" else 1500):
        T = g.small((2, 3, 4, 5, 8, 20))
        layout = g.choice(["(T,)/0-dim", "(N,T)/0-dim", "(N,T)/(N,)", "(N,T)/(N,)", "(N,M,T)/0-dim", "(N,M,T)/(N,M)", "(N,M,T)/(N,M)"])
        N = 1 if layout.startswith("(T,)") else g.choice([max(T - 1, 1), max(T - 1, 1), 1, 2, 3, 5, T])
        M = g.choice([max(T - 1, 1), max(T - 1, 1), 1, 2, 3]) if layout.startswith("(N,M,T)") else 1
        fn_name = g.choice(["realized_volatility", "realized_variance"])
        paths = [[math.exp(g.r.uniform(-0.3, 0.3)) for _t in range(T)] for _p in range(N * M)]      # row-major over (N, M)
        if layout.endswith("0-dim"):
            dts = [g.choice([1 / 250, 0.1, 1 / 12, g.r.uniform(0.001, 1.0)])] * (N * M)
            dt_t = torch.tensor(dts[0], dtype=torch.float64)
        else:
            dts = [g.choice([1 / 250, 0.1, 1 / 12, 1.0, g.r.uniform(0.001, 1.0)]) for _p in range(N * M)]
            dt_t = torch.tensor(dts, dtype=torch.float64).reshape((N,) if layout.startswith("(N,T)") else (N, M))
        shape = {"(T,)": (T,), "(N,T)": (N, T), "(N,M,T)": (N, M, T)}[layout.split("/")[0]]
        x = torch.tensor(paths, dtype=torch.float64).reshape(shape)
        case = {"fn": fn_name, "layout": layout, "input_shape": list(shape), "dt_shape": list(dt_t.shape), "paths": paths, "dt": dts}
        ctx.case(case, True, tag="realized:tensor-dt")
        ctx.stats[f"realized:layout={layout}"] += 1
        ctx.stats[f"realized:last-batch-dim==T-1={len(shape) > 1 and shape[-2] == T - 1}"] += 1
        ctx.traces += 1
        st, v, mut = call_impl(getattr(fnl, fn_name), x, dt_t)
        if mut:
            ctx.mutated(fn_name, mut, case)
        if st != "ok" or tuple(v.shape) != tuple(shape[:-1]):
            ctx.fail(f"{fn_name} raises / returns a wrong shape for a tensor dt with one interval per path (shape of the output)", case,
                     key=f"{fn_name}:tensor-dt:error", detail=v if st != "ok" else list(v.shape))
            continue
        got = [float(z) for z in v.reshape(-1).tolist()]
        for pi, (path, dt_, gv) in enumerate(zip(paths, dts, got)):
            lr = [math.log(path[i + 1]) - math.log(path[i]) for i in range(T - 1)]
            exp = sum(z * z / dt_ for z in lr) / len(lr)
            exp = math.sqrt(exp) if fn_name == "realized_volatility" else exp
            if not close(gv, exp):
                ctx.fail(f"{fn_name} with a tensor dt differs from the documented formula with the interval of that path", case,
                         key=f"{fn_name}:tensor-dt:value", detail={"path_index": pi, "impl": gv, "expected": exp, "dt_of_path": dt_})
                break
        if fn_name == "realized_volatility":
            pi = g.randint(0, N * M - 1)
            rv_reqs.append({"op": "var_swap", "dt": float_bits(dts[pi]), "strike": float_bits(0.0), "paths": enc_flt([paths[pi]])})
            rv_meta.append(got[pi])
    # ---------------- BROADCASTING and OWNERSHIP of the result, for every helper of the file.  The inputs are broadcastable tensors of DIFFERENT
    # shapes (lower-rank, singleton dimensions, 0-dim, 3-D / 4-D non-square), some of them non-contiguous (transposed strides), expanded (stride 0)
    # or with requires_grad=True; scalar parameters / weights come as Python floats, Python INTS (0 / 1 / ...), 0-dim tensors and tensors of a shape
    # of their own, with the values exactly 0 and 1 (corners / edges of the interpolation cell, zero cost, unit slope ...) next to interior ones.
    # Predicates: (1) the result has the broadcast shape of all tensor arguments, (2) every element is the documented formula of the broadcast
    # elements, (3) the result is a tensor of its own: it shares no storage with an argument, writing into it in place leaves every argument
    # unchanged and a second call returns the same values.  (3) is not demanded where the unchanged code documents the identity without bounds
    # (clamp / leaky_clamp / the modules with neither min nor max return their input).  The elements also go to the model ops.
    from pfhedge.nn import Clamp as ClampMod, LeakyClamp as LeakyClampMod
    FULL_SHAPES = [(4, 3), (4, 3), (2, 4, 3), (5, 1), (1, 3), (3,), (2, 1, 3, 2), (3, 1, 2)]

    def sub_shape(full, keep=0.6):
        s = [d_ if g.chance(keep) else 1 for d_ in full]
        while s and s[0] == 1 and g.chance(0.5):
            s = s[1:]
        return tuple(s)

    def make(shape, dt_, val, form=None):
        """tensor of `shape` with entries val(): contiguous, with transposed strides, expanded along its first dimension or requiring grad"""
        form = form or g.weighted([("plain", 4), ("transposed", 1.5), ("expanded", 1.5), ("grad", 1)])
        shape = tuple(shape)
        if form == "expanded" and len(shape) >= 1 and shape[0] > 1:
            base = (1,) + shape[1:]
            return torch.tensor([float(val()) for _i in range(math.prod(base))], dtype=dt_).reshape(base).expand(shape), form
        t = torch.tensor([float(val()) for _i in range(math.prod(shape))], dtype=dt_)
        if form == "transposed" and len(shape) >= 2 and math.prod(shape) > max(shape):
            return t.reshape(shape[::-1]).permute(*range(len(shape) - 1, -1, -1)), form
        t = t.reshape(shape)
        if form == "grad":
            return t.requires_grad_(True), form
        return t, "plain"

    def flat(a, bshape, exact=False):
        """the elements an argument contributes to every element of the broadcast shape (None / Python numbers: the same for all)"""
        n_ = math.prod(bshape)
        if a is None:
            return [None] * n_
        if torch.is_tensor(a):
            e = torch.broadcast_to(a.detach().to(torch.float64), bshape).reshape(-1).tolist()
            return [F(z) for z in e] if exact else e
        return [F(a) if exact else float(a)] * n_

    def describe(a):
        if a is None or not torch.is_tensor(a):
            return a if not isinstance(a, F) else rat_str(a)
        return {"shape": list(a.shape), "stride": list(a.stride()), "requires_grad": a.requires_grad, "values": a.detach().reshape(-1).tolist()}

    def same_t(a_, b_):
        return tuple(a_.shape) == tuple(b_.shape) and bool(torch.allclose(a_.detach(), b_.detach(), rtol=0, atol=0, equal_nan=True))

    def storage_ptr(t_):
        return t_.untyped_storage().data_ptr() if hasattr(t_, "untyped_storage") else t_.storage().data_ptr()

    def own_result(name, fn, args, kwargs, case, expect, bshape, eq, tag, formula, may_alias=False, extra=()):
        """runs fn(*args, **kwargs) and judges shape, values (expect: one flat list per output; eq: comparison of one element) and ownership of the
        result.  Returns the flat outputs (Fractions / floats as in expect) or None"""
        tens = [(f"arg{i}", a_) for i, a_ in enumerate(args) if torch.is_tensor(a_)] + [(k_, v_) for k_, v_ in kwargs.items() if torch.is_tensor(v_)] \
            + [(n_, t_) for n_, t_ in extra if torch.is_tensor(t_)]       # extra: tensors the callable holds (parameters of a module)
        saved = [t_.detach().clone() for _n, t_ in tens]
        st, v, mut = call_impl(fn, *args, **kwargs)
        ctx.case(case, True, tag=tag)
        ctx.stats[f"own-result:{name}"] += 1
        ctx.traces += 1
        if mut:
            ctx.mutated(name, mut, case)
        if st != "ok":
            ctx.fail(f"{name} raised on broadcastable arguments of different shapes", case, key=f"{name}:broadcast:error", detail=v)
            return None
        outs = list(v) if isinstance(v, (tuple, list)) else [v]
        if len(outs) != len(expect) or any(not torch.is_tensor(o_) or tuple(o_.shape) != tuple(bshape) for o_ in outs):
            ctx.fail(f"the result of {name} has not the broadcast shape of its arguments", case, key=f"{name}:broadcast:shape",
                     detail={"impl": [list(o_.shape) if torch.is_tensor(o_) else str(type(o_)) for o_ in outs], "expected": list(bshape),
                             "argument_shapes": {n_: list(t_.shape) for n_, t_ in tens}})
            return None
        exact = any(isinstance(z, F) for e_ in expect for z in e_)
        got = [tensor_to_fracs(o_.reshape(-1)) if exact else [float(z) for z in o_.detach().reshape(-1).tolist()] for o_ in outs]
        for j, (gv, ev) in enumerate(zip(got, expect)):
            bad = [i for i, (a_, b_) in enumerate(zip(gv, ev)) if not eq(a_, b_)]
            if bad:
                i = bad[0]
                ctx.fail(f"{name} on broadcast arguments differs from {formula}", case, key=f"{name}:broadcast:value",
                         detail={"output": j, "flat_index": i, "impl": str(gv[i]), "expected": str(ev[i]), "n_wrong": len(bad)})
                return None
        ptrs = {}
        for n_, t_ in tens:
            ptrs.setdefault(storage_ptr(t_), n_)
        shared = sorted({ptrs[storage_ptr(o_)] for o_ in outs if storage_ptr(o_) in ptrs})
        if may_alias:
            ctx.stats[f"own-result:{name}:identity documented (result may be the input): shares storage={bool(shared)}"] += 1
            return got
        problem = {}
        if shared:
            problem["result shares its storage with"] = shared
        if len({storage_ptr(o_) for o_ in outs}) != len(outs):
            problem["the outputs share one storage"] = True
        firsts = [o_.detach().clone() for o_ in outs]
        for j, o_ in enumerate(outs):
            try:
                with torch.no_grad():
                    o_.detach().mul_(0.0).sub_(7.0)             # the caller goes on working with the result in place
            except Exception as e:  # noqa
                problem[f"output {j} cannot be written in place"] = canon_error(e)
        changed = [n_ for (n_, t_), s_ in zip(tens, saved) if not same_t(t_, s_)]
        if changed:
            problem["arguments changed by writing into the result"] = changed
        st2, v2, _m2 = call_impl(fn, *args, **kwargs)
        outs2 = (list(v2) if isinstance(v2, (tuple, list)) else [v2]) if st2 == "ok" else []
        if st2 != "ok" or len(outs2) != len(firsts) or any(not same_t(a_, b_) for a_, b_ in zip(outs2, firsts)):
            problem["a second call with the same arguments differs from the first"] = True
        if problem:
            ctx.fail(f"the result of {name} is not a tensor of its own: it aliases an argument (working on the result in place changes the caller's tensor)",
                     case, key=f"{name}:result-aliases-input", detail=problem)
        return got

    n_own = 1 if ctx.tier == "quick" else 8
    # bilerp (exact).  Corpus: every pair of weights out of Python int 0 / 1, float 0.0 / 1.0 / interior / outside, 0-dim tensors 0 / 1, with the four
    # inputs of four different shapes in every rotation, and with four inputs of one shape (ownership alone); then random draws
    W_CORPUS = [("int", 0), ("int", 1), ("float", F(0)), ("float", F(1)), ("float", F(1, 4)), ("float", F(-3, 2)), ("tensor0", F(0)), ("tensor0", F(1)),
                ("tensor", None)]
    b_corpus = []
    for rot in range(5):
        shp = [(3,), (4, 3), (4, 1), (1, 3)]
        shp = shp[rot:] + shp[:rot] if rot < 4 else [(4, 3)] * 4
        for w1c in W_CORPUS:
            for w2c in W_CORPUS:
                if rot in (0, 4) or w1c[0] == "int" or w2c[0] == "int" or g.chance(0.25):
                    b_corpus.append((shp, w1c, w2c))
    wval = lambda: g.choice([F(0), F(1), F(0), F(1), g.dy(0, 1, 3), g.dy(-3, 4, 3)])
    for it_ in range(len(b_corpus) + 150 * n_own):
        dtn = g.weighted([("float64", 3), ("float32", 1)])
        dt_ = getattr(torch, dtn)
        if it_ < len(b_corpus):
            shapes, w1c, w2c = b_corpus[it_]
            full = (4, 3)
        else:
            full = g.choice(FULL_SHAPES)
            shapes = [sub_shape(full, 0.7) for _i in range(4)]
            w1c, w2c = [(g.weighted([("int", 2), ("float", 2), ("tensor0", 1), ("tensor", 2)]), None) for _i in range(2)]
        ins, forms = zip(*[make(s_, dt_, lambda: g.dy(-4, 4, 3)) for s_ in shapes])
        ws, wforms = [], []
        for form, val in (w1c, w2c):
            val = wval() if val is None else val
            if form == "int":
                ws.append(int(val) if val in (0, 1) else int(g.choice([0, 1, 2, -1])))
            elif form == "float":
                ws.append(float(val))
            elif form == "tensor0":
                ws.append(torch.tensor(float(val), dtype=dt_))
            else:
                ws.append(make(sub_shape(full), dt_, wval)[0])
            wforms.append(form)
        args = list(ins) + ws
        bshape = tuple(torch.broadcast_shapes(*[tuple(a_.shape) for a_ in args if torch.is_tensor(a_)]))
        cols = [flat(a_, bshape, exact=True) for a_ in args]
        elems = [list(e_) for e_ in zip(*cols)]
        expect = [[(1 - u) * (1 - w) * a + u * (1 - w) * b + (1 - u) * w * c_ + u * w * d_ for a, b, c_, d_, u, w in elems]]
        case = {"bilerp": [describe(a_) for a_ in args], "dtype": dtn, "weight_forms": wforms, "input_forms": list(forms), "broadcast_shape": list(bshape)}
        ctx.stats[f"own-result:bilerp:weights={'+'.join(sorted(wforms))}"] += 1
        ctx.stats[f"own-result:bilerp:some Python-number weight exactly 0 or 1={any(not torch.is_tensor(w) and w in (0, 1) for w in ws)}"] += 1
        got = own_result("bilerp", fnl.bilerp, args, {}, case, expect, bshape, lambda a_, b_: a_ == b_, "bilerp:broadcast",
                         "(1-w1)(1-w2) input1 + w1(1-w2) input2 + (1-w1) w2 input3 + w1 w2 input4")
        if got is not None and (it_ >= len(b_corpus) or it_ % 4 == 0):
            breq.extend(elems)
            bmeta.extend(got[0])
    # clamp / leaky_clamp / Clamp() / LeakyClamp() (exact): input and bounds of different shapes, bounds also Python floats / ints / absent
    own_creqs, own_cmeta = [], []
    # corpus: every entry point x slope 0 / 1 / interior x every pair of bound forms (tensor of another shape, float, int, absent)
    c_corpus = [(fn_, sl_, [b1, b2]) for fn_ in ("leaky", "clamp", "leaky_mod", "clamp_mod")
                for sl_ in ((F(0), F(1), F(1, 4)) if fn_.startswith("leaky") else (F(0),))
                for b1 in ("tensor", "float", "int", "none") for b2 in ("tensor", "float", "int", "none")]
    for it_ in range(len(c_corpus) + 160 * n_own):
        fn = g.choice(["leaky", "clamp", "leaky_mod", "clamp_mod"])
        dtn = g.weighted([("float64", 3), ("float32", 1)])
        dt_ = getattr(torch, dtn)
        slope = g.choice([F(0), F(1, 128), F(1, 4), F(1, 2), F(1), F(1, 8)]) if fn in ("leaky", "leaky_mod") else F(0)
        bforms = [g.weighted([("tensor", 4), ("tensor0", 1), ("float", 1.5), ("int", 1.5), ("none", 1)]) for _i in range(2)]
        if it_ < len(c_corpus):
            fn, slope, bforms = c_corpus[it_][0], c_corpus[it_][1], list(c_corpus[it_][2])
        mode = "mean" if fn == "clamp_mod" else g.choice(["mean", "max"])
        full = g.choice(FULL_SHAPES)
        x, xform = make(full if g.chance(0.6) else sub_shape(full), dt_, lambda: g.dy(-4, 4, 1))
        if fn == "clamp" and mode == "max":
            # torch.clamp: two tensors, two numbers or one bound (one of each is the known finding K1; no bound at all is a backend error)
            if bforms == ["none", "none"]:
                bforms[g.randint(0, 1)] = "tensor"
            kinds_ = {"tensor": "t", "tensor0": "t", "float": "n", "int": "n"}
            if "none" not in bforms and kinds_[bforms[0]] != kinds_[bforms[1]]:
                bforms[1] = bforms[0]
        bounds = []
        for form in bforms:
            bval = lambda: g.dy(-2, 2, 1)
            bounds.append(None if form == "none" else float(bval()) if form == "float" else g.randint(-2, 2) if form == "int" else
                          torch.tensor(float(bval()), dtype=dt_) if form == "tensor0" else make(sub_shape(full), dt_, bval)[0])
        lo, hi = bounds
        bshape = tuple(torch.broadcast_shapes(*[tuple(a_.shape) for a_ in (x, lo, hi) if torch.is_tensor(a_)]))
        elems = [list(e_) for e_ in zip(*[flat(a_, bshape, exact=True) for a_ in (x, lo, hi)])]
        if fn in ("clamp", "clamp_mod"):
            expect = [[spec_clamp(x_, l_, h_, mode) for x_, l_, h_ in elems]]
        else:
            expect = [[spec_leaky(x_, l_, h_, slope, mode) for x_, l_, h_ in elems]]
        if fn == "leaky":
            f_, kw = fnl.leaky_clamp, dict(clamped_slope=float(slope), inverted_output=mode)
        elif fn == "clamp":
            f_, kw = fnl.clamp, dict(inverted_output=mode)
        elif fn == "leaky_mod":
            f_, kw = LeakyClampMod(clamped_slope=float(slope), inverted_output=mode), {}
        else:
            f_, kw = ClampMod(), {}
        req = {"op": "clamp", "fn": fn, "slope": rat_str(slope), "mode": mode,
               "elems": [[rat_str(x_), None if l_ is None else rat_str(l_), None if h_ is None else rat_str(h_)] for x_, l_, h_ in elems]}
        case = {"fn": fn, "slope": rat_str(slope), "mode": mode, "dtype": dtn, "input": describe(x), "min": describe(lo), "max": describe(hi),
                "bound_forms": bforms, "input_form": xform, "broadcast_shape": list(bshape)}
        ctx.stats[f"own-result:clamp:bounds={'+'.join(bforms)}"] += 1
        inv = any(l_ is not None and h_ is not None and l_ > h_ for _x, l_, h_ in elems)
        ctx.stats[f"own-result:clamp:inverted somewhere={inv}"] += 1
        name = {"leaky": "leaky_clamp", "clamp": "clamp", "leaky_mod": "LeakyClamp.forward", "clamp_mod": "Clamp.forward"}[fn]
        got = own_result(name, f_, [x, lo, hi], kw, case, expect, bshape, lambda a_, b_: a_ == b_, fn + ":broadcast",
                         "the documented piecewise formula (bounds broadcast against the input)", may_alias=lo is None and hi is None)
        if got is not None:
            own_creqs.append(req)
            own_cmeta.append((case, ("ok", got[0])))
    # svi_variance / SVIVariance (Float): strikes and parameters of different shapes, parameters also Python floats / ints (sigma = 0, 1 ...)
    for it_ in range(100 * n_own):
        full = g.choice(FULL_SHAPES)
        k_t, kform = make(full if g.chance(0.5) else sub_shape(full), torch.float64, lambda: g.r.uniform(-1, 1))
        pars, pforms = [], []
        for pi, rng in enumerate([(0, 0.1), (0, 1), (-0.9, 0.9), (-0.5, 0.5), (0.01, 2)]):
            form = g.weighted([("float", 2), ("int", 1), ("tensor0", 1), ("tensor", 3)])
            pval = lambda: g.choice([g.r.uniform(*rng), g.r.uniform(*rng), 0.0, 1.0, -g.r.uniform(0.01, 2)])
            pars.append(float(pval()) if form == "float" else g.choice([0, 1, 1, -1, 2]) if form == "int" else
                        torch.tensor(pval(), dtype=torch.float64) if form == "tensor0" else make(sub_shape(full), torch.float64, pval)[0])
            pforms.append(form)
        args = [k_t] + pars
        bshape = tuple(torch.broadcast_shapes(*[tuple(a_.shape) for a_ in args if torch.is_tensor(a_)]))
        elems = [list(e_) for e_ in zip(*[flat(a_, bshape) for a_ in args])]
        expect = [[a_ + b_ * (rho * (k_ - m_) + math.sqrt((k_ - m_) ** 2 + sg ** 2)) for k_, a_, b_, rho, m_, sg in elems]]
        module = g.chance(0.5)
        case = {"svi": [describe(a_) for a_ in args], "module": module, "parameter_forms": pforms, "input_form": kform, "broadcast_shape": list(bshape)}
        if module:
            got = own_result("SVIVariance.forward", SVIVariance(*pars), [k_t], {}, case, expect, bshape, close, "svi:broadcast",
                             "a + b(rho(k-m) + sqrt((k-m)^2 + sigma^2))", extra=list(zip(["a", "b", "rho", "m", "sigma"], pars)))
        else:
            got = own_result("svi_variance", fnl.svi_variance, args, {}, case, expect, bshape, close, "svi:broadcast",
                             "a + b(rho(k-m) + sqrt((k-m)^2 + sigma^2))")
        if got is not None:
            sreq_elems.extend(elems[:6])
            smeta.extend(got[0][:6])
    # box_muller (Float): the two uniform inputs of different shapes; both outputs have the broadcast shape and are tensors of their own
    for it_ in range(80 * n_own):
        full = g.choice(FULL_SHAPES)
        u1, f1 = make(sub_shape(full, 0.7), torch.float64, lambda: g.choice([g.r.random(), g.r.random(), g.r.random(), 1e-12, 0.0, 1.0, 0.5]))
        u2, f2 = make(sub_shape(full, 0.7), torch.float64, lambda: g.choice([g.r.random(), g.r.random(), 0.0, 1.0, 0.25, g.r.uniform(-3, 3)]))
        bshape = tuple(torch.broadcast_shapes(tuple(u1.shape), tuple(u2.shape)))
        elems = [list(e_) for e_ in zip(flat(u1, bshape), flat(u2, bshape))]
        rad = [math.sqrt(-2 * math.log(max(a_, 1e-10))) for a_, _b in elems]
        expect = [[r_ * math.cos(2 * math.pi * b_) for r_, (_a, b_) in zip(rad, elems)], [r_ * math.sin(2 * math.pi * b_) for r_, (_a, b_) in zip(rad, elems)]]
        case = {"box_muller": [describe(u1), describe(u2)], "input_forms": [f1, f2], "broadcast_shape": list(bshape)}
        got = own_result("box_muller", fnl.box_muller, [u1, u2], {}, case, expect, bshape, lambda a_, b_: close(a_, b_, ab=1e-9), "box_muller:broadcast",
                         "sqrt(-2 log max(u1, epsilon)) (cos, sin)(2 pi u2)")
        if got is not None:
            bm_elems.extend(elems[:6])
            bm_meta.extend(list(zip(got[0], got[1]))[:6])
    # ww_width (Float): gamma and spot of different shapes; cost and a Python floats / INTS (cost 0 or 1) / 0-dim / tensors with zeros among the costs
    for it_ in range(100 * n_own):
        full = g.choice(FULL_SHAPES)
        gam_t, gform = make(sub_shape(full, 0.7), torch.float64, lambda: g.choice([g.r.uniform(0, 5), g.r.uniform(-5, 5), 0.0]))
        spot_t, sform = make(sub_shape(full, 0.7), torch.float64, lambda: g.r.uniform(0.1, 3))
        cform, aform = [g.weighted([("float", 2), ("int", 2), ("tensor0", 1), ("tensor", 3)]) for _i in range(2)]
        cval = lambda: g.choice([0.0, 0.0, 1e-4, 1e-3, 1e-2, 1.0, 0.5])
        aval = lambda: g.choice([0.25, 1.0, 3.0, 10.0, g.r.uniform(0.01, 20)])
        cost_ = float(cval()) if cform == "float" else g.choice([0, 1]) if cform == "int" else torch.tensor(cval(), dtype=torch.float64) \
            if cform == "tensor0" else make(sub_shape(full), torch.float64, cval)[0]
        a_par = float(aval()) if aform == "float" else g.choice([1, 2, 3]) if aform == "int" else torch.tensor(aval(), dtype=torch.float64) \
            if aform == "tensor0" else make(sub_shape(full), torch.float64, aval)[0]
        args = [gam_t, spot_t, cost_, a_par]
        bshape = tuple(torch.broadcast_shapes(*[tuple(a_.shape) for a_ in args if torch.is_tensor(a_)]))
        elems = [list(e_) for e_ in zip(*[flat(a_, bshape) for a_ in args])]
        expect = [[0.0 if c_ == 0 else (3 * c_ * g_ ** 2 * s_ / (2 * a_)) ** (1 / 3) for g_, s_, c_, a_ in elems]]
        case = {"ww_width": [describe(a_) for a_ in args], "forms": {"gamma": gform, "spot": sform, "cost": cform, "a": aform}, "broadcast_shape": list(bshape)}
        by_name = g.chance(0.5)
        got = own_result("ww_width", fnl.ww_width, [] if by_name else args, dict(gamma=gam_t, spot=spot_t, cost=cost_, a=a_par) if by_name else {},
                         case, expect, bshape, close, "ww_width:broadcast", "(3 c gamma^2 S / (2a))^(1/3)")
        if got is not None:
            wreq_elems.extend(elems[:6])
            wmeta.extend(got[0][:6])
    # realized_variance / realized_volatility (Float): prices (*, T) non-contiguous / expanded / requiring grad, dt a Python float / INT, 0-dim or a
    # tensor of a shape broadcastable to (*) (lower rank, singleton dimensions); the result has shape (*) and is a tensor of its own
    for it_ in range(100 * n_own):
        T = g.small((2, 3, 4, 5, 8))
        batch = g.choice([(), (1,), (3,), (4, 3), (2, 1), (1, 3), (2, 4, 3), (T - 1,) if T > 2 else (2,), (3, T - 1) if T > 2 else (3, 2)])
        fn_name = g.choice(["realized_volatility", "realized_variance"])
        x, xform = make(batch + (T,), torch.float64, lambda: math.exp(g.r.uniform(-0.3, 0.3)))
        dform = g.weighted([("float", 2), ("int", 2), ("tensor0", 1), ("tensor", 4)])
        dval = lambda: g.choice([1 / 250, 0.1, 1 / 12, 1.0, 2.0, g.r.uniform(0.001, 1.0)])
        dt_arg = float(dval()) if dform == "float" else g.choice([1, 2, 1, 5]) if dform == "int" else torch.tensor(dval(), dtype=torch.float64) \
            if dform == "tensor0" else make(sub_shape(batch) if batch else (), torch.float64, dval)[0]
        bshape = tuple(torch.broadcast_shapes(batch, tuple(dt_arg.shape))) if torch.is_tensor(dt_arg) else batch
        paths = x.detach().reshape(-1, T).tolist()
        paths = [paths[i % len(paths)] for i in range(math.prod(bshape))] if math.prod(bshape) != len(paths) else paths
        dts = flat(dt_arg, bshape)
        expect = [[]]
        for path, dv in zip(paths, dts):
            lr = [math.log(path[i + 1]) - math.log(path[i]) for i in range(T - 1)]
            ev = sum(z * z for z in lr) / len(lr) / dv
            expect[0].append(math.sqrt(ev) if fn_name == "realized_volatility" else ev)
        case = {"fn": fn_name, "input": describe(x), "dt": describe(dt_arg), "dt_form": dform, "input_form": xform, "output_shape": list(bshape)}
        ctx.stats[f"own-result:realized:dt={dform}"] += 1
        by_name = g.chance(0.5)
        got = own_result(fn_name, getattr(fnl, fn_name), [x] if by_name else [x, dt_arg], dict(dt=dt_arg) if by_name else {}, case, expect, bshape, close,
                         "realized:broadcast", "sigma^2 = 1/(T-1) sum (1/dt) log(S_{i+1}/S_i)^2 (volatility: its square root)")
        if got is not None and fn_name == "realized_volatility" and tuple(bshape) == tuple(batch):
            pi = g.randint(0, len(paths) - 1)
            rv_reqs.append({"op": "var_swap", "dt": float_bits(dts[pi]), "strike": float_bits(0.0), "paths": enc_flt([paths[pi]])})
            rv_meta.append(got[0][pi])
    # WhalleyWilmott(derivative).forward / .width: the input (N, *, H) non-square, with singleton dimensions, non-contiguous / expanded / requiring
    # grad; the hedge has shape (N, *, 1), follows the band rule row by row and is a tensor of its own (not a view of the previous-hedge column)
    for it_ in range(24 * n_own):
        kind = g.weighted([("european", 3), ("european_binary", 2), ("lookback", 1), ("american_binary", 1)])
        cost = g.choice([0.0, 1e-4, 1e-3, 1e-2, 5e-2])
        a = g.choice([0.25, 1.0, 3.0, 1.0])
        k = g.choice([0.5, 1.0, 2.0, 1.0, 7.5])
        call = g.chance(0.7) if kind in ("european", "european_binary") else True
        m = WhalleyWilmott(ww_derivative(kind, BrownianStock(cost=cost, dtype=torch.float64), k, call), a=a)
        ref = BlackScholes(ww_derivative(kind, BrownianStock(dtype=torch.float64), k, call))
        names = m.inputs()
        lead = g.choice([(1,), (3,), (3, 1), (1, 2), (2, 3), (2, 1, 2), (4,)])
        form = g.weighted([("plain", 2), ("transposed", 2), ("expanded", 2), ("grad", 1)])
        n_rows = math.prod(lead)
        n_distinct = n_rows // lead[0] if form == "expanded" and lead[0] > 1 else n_rows
        states = [ww_state(kind) for _i in range(n_distinct)]
        col = lambda name: torch.tensor([[st_[name]] for st_ in states], dtype=torch.float64)
        st0, dg, _m = call_impl(lambda: (ref.delta(**{nm: col(nm) for nm in names[:-1]}).detach(), ref.gamma(**{nm: col(nm) for nm in names[:-1]}).detach()))
        if st0 != "ok":
            continue
        deltas, gammas = ([float(z) for z in t_.reshape(-1).tolist()] for t_ in dg)
        rows, exps, wdocs = [], [], []
        for st_, delta, gam in zip(states, deltas, gammas):
            wdoc = (3 * cost * gam ** 2 * (k * math.exp(st_["log_moneyness"])) / (2 * a)) ** (1 / 3) if cost > 0 else 0.0
            # ... incl. a previous hedge OUTSIDE the band by a few 1e-6 relative (far above float64 round-off: it is moved to the edge)
            where = g.choice(["inside", "above", "below", "at_delta", "far", "just_above", "just_below"])
            hi_, lo_ = delta + wdoc, delta - wdoc
            prev = {"inside": delta + 0.5 * wdoc * g.r.uniform(-1, 1), "above": hi_ + g.r.uniform(0.01, 1), "below": lo_ - g.r.uniform(0.01, 1),
                    "at_delta": delta, "far": g.r.uniform(-3, 3), "just_above": hi_ + g.choice([3e-6, 1e-6, 8e-6]) * max(abs(hi_), 1e-2),
                    "just_below": lo_ - g.choice([3e-6, 1e-6, 8e-6]) * max(abs(lo_), 1e-2)}[where]
            ctx.stats[f"own-result:ww:where={where}"] += 1
            rows.append([st_[nm] for nm in names[:-1]] + [prev])
            exps.append(prev if delta - wdoc <= prev <= delta + wdoc else (delta + wdoc if prev > delta + wdoc else delta - wdoc))
            wdocs.append(wdoc)
        if not all(math.isfinite(z) for z in deltas + gammas + exps):
            ctx.stats["ww: Black-Scholes delta / gamma not finite (skipped; C18 matter)"] += 1
            continue
        H = len(names)
        xt = torch.tensor(rows, dtype=torch.float64)
        if form == "expanded" and lead[0] > 1:
            x = xt.reshape((1,) + lead[1:] + (H,)).expand(lead + (H,))
        elif form == "transposed":
            x = xt.t().contiguous().t().reshape(lead + (H,)) if len(lead) == 1 else \
                xt.reshape(lead + (H,)).permute(*range(len(lead), -1, -1)).contiguous().permute(*range(len(lead), -1, -1))
        else:
            x = xt.reshape(lead + (H,))
            if form == "grad":
                x.requires_grad_(True)
        rep = n_rows // n_distinct
        exps_f, wdocs_f = exps * rep, wdocs * rep
        tols = [1e-9 * (1 + abs(e_)) + 1e-7 * w_ for e_, w_ in zip(exps_f, wdocs_f)]
        case = {"kind": kind, "inputs": names, "cost": cost, "a": a, "k": k, "call": call, "input": describe(x), "input_form": form}
        idx = {"i": 0}

        def eq_row(a_, b_, tols=tols, idx=idx):
            i = idx["i"] % len(tols)
            idx["i"] += 1
            return abs(a_ - b_) <= tols[i]
        got = own_result("WhalleyWilmott.forward", m, [x], {}, case, [exps_f], lead + (1,), eq_row, "ww:own-result:" + kind,
                         "clamp(prev, delta -/+ (3 c gamma^2 S / (2a))^(1/3)) row by row")
        idx["i"] = 0
        gotw = own_result("WhalleyWilmott.width", m.width, [x.detach()[..., :-1]], {}, case | {"what": "width"}, [wdocs_f], lead + (1,),
                          lambda a_, b_: abs(a_ - b_) <= 1e-7 * b_ + 1e-12, "ww:own-result:width:" + kind, "(3 c gamma^2 S / (2a))^(1/3) row by row")
        if got is not None:
            rows_f = rows * rep
            wmod_add(kind, call, k, cost, a, rows_f, [(case | {"row": r_}, o_, None if kind in ("european", "european_binary") else t_)
                                                      for r_, o_, t_ in zip(rows_f, got[0], tols)])
    # ---------------- OBJECTS WITH A LIFE OF THEIR OWN, for every module of the file (LeakyClamp, Clamp, SVIVariance, WhalleyWilmott) and the option
    # strings of the functional forms.  (1) SEVERAL INSTANCES of one class alive at once with different configuration, called in interleaved order
    # (every older instance is called again after every younger one was constructed): each behaves per its OWN configuration.  (2) The
    # inverted_output option given as a string BUILT AT RUN TIME (read from JSON, joined, lower-cased, decoded ...: equal to 'mean' / 'max' but not the
    # interned source literal): same result as the literal; an invalid one built at run time is rejected.  (3) Public ATTRIBUTES re-assigned after
    # construction where the unchanged code reads them at call time (LeakyClamp.clamped_slope / .inverted_output, SVIVariance.a / b / rho / m /
    # sigma, WhalleyWilmott.a, the cost of the underlier): the module then behaves as one freshly constructed with the new value.  Oracles: the
    # documented formulas on the configuration the harness keeps per object.  All calls also go to the model ops (clamp, svi, ww_module).
    import json as _json
    n_life = 1 if ctx.tier == "quick" else 8
    SLOPES = [F(0), F(1, 128), F(1, 8), F(1, 4), F(1, 2), F(1)]

    def rt_string(s, how=None):
        """a string equal to `s` that is a new object, as a value read from a file / command line is (not the interned literal of the source)"""
        how = how or g.choice(["join", "json", "lower", "slice", "decode"])
        v = {"join": lambda: "".join([s[:1], s[1:]]), "json": lambda: _json.loads(_json.dumps({"inverted_output": s}))["inverted_output"],
             "lower": lambda: s.upper().lower(), "slice": lambda: (s + " ")[:-1], "decode": lambda: s.encode("ascii").decode("ascii")}[how]()
        ctx.stats[f"life:run-time string is the literal object={v is s}"] += 1
        return v, how

    def clamp_elems(n_, scalar_bounds):
        """(x, lo, hi) with both bounds given: at least one element outside ordinary bounds (the slope shows) and one with min > max (the option shows)"""
        slo, shi = g.dy(-2, 2, 2), g.dy(-2, 2, 2)
        if scalar_bounds and n_ >= 2:
            scalar_bounds = False          # scalar bounds are ordinary or inverted for all elements: both kinds need per-element bounds
        el = []
        for i in range(n_):
            lo, hi = (slo, shi) if scalar_bounds else (g.dy(-2, 2, 2), g.dy(-2, 2, 2))
            if not scalar_bounds and i == 0:
                lo, hi = max(lo, hi) + F(1, 4), min(lo, hi)                      # inverted
            if not scalar_bounds and i == 1:
                lo, hi = min(lo, hi), max(lo, hi)                                 # ordinary, x outside
            x = g.choice([g.dy(-4, 4, 3), lo - g.dy(0, 2, 3) - F(1, 8), hi + g.dy(0, 2, 3) + F(1, 8)]) if i != 1 else \
                g.choice([lo - g.dy(0, 2, 3) - F(1, 8), hi + g.dy(0, 2, 3) + F(1, 8)])
            el.append([x, lo, hi])
        return el, scalar_bounds

    def clamp_args(el, scalar_bounds, dt_):
        x = torch.tensor([float(e[0]) for e in el], dtype=dt_)
        if scalar_bounds:
            return x, float(el[0][1]), float(el[0][2])
        return x, torch.tensor([float(e[1]) for e in el], dtype=dt_), torch.tensor([float(e[2]) for e in el], dtype=dt_)

    def clamp_judge(fn, name, st, v, el, slope, mode, case, key, what):
        """exact comparison with the documented piecewise values; appends the call to the requests of op clamp.  True = as documented"""
        if st != "ok" or not torch.is_tensor(v) or tuple(v.shape) != (len(el),):
            ctx.fail(f"{name} raised / returned a wrong shape {what}", case, key=key + ":error", detail=v if st != "ok" else str(getattr(v, "shape", type(v))))
            return False
        got = tensor_to_fracs(v)
        exp = [spec_clamp(x, lo, hi, mode) if fn in ("clamp", "clamp_mod") else spec_leaky(x, lo, hi, slope, mode) for x, lo, hi in el]
        own_creqs.append({"op": "clamp", "fn": fn, "slope": rat_str(slope), "mode": mode,
                          "elems": [[rat_str(x), rat_str(lo), rat_str(hi)] for x, lo, hi in el]})
        own_cmeta.append((case | {"fn": fn}, ("ok", got)))
        bad = [i for i, (a_, b_) in enumerate(zip(got, exp)) if a_ != b_]
        if bad:
            i = bad[0]
            ctx.fail(f"{name} differs from its documented piecewise formula {what}", case, key=key,
                     detail={"element": [rat_str(z) for z in el[i]], "inverted_bounds": el[i][1] > el[i][2], "impl": rat_str(got[i]), "expected": rat_str(exp[i]),
                             "n_wrong": len(bad)})
        return not bad

    # (2) option strings built at run time: leaky_clamp, clamp, LeakyClamp.  Corpus: every entry point x both modes x every way of building
    rt_corpus = [(fn_, md_, how_) for fn_ in ("leaky", "clamp", "leaky_mod") for md_ in ("max", "mean") for how_ in ("join", "json", "lower", "slice", "decode")]
    for it_ in range(len(rt_corpus) + 40 * n_life):
        fn, mode, how = g.choice(["leaky", "clamp", "leaky_mod"]), g.weighted([("max", 3), ("mean", 2), ("bogus", 1)]), None
        if it_ < len(rt_corpus):
            fn, mode, how = rt_corpus[it_]
        dtn = g.weighted([("float64", 3), ("float32", 1)])
        dt_ = getattr(torch, dtn)
        slope = g.choice(SLOPES) if fn != "clamp" else F(0)
        el, sb = clamp_elems(g.choice([1, 2, 3, 5]), g.chance(0.3))
        x, lo, hi = clamp_args(el, sb, dt_)
        mode_s, how = rt_string(mode, how)
        name = {"leaky": "leaky_clamp", "clamp": "clamp", "leaky_mod": "LeakyClamp"}[fn]
        case = {"fn": fn, "slope": rat_str(slope), "inverted_output": mode, "string_built_by": how, "dtype": dtn, "scalar_bounds": sb,
                "elems": [[rat_str(z) for z in e] for e in el]}
        if fn == "leaky":
            st, v, mut = call_impl(fnl.leaky_clamp, x, lo, hi, clamped_slope=float(slope), inverted_output=mode_s)
        elif fn == "clamp":
            st, v, mut = call_impl(fnl.clamp, x, lo, hi, inverted_output=mode_s)
        else:
            st, v, mut = call_impl(lambda *a_: LeakyClampMod(clamped_slope=float(slope), inverted_output=mode_s)(*a_), x, lo, hi)
        ctx.case(case, True, tag="life:run-time-string:" + fn)
        ctx.stats[f"life:run-time string:{fn}:{mode}"] += 1
        ctx.traces += 1
        if mut:
            ctx.mutated(name, mut, case)
        if mode == "bogus":
            if st == "ok":
                ctx.fail(f"{name} accepts an invalid inverted_output given as a string built at run time (both bounds given)", case,
                         key=f"{fn}:run-time-option-string:bogus-mode")
            continue
        clamp_judge(fn, name, st, v, el, slope, mode, case, f"{fn}:run-time-option-string",
                    f"when inverted_output={mode!r} is a string built at run time (equal to, but not the same object as, the source literal)")

    # (1) + (3) LeakyClamp / Clamp modules: a session = some modules constructed one after the other, then a sequence of calls / attribute assignments
    def life_steps(n_mod, n_extra, attrs, with_sets):
        """every module once in order of construction (the oldest first: after all younger ones exist), then random calls and assignments"""
        steps = [("call", j) for j in range(n_mod)]
        for _i in range(n_extra):
            j = g.randint(0, n_mod - 1)
            if with_sets and g.chance(0.5):
                steps.append(("set", j, g.choice(attrs)))
            steps.append(("call", j if g.chance(0.5) else g.randint(0, n_mod - 1)))
        return steps

    lc_corpus = [("instances", [(F(1, 128), "mean"), (F(1, 2), "max")]), ("instances", [(F(1, 2), "max"), (F(1, 128), "mean")]),
                 ("instances", [(F(0), "max"), (F(1), "max"), (F(1, 4), "mean")]), ("instances", [(F(1, 4), "mean"), (F(1, 4), "max")]),
                 ("instances", [(F(1, 8), "max"), (F(1, 2), "max")]), ("attributes", [(F(1, 128), "mean")]), ("attributes", [(F(1, 2), "max")]),
                 ("all", [(F(1, 128), "max"), (F(1, 2), "mean")])]
    for it_ in range(len(lc_corpus) + 40 * n_life):
        scen = g.weighted([("instances", 3), ("attributes", 2), ("all", 2)])
        n_mod = 1 if scen == "attributes" else g.choice([2, 2, 3, 4])
        confs = [(g.choice(SLOPES), g.choice(["mean", "max"])) for _j in range(n_mod)]
        if n_mod > 1 and len(set(confs)) == 1:
            confs[-1] = (g.choice([s_ for s_ in SLOPES if s_ != confs[0][0]]), "max" if confs[0][1] == "mean" else "mean")
        if it_ < len(lc_corpus):
            scen, confs = lc_corpus[it_][0], list(lc_corpus[it_][1])
            n_mod = len(confs)
        dtn = g.weighted([("float64", 3), ("float32", 1)])
        dt_ = getattr(torch, dtn)
        mods, state, hows = [], [], []
        for slope, mode in confs:
            mode_s, how = rt_string(mode) if scen == "all" and g.chance(0.6) else (mode, "literal")
            mods.append(LeakyClampMod(clamped_slope=float(slope), inverted_output=mode_s))
            state.append({"slope": slope, "mode": mode})
            hows.append(how)
        n_plain = g.choice([0, 0, 1, 2]) if scen != "attributes" else 0           # Clamp() has no configuration: instances of it live among the others
        plain = [ClampMod() for _j in range(n_plain)]
        steps = life_steps(n_mod + n_plain, g.randint(1, 4) if scen != "attributes" else g.randint(2, 4), ["clamped_slope", "inverted_output"],
                           scen in ("attributes", "all"))
        if scen == "attributes":
            steps = [("call", 0), ("set", 0, "clamped_slope"), ("call", 0), ("set", 0, "inverted_output"), ("call", 0)] + steps[1:]
        key = {"instances": "LeakyClamp:several-instances", "attributes": "LeakyClamp:attribute-reassigned",
               "all": "LeakyClamp:several-instances+run-time-strings+attributes"}[scen]
        base = {"scenario": scen, "dtype": dtn, "constructed": [[rat_str(s_), m_, h_] for (s_, m_), h_ in zip(confs, hows)], "n_Clamp_modules": n_plain}
        log, was_set = [], [False] * n_mod
        for step in steps:
            j = step[1]
            if step[0] == "set":
                if j >= n_mod:
                    continue
                if step[2] == "clamped_slope":
                    new = g.choice([s_ for s_ in SLOPES if s_ != state[j]["slope"]])
                    mods[j].clamped_slope = float(new)
                    state[j]["slope"] = new
                    log.append(["set", j, "clamped_slope", rat_str(new)])
                else:
                    new = "max" if state[j]["mode"] == "mean" else "mean"
                    new_s, how = rt_string(new) if scen == "all" and g.chance(0.5) else (new, "literal")
                    mods[j].inverted_output = new_s
                    state[j]["mode"] = new
                    hows[j] = how
                    log.append(["set", j, "inverted_output", new, how])
                was_set[j] = True
                continue
            el, sb = clamp_elems(g.choice([2, 3, 5]), False)
            x, lo, hi = clamp_args(el, sb, dt_)
            log.append(["call", j])
            case = base | {"steps_so_far": list(log), "called": j, "elems": [[rat_str(z) for z in e] for e in el]}
            if j >= n_mod:
                st, v, mut = call_impl(plain[j - n_mod], x, lo, hi)
                ctx.case(case, True, tag="life:Clamp")
                ctx.traces += 1
                clamp_judge("clamp_mod", "Clamp()", st, v, el, F(0), "mean", case, "Clamp:several-instances", "with other clamp modules alive")
                continue
            st, v, mut = call_impl(mods[j], x, lo, hi)
            ctx.case(case | {"configuration_now": [rat_str(state[j]["slope"]), state[j]["mode"]]}, True, tag="life:LeakyClamp:" + scen)
            ctx.stats[f"life:LeakyClamp:{scen}:call after an attribute was re-assigned={was_set[j]}"] += 1
            ctx.traces += 1
            if mut:
                ctx.mutated("LeakyClamp", mut, case)
            what = ("after its attributes were re-assigned (must behave as LeakyClamp constructed with the new values)" if was_set[j] else
                    "for its own configuration while other LeakyClamp modules with another configuration are alive")
            if scen == "all":
                what += f" (its inverted_output string was given as: {hows[j]}; some strings of this session are built at run time)"
            ok_ = clamp_judge("leaky_mod", f"LeakyClamp module #{j}", st, v, el, state[j]["slope"], state[j]["mode"],
                              case | {"configuration_now": [rat_str(state[j]["slope"]), state[j]["mode"]]}, key, what)
            if (float(mods[j].clamped_slope), str(mods[j].inverted_output)) != (float(state[j]["slope"]), state[j]["mode"]):
                ctx.fail("the attributes of a LeakyClamp module no longer show its own configuration", case, key=key + ":attributes",
                         detail={"clamped_slope": mods[j].clamped_slope, "inverted_output": mods[j].inverted_output})
                ok_ = False
            if not ok_:
                break

    # (1) + (3) SVIVariance modules: parameters as floats / 0-dim tensors; a, b, rho, m, sigma re-assigned
    SVI_ATTRS = ["a", "b", "rho", "m", "sigma"]

    def svi_par(i):
        rng = [(-0.1, 0.1), (0, 1), (-0.9, 0.9), (-0.5, 0.5), (0.01, 2)][i]
        return g.choice([g.r.uniform(*rng), g.r.uniform(*rng), g.r.uniform(-2, 2), 0.0, 1.0])

    def svi_form(v):
        return torch.tensor(v, dtype=torch.float64) if g.chance(0.3) else v

    for it_ in range(3 + 30 * n_life):
        scen = ["instances", "attributes", "all"][it_] if it_ < 3 else g.weighted([("instances", 3), ("attributes", 2), ("all", 2)])
        n_mod = 1 if scen == "attributes" else g.choice([2, 2, 3, 4])
        state = [[svi_par(i) for i in range(5)] for _j in range(n_mod)]
        mods = [SVIVariance(*[svi_form(v) for v in pars]) for pars in state]
        steps = life_steps(n_mod, g.randint(1, 4), SVI_ATTRS, scen in ("attributes", "all"))
        if scen == "attributes":
            steps = [("call", 0)] + [s_ for nm in g.r.sample(SVI_ATTRS, 3) for s_ in (("set", 0, nm), ("call", 0))] + steps[1:]
        key = {"instances": "SVIVariance:several-instances", "attributes": "SVIVariance:attribute-reassigned",
               "all": "SVIVariance:several-instances+attributes"}[scen]
        base = {"scenario": scen, "constructed": [list(p_) for p_ in state]}
        log, was_set = [], [False] * n_mod
        for step in steps:
            j = step[1]
            if step[0] == "set":
                i = SVI_ATTRS.index(step[2])
                new = svi_par(i)
                setattr(mods[j], step[2], svi_form(new))
                state[j][i] = new
                was_set[j] = True
                log.append(["set", j, step[2], new])
                continue
            ks = [g.r.uniform(-1, 1) for _i in range(g.choice([1, 3]))]
            log.append(["call", j])
            case = base | {"steps_so_far": list(log), "called": j, "parameters_now": list(state[j]), "k": ks}
            st, v, mut = call_impl(mods[j], torch.tensor(ks, dtype=torch.float64))
            ctx.case(case, True, tag="life:SVIVariance:" + scen)
            ctx.stats[f"life:SVIVariance:{scen}:call after an attribute was re-assigned={was_set[j]}"] += 1
            ctx.traces += 1
            if mut:
                ctx.mutated("SVIVariance", mut, case)
            if st != "ok" or tuple(v.shape) != (len(ks),):
                ctx.fail("SVIVariance raised / returned a wrong shape", case, key=key + ":error", detail=v if st != "ok" else list(v.shape))
                break
            a_, b_, rho, m_, sg = state[j]
            got = [float(z) for z in v.detach().tolist()]
            exp = [a_ + b_ * (rho * (k_ - m_) + math.sqrt((k_ - m_) ** 2 + sg ** 2)) for k_ in ks]
            for k_, gv in zip(ks, got):
                sreq_elems.append([k_] + list(state[j]))
                smeta.append(gv)
            if not all(close(gv, ev) for gv, ev in zip(got, exp)):
                ctx.fail("SVIVariance module differs from a + b(rho(k-m) + sqrt((k-m)^2 + sigma^2)) for the parameters it has now " +
                         ("(attributes re-assigned after construction)" if was_set[j] else "(other SVIVariance modules with other parameters are alive)"),
                         case, key=key, detail={"impl": got, "expected": exp})
                break

    # (1) + (3) WhalleyWilmott modules: different derivatives / costs / risk aversions, some sharing one derivative (different a) or one underlier
    # (two derivatives); m.a and the cost of the underlier re-assigned.  forward and width of every call judged by the band rule
    for it_ in range(3 + 14 * n_life):
        scen = ["instances", "attributes", "all"][it_] if it_ < 3 else g.weighted([("instances", 3), ("attributes", 2), ("all", 2)])
        n_mod = 1 if scen == "attributes" else g.choice([2, 2, 3])
        stocks, derivs, mods, state = [], [], [], []
        for j in range(n_mod):
            share = g.weighted([("derivative", 1), ("underlier", 1), ("nothing", 2)]) if j else "nothing"
            a = g.choice([0.25, 1.0, 3.0, 2, 0.5])
            if share == "derivative":
                di = g.randint(0, len(derivs) - 1)
                a = g.choice([z for z in [0.25, 1.0, 3.0, 2, 0.5, 10.0] if z not in [s_["a"] for s_ in state if s_["deriv"] == di]])
            else:
                if share == "underlier":
                    si = g.randint(0, len(stocks) - 1)
                else:
                    stocks.append({"cost": g.choice([1e-4, 1e-3, 1e-2, 5e-2, 0.0])})
                    si = len(stocks) - 1
                    stocks[si]["obj"] = BrownianStock(cost=stocks[si]["cost"], dtype=torch.float64)
                kind = g.choice(["european", "european", "european_binary"])
                k, call = g.choice([0.5, 1.0, 2.0, 7.5]), g.chance(0.7)
                derivs.append({"kind": kind, "k": k, "call": call, "stock": si, "obj": ww_derivative(kind, stocks[si]["obj"], k, call)})
                di = len(derivs) - 1
            mods.append(WhalleyWilmott(derivs[di]["obj"], a=a))
            state.append({"a": a, "deriv": di})
        refs = [BlackScholes(ww_derivative(d_["kind"], BrownianStock(dtype=torch.float64), d_["k"], d_["call"])) for d_ in derivs]
        steps = life_steps(n_mod, g.randint(1, 3), ["a", "cost"], scen in ("attributes", "all"))
        if scen == "attributes":
            steps = [("call", 0), ("set", 0, "a"), ("call", 0), ("set", 0, "cost"), ("call", 0)] + steps[1:]
        key = {"instances": "WhalleyWilmott:several-instances", "attributes": "WhalleyWilmott:attribute-reassigned",
               "all": "WhalleyWilmott:several-instances+attributes"}[scen]
        base = {"scenario": scen, "constructed": [{"a": s_["a"], "derivative": s_["deriv"]} for s_ in state],
                "derivatives": [{k_: d_[k_] for k_ in ("kind", "k", "call", "stock")} for d_ in derivs], "costs_at_construction": [s_["cost"] for s_ in stocks]}
        log, was_set = [], [False] * n_mod
        for step in steps:
            j = step[1]
            d_ = derivs[state[j]["deriv"]]
            if step[0] == "set":
                if step[2] == "a":
                    new = g.choice([z for z in [0.25, 1.0, 3.0, 2, 0.5, 10.0] if z != state[j]["a"]])
                    mods[j].a = new
                    state[j]["a"] = new
                else:
                    new = g.choice([z for z in [0.0, 1e-4, 1e-3, 1e-2, 5e-2] if z != stocks[d_["stock"]]["cost"]])
                    mods[j].derivative.underlier.cost = new
                    stocks[d_["stock"]]["cost"] = new
                    was_set = [w_ or derivs[s_["deriv"]]["stock"] == d_["stock"] for w_, s_ in zip(was_set, state)]
                was_set[j] = True
                log.append(["set", j, step[2], new])
                continue
            kind, k, call, a, cost = d_["kind"], d_["k"], d_["call"], state[j]["a"], stocks[d_["stock"]]["cost"]
            ref = refs[state[j]["deriv"]]
            rows, exps, wdocs = [], [], []
            for _i in range(g.choice([1, 3])):
                s, t, v = g.r.uniform(-0.5, 0.5), g.choice([0.01, 0.1, 0.25, 1.0, 2.0, g.r.uniform(0.01, 3)]), g.choice([0.1, 0.2, 0.5, g.r.uniform(0.05, 1.0)])
                x3 = torch.tensor([[s, t, v]], dtype=torch.float64)
                with torch.no_grad():
                    delta, gam = float(ref.delta(x3[..., [0]], x3[..., [1]], x3[..., [2]])), float(ref.gamma(x3[..., [0]], x3[..., [1]], x3[..., [2]]))
                wdoc = (3 * cost * gam ** 2 * (k * math.exp(s)) / (2 * a)) ** (1 / 3) if cost > 0 else 0.0
                sgn = g.choice([-1, 1])
                where = g.choice(["inside", "outside", "near_edge_inside", "near_edge_outside", "at_delta"])
                prev = delta + sgn * {"inside": wdoc * g.r.uniform(0, 0.6), "outside": wdoc + g.r.uniform(0.01, 1), "near_edge_inside": wdoc * g.r.uniform(0.6, 0.95),
                                      "near_edge_outside": wdoc * g.r.uniform(1.05, 1.6) + 1e-4, "at_delta": 0.0}[where]
                rows.append([s, t, v, prev])
                exps.append(prev if delta - wdoc <= prev <= delta + wdoc else (delta + wdoc if prev > delta + wdoc else delta - wdoc))
                wdocs.append(wdoc)
            log.append(["call", j])
            case = base | {"steps_so_far": list(log), "called": j, "a_now": a, "cost_now": cost, "kind": kind, "k": k, "call": call, "rows": rows}
            ctx.case(case, True, tag="life:WhalleyWilmott:" + scen)
            ctx.stats[f"life:WhalleyWilmott:{scen}:call after an attribute was re-assigned={was_set[j]}"] += 1
            ctx.traces += 1
            if not all(math.isfinite(z) for z in exps + wdocs):
                continue
            xt = torch.tensor(rows, dtype=torch.float64)
            st, o, mut = call_impl(mods[j], xt)
            st2, w, mut2 = call_impl(mods[j].width, xt[..., :-1])
            if mut or mut2:
                ctx.mutated("WhalleyWilmott", mut or mut2, case)
            if st != "ok" or st2 != "ok" or tuple(o.shape) != (len(rows), 1) or tuple(w.shape) != (len(rows), 1):
                ctx.fail("WhalleyWilmott.forward / .width raised / returned a wrong shape", case, key=key + ":error",
                         detail=o if st != "ok" else (w if st2 != "ok" else [list(o.shape), list(w.shape)]))
                break
            outs, wids = [float(z) for z in o.detach().reshape(-1).tolist()], [float(z) for z in w.detach().reshape(-1).tolist()]
            what = ("for the a / the cost of the underlier it has now (re-assigned after construction)" if was_set[j] else
                    "for its own derivative and risk aversion while other WhalleyWilmott modules are alive")
            bad_w = [i for i, (wi, wd) in enumerate(zip(wids, wdocs)) if not abs(wi - wd) <= 1e-7 * wd + 1e-12]
            bad_o = [i for i, (ov, ev, wd) in enumerate(zip(outs, exps, wdocs)) if not abs(ov - ev) <= 1e-9 * (1 + abs(ev)) + 1e-7 * wd]
            if bad_w:
                ctx.fail(f"WhalleyWilmott.width is not (3 c gamma^2 S / (2a))^(1/3) {what}", case, key=key + ":width",
                         detail={"row": rows[bad_w[0]], "impl": wids[bad_w[0]], "width_doc": wdocs[bad_w[0]]})
            if bad_o:
                ctx.fail(f"Whalley-Wilmott hedge is not clamp(prev, delta -/+ (3 c gamma^2 S / (2a))^(1/3)) {what}", case, key=key + ":band",
                         detail={"row": rows[bad_o[0]], "impl": outs[bad_o[0]], "expected": exps[bad_o[0]], "width_doc": wdocs[bad_o[0]]})
            if bad_w or bad_o:
                break
            wmod_add(kind, call, k, cost, float(a), rows, [(case | {"row": r_}, o_, None) for r_, o_ in zip(rows, outs)])
    try:
        bouts = ctx.driver([{"op": "bilerp", "elems": enc_rat(breq)}])
        wwouts = ctx.driver(wwreqs)
        wmod_live = [(q, mt) for q, mt in zip(wmod_reqs, wmod_meta) if q["rows"]]
        wmod_outs = ctx.driver([q for q, _mt in wmod_live] + inputs_reqs)
        wwrat = ctx.driver([{"op": "ww", "elems": enc_rat(ww_rat_elems)}]) if ww_rat_elems else []
        souts = ctx.driver([{"op": "svi", "elems": enc_flt(sreq_elems)}, {"op": "box_muller", "eps": float_bits(1e-10), "elems": enc_flt(bm_elems)},
                            {"op": "ww_width", "elems": enc_flt(wreq_elems)}])
        rvouts = ctx.driver(rv_reqs)
        bm_eps_outs = ctx.driver([{"op": "box_muller", "eps": float_bits(eps), "elems": enc_flt(el)} for eps, (el, _o) in sorted(bm_eps.items())])
        own_couts = [mres(m_) for m_ in ctx.driver(own_creqs)] if own_creqs else []
    except DriverBroken as e:
        ctx.ties_broken.append({"kind": "driver", "detail": str(e)[:1500]})
        bouts, wwouts, souts, rvouts, bm_eps_outs, wwrat, wmod_outs, wmod_live, own_couts = [], [], [], [], [], [], [], [], []
    for (case, ri), rm in zip(own_cmeta, own_couts):
        if ri != rm:
            ctx.disagree(case["fn"], case, ("ok", enc_rat(ri[1])), rm if rm[0] != "ok" else ("ok", enc_rat(rm[1])))
    for (q, metas_), mo in zip(wmod_live, wmod_outs):
        for (case, impl, tol), mm in zip(metas_, mo):
            ctx.stats["ww_module:rows compared"] += 1
            if isinstance(impl, tuple):                        # the real module raised: the model must raise the same kind
                if mm.get("err") != impl[1]:
                    ctx.disagree("ww_module", case, {"err": impl[1]}, mm if "ok" not in mm else float_of_bits(mm["ok"]))
                continue
            mv = float_of_bits(mm["ok"]) if "ok" in mm else None
            if mv is None or not (close(impl, mv, rel=1e-9, ab=1e-10) if tol is None else
                                  (close(impl, mv, rel=1e-9, ab=1e-10) or abs(impl - mv) <= tol)):
                ctx.disagree("ww_module", case, impl, mm if mv is None else mv)
    for (kind, names_), mo in zip(inputs_meta, wmod_outs[len(wmod_live):]):
        if list(mo) != names_:
            ctx.disagree("ww_module", {"kind": kind, "what": "inputs()"}, names_, mo)
    if wwrat:
        for (case, out, tol), mv in zip(ww_rat_meta, dec_rat(wwrat[0]["ok"])):
            if not abs(F(out) - mv) <= tol:
                ctx.disagree("ww", case, out, float(mv))
    for (eps, (el, outs_)), mo in zip(sorted(bm_eps.items()), bm_eps_outs):
        for e, got, mv in zip(el, outs_, dec_flt(mo["ok"])):
            if not (close(got[0], mv[0], ab=1e-9) and close(got[1], mv[1], ab=1e-9)):
                ctx.disagree("box_muller", {"box_muller": e, "epsilon": eps}, got, mv)
    if bouts:
        for e, got, mv in zip(breq, bmeta, dec_rat(bouts[0]["ok"])):
            if got != mv:
                ctx.disagree("bilerp", enc_rat(e), str(got), rat_str(mv))
    it = iter(wwmeta)
    for req, mo in zip(wwreqs, wwouts):
        for mm in mo:
            case, out = next(it)
            if "ok" not in mm or not close(out, float_of_bits(mm["ok"]), rel=1e-9, ab=1e-10):
                ctx.disagree("ww_full", case, out, mm if "ok" not in mm else float_of_bits(mm["ok"]))
    if souts:
        for e, got, mv in zip(sreq_elems, smeta, dec_flt(souts[0]["ok"])):
            if not close(got, mv):
                ctx.disagree("svi", e, got, mv)
        for e, got, mv in zip(bm_elems, bm_meta, dec_flt(souts[1]["ok"])):
            if not (close(got[0], mv[0], ab=1e-9) and close(got[1], mv[1], ab=1e-9)):
                ctx.disagree("box_muller", e, got, mv)
        for e, got, mv in zip(wreq_elems, wmeta, dec_flt(souts[2]["ok"])):
            if not close(got, mv):
                ctx.disagree("ww_width", e, got, mv)
    for got, mo in zip(rv_meta, rvouts):
        if not close(got, float_of_bits(mo["rvol"][0])):
            ctx.disagree("realized_vol", None, got, float_of_bits(mo["rvol"][0]))
    return ctx.finish(
        rule="clamps: dyadic x/bounds with ties on the bounds, inverted/one-sided/scalar/tensor bounds, slopes in {0,1/128,1/8,1/4,1/2,1}, "
             "both inverted_output modes and an invalid one, functions and modules; non-trivial = some bound given. "
             "WW: prev placed inside/outside/on the band, costs {0..5e-2}, a in {1/4,1,3}, one module re-used after underlier.cost changed (to 0, from 0, "
             "between positive costs); helpers on random reals; realized variance/volatility with float and tensor dt (0-dim, one interval per path: "
             "(N,) / (N,M), incl. last batch dimension == T-1); WW for European / European binary / lookback / American binary derivatives (4 and 5 input "
             "features) through forward() on concatenated rows and through a Hedger on simulated paths, every row and every (path, step) also through the model of the "
             "module (op ww_module), which is also run on rows of every length 0 .. len(inputs()) + 2; helpers outside the usual range of their arguments "
             "(bilerp weights in [-3,4], SVI parameters of any sign, box_muller u1 <= 0 / near epsilon / other epsilon / angles beyond a turn, ww_width with "
             "negative gamma and tensor cost / a); the band INFINITELY wide (European, log-moneyness 0 with time to maturity 0 and / or volatility 0, gamma = inf): "
             "previous hedge kept for cost > 0 (any previous hedge up to 1e300), +-1/2 for zero cost, next to astronomically wide finite bands (t or v = 1e-300), "
             "degenerate bands off the strike at maturity and ordinary rows, float64 and float32, through forward / width (ops ww_module forward + width, ww_full, "
             "ww_width with gamma = inf) and through a Hedger on a zero-volatility market resting on the strike / an injected Heston market visiting the strike with "
             "zero variance; distinct = sha1 of canonical case")
