"""Shared pieces for C04/C05/C06: sample generators, exact oracles (Fractions / mpmath), and the
correspondence of the criteria with the Lean model (Model/Risk.lean)."""
import math
from fractions import Fraction as F
from common import *  # noqa


def gen_sample(g, N=None, M=None, kind=None):
    """(N, M) dyadic sample as list of M columns of N Fractions"""
    N = N or g.small((1, 2, 3, 4, 5, 7, 8, 10, 16, 25, 33))
    M = M or g.small((1, 1, 1, 2, 3))
    kind0 = kind or g.weighted([("ties", 3), ("generic", 3), ("const", 1), ("heavy", 1), ("small", 1), ("large", 1), ("mixed", 2)])
    kind = kind0
    cols = []
    for _ in range(M):
        if kind0 == "mixed":      # columns of very different spread / level in one tensor
            kind = g.choice(["ties", "generic", "const", "heavy", "generic_shifted", "wide"])
        if kind == "const":
            c = g.dy(-4, 4, 3)
            col = [c] * N
        elif kind == "ties":
            pool = [g.dy(-2, 2, 2) for _ in range(max(1, N // 2))]
            col = [g.choice(pool) for _ in range(N)]
        elif kind == "heavy":
            col = [g.dy(-1, 1, 3) for _ in range(N)]
            col[g.randint(0, N - 1)] = -F(g.randint(8, 64))
        elif kind == "small":
            col = [g.dy(-4, 4, 3) / (1 << 20) for _ in range(N)]
        elif kind == "large":
            col = [g.dy(-4, 4, 3) * (1 << 20) for _ in range(N)]
        elif kind == "generic_shifted":
            off = F(g.choice([-150, 150, 40, -40]))
            col = [g.dy(-4, 4, 4) + off for _ in range(N)]
        elif kind == "wide":
            col = [g.dy(-4, 4, 3) * 1024 for _ in range(N)]
        else:
            col = [g.dy(-4, 4, 4) for _ in range(N)]
        cols.append(col)
    return dict(N=N, M=M, kind=kind0, cols=cols)


def to_tensor(torch, smp, dtype=None):
    """(N,) if M == 1 and smp.get('flat') else (N, M)"""
    dtype = dtype or torch.float64
    N, M = smp["N"], smp["M"]
    t = torch.tensor([[float(smp["cols"][m][n]) for m in range(M)] for n in range(N)], dtype=dtype)
    return t[:, 0] if (M == 1 and smp.get("flat", True)) else t


def es_exact(k, col):
    s = sorted(col)
    return -sum(s[:k]) / k


def ceil_pn(p, n):
    return math.ceil(p * n)


def qcvar_exact(lam, col):
    """exact minimum over w of w + lam*mean(relu(-w-x)^2) (Fractions): the stationarity equation
    mean(relu(-w-x)) = 1/(2 lam) is piecewise linear"""
    lam = F(lam)
    N = len(col)
    s = sorted(col)
    tgt = F(N) / (2 * lam)
    S = F(0)
    for j in range(1, N + 1):
        S += s[j - 1]
        # active set = j smallest:  sum_{i<=j} (-w - x_i) = tgt
        w = -(tgt + S) / j
        lo_ok = s[j - 1] <= -w        # x_j active (relu arg >= 0)
        hi_ok = (j == N) or (-w <= s[j])
        if lo_ok and hi_ok:
            val = w + lam * sum((max(-w - x, 0)) ** 2 for x in col) / N
            return val, w
    raise AssertionError("no stationary point")


def qobj(lam, w, col):
    return w + F(lam) * sum(max(-w - x, 0) ** 2 for x in col) / len(col)


def var_expected(p, col):
    """acceptable values of value_at_risk per the property statement.  The level arrives as a double; where it is within
    1e-9 of one of the statement's case boundaries (p = 1/N, p = 1 - 1/N, p N integral) without being exactly on it in the
    intended decimal sense (0.8 = 1 - 1/5 is 0.8000000000000000444 as a double), either adjacent case is accepted."""
    N = len(col)
    s = sorted(col)
    pq = F(p)
    pn = pq * N
    eps = F(1, 10 ** 9)
    k = round(pn)
    near_int = abs(pn - k) <= eps
    if abs(pq - F(1, N)) <= eps and pq != F(1, N):
        return "any", sorted({s[0], s[min(N - 1, max(0, int(k) - 1))]})
    if abs(pq - (1 - F(1, N))) <= eps and pq != 1 - F(1, N):
        return "any", sorted({s[-1], s[min(N - 1, max(0, int(k) - 1))]})
    if pq <= F(1, N):
        return "min", s[0]
    if pq > 1 - F(1, N):
        return "max", s[-1]
    if near_int:
        return "kth", s[int(k) - 1]
    return "between", (s[math.floor(pn) - 1], s[min(N - 1, math.ceil(pn) - 1)])


def close(a, b, rel=1e-9, ab=1e-12):
    if isinstance(a, F):
        a = float(a)
    if isinstance(b, F):
        b = float(b)
    if math.isnan(a) or math.isnan(b):
        return math.isnan(a) and math.isnan(b)
    if math.isinf(a) or math.isinf(b):
        return a == b
    return abs(a - b) <= rel * max(abs(a), abs(b)) + ab
