"""C05 — Risk-measure values equal their mathematical definitions.

correspondence: functional forms and loss modules (shapes (N,), (N,M), (N,M,K), explicit dim, target
subtraction) vs the Lean model (Model/Risk.lean): exact at Rat for expected shortfall / topp /
value at risk / OCE on dyadic samples, Float carrier for entropic / isoelastic / quadratic CVaR.
predicate: independent exact oracles in Python Fractions / mpmath (definitions of the property).
"""
import math
from fractions import Fraction as F
from common import *  # noqa
from risk_common import *  # noqa


def feq(got, exact):
    """float result vs exact rational: equal up to the rounding of a mean (division by a
    non-power-of-two count): 4 ulp"""
    got, exact = F(got), F(exact)
    return got == exact or abs(got - exact) <= F(1, 2 ** 50) * max(1, abs(exact))


def sexp(x):
    try:
        return math.exp(x)
    except OverflowError:
        return math.inf


def mp_erm(a, col):
    import mpmath as mp
    mp.mp.dps = 50
    return float(mp.log(sum(mp.exp(-mp.mpf(a) * mp.mpf(float(x))) for x in col) / len(col)) / mp.mpf(a))


def var_request(pf, N, shifted):
    """driver request of value_at_risk: the branch is decided in floats exactly as the code does"""
    if pf <= 1 / N:
        br, lo, frac = "min", 0, F(0)
    elif pf > 1 - 1 / N:
        br, lo, frac = "max", 0, F(0)
    else:
        q = (pf - (1 / N)) / (1 - (1 / N))
        pos = q * (N - 1)
        lo = int(math.floor(pos))
        br, frac = "q", F(pos) - lo
    return {"op": "var", "branch": br, "lo": lo, "frac": rat_str(frac), "cols": enc_rat(shifted)}


def qcvar_request(torch, lam, shifted):
    """driver request of quadratic_cvar (shared bisection over the columns, precision as the code computes it) or None"""
    N = len(shifted[0])
    try:
        xt = torch.tensor([[float(col[i]) for col in shifted] for i in range(N)], dtype=torch.float64)
        cen = xt - xt.mean(dim=0, keepdim=True)
        lower = torch.amin(-cen, dim=0, keepdim=True) - 1e-8
        upper = torch.amax(-cen, dim=0, keepdim=True) + 1e-8
        precision = 1e-6 * 10 ** int(math.log10((upper - lower).amax()))
    except Exception:  # noqa
        return None, None
    return {"op": "qcvar", "lam": float_bits(lam), "tol": float_bits(1e-8), "precision": float_bits(precision),
            "max_iter": 100000, "cols": enc_flt([[float(z) for z in col] for col in shifted])}, precision


# ---------------- whole tensors through the tensor level of the model (Model/CritTensor.lean, driver op "crit_tensor"): the input
# tensor of any shape, the target as the caller passes it (none, Python number, 0-dim / per-column / per-path / full tensor), the
# form (module | functional with its dim, None = the function's default) -> shape and values of the result, or the error kind
CT_RAT = ("es", "var", "oce")


def ct_tensor(t, carrier):
    vals = [float(v) for v in t.detach().reshape(-1).tolist()]
    return {"shape": list(t.shape), "data": enc_rat([F(v) for v in vals]) if carrier == "rat" else enc_flt(vals)}


def ct_add(torch, reqs, metas, case, which, par, x, target, form, dim, st, v):
    """queue one call for "crit_tensor"; `par` = p | a | lam | [u-kind, a, b, w]; (st, v) = what the implementation returned"""
    if x.dtype != torch.float64 or (torch.is_tensor(target) and target.dtype != torch.float64):
        return
    carrier = "rat" if which in CT_RAT else "float"
    aux = None
    if which in ("es", "var", "erm", "eloss"):
        spec = [which, float_bits(float(par))]
    elif which == "iso":
        spec = ["iso", float_bits(float(par)), float(par) == 1.0]
    elif which == "oce":
        spec = ["oce", list(par[:3]), par[3]]
    else:   # quadratic CVaR: the precision is derived from input - target along the reduced dimension exactly as the code does
        try:
            pl = (x if target is None else x - target).detach()
            d = 0 if form != "functional" else dim
            if d is None:
                pl, d = pl.flatten(), 0
            cen = pl - pl.mean(dim=d, keepdim=True)
            lower = torch.amin(-cen, dim=d, keepdim=True) - 1e-8
            upper = torch.amax(-cen, dim=d, keepdim=True) + 1e-8
            precision = 1e-6 * 10 ** int(math.log10((upper - lower).amax()))
        except Exception:  # noqa
            return
        spec = ["qcvar", float_bits(float(par)), float_bits(1e-8), float_bits(precision), 100000]
        aux = (float(par), precision)
    if target is None:
        tj = None
    elif torch.is_tensor(target):
        tj = ct_tensor(target, carrier)
    else:
        tj = {"number": rat_str(F(target)) if carrier == "rat" else float_bits(float(target))}
    if st == "ok":
        impl = ("ok", list(v.shape), [float(z) for z in v.detach().reshape(-1).tolist()])
    else:
        impl = ("err", v)
    rq = {"op": "crit_tensor", "carrier": carrier, "crit": spec, "form": form, "dim": dim, "target": tj}
    rq.update(ct_tensor(x, carrier))
    reqs.append(rq)
    metas.append(("crit_tensor", case | {"crit_tensor": {"criterion": which, "form": form, "dim": dim, "shape": list(x.shape),
                                                         "target": "none" if target is None else (list(target.shape) if torch.is_tensor(target) else repr(target))}},
                  (which, aux, impl)))


def ct_check(ctx, case, info, mo):
    """shape exactly; values at the tolerances of the one-column ops"""
    which, aux, impl = info
    if impl[0] == "err":
        if mo.get("err") != impl[1]:
            ctx.disagree("crit_tensor", case, list(impl), mo, note="error kind")
        return
    if "ok" not in mo:
        ctx.disagree("crit_tensor", case, {"shape": impl[1], "values": impl[2][:8]}, mo, note="the model raises")
        return
    shape, data = mo["ok"]["shape"], mo["ok"]["data"]
    got = impl[2]
    if shape != impl[1] or len(data) != len(got):
        ctx.disagree("crit_tensor", case, {"shape": impl[1], "values": got[:8]}, {"shape": shape, "values": data[:8]}, note="shape")
        return
    if which in ("es", "oce"):
        ok = all(math.isfinite(a) and feq(a, b) for a, b in zip(got, dec_rat(data)))
    elif which == "var":
        ok = all(close(a, float(b), 1e-12, 1e-15) for a, b in zip(got, dec_rat(data)))
    elif which == "erm":
        ok = all(close(a, b, 1e-10, 1e-12) for a, b in zip(got, dec_flt(data)))
    elif which in ("eloss", "iso"):
        ok = all(close(a, b, 1e-10) for a, b in zip(got, dec_flt(data)))
    else:
        lam, prec = aux
        tol = lam * (4 * prec) ** 2 + 4 * prec * 1e-3
        ok = all(abs(a - b) <= tol + 1e-9 * max(1.0, abs(a)) for a, b in zip(got, dec_flt(data)))
    if not ok:
        ctx.disagree("crit_tensor", case, {"shape": impl[1], "values": got[:8]}, {"shape": shape, "values": data[:8]}, note="value")



def dim_slices(vals, shape, d):
    """pure Python: the samples of a row-major tensor (flat list `vals`) along dimension `d` (negative = counted from the end), in
    row-major order of the remaining multi-index -> (remaining shape, list of samples)"""
    import itertools
    r = len(shape)
    d = d % r
    strides = [1] * r
    for i in range(r - 2, -1, -1):
        strides[i] = strides[i + 1] * shape[i + 1]
    rest = [i for i in range(r) if i != d]
    out = []
    for idx in itertools.product(*[range(shape[i]) for i in rest]):
        off = sum(j * strides[i] for i, j in zip(rest, idx))
        out.append([vals[off + t * strides[d]] for t in range(shape[d])])
    return [shape[i] for i in rest], out


def defn_ok(which, par, col, gv, single, prec=None, oce=None):
    """is `gv` the value the definition of criterion `which` prescribes for the sample `col` (Fractions)?  -> (ok, detail, known-key or None).
    `single`: the implementation computed in single precision (integer P&L promoted by torch to float32: unit roundoff 6e-8, at most
    a few dozen terms, so 1e-5 relative); otherwise the tolerances of the double-precision predicates above"""
    N = len(col)
    if not math.isfinite(gv) and which != "eloss":
        return False, {"impl": gv}, None
    if which == "es":
        pn = F(par) * N
        border = abs(pn - round(pn)) <= F(1, 10 ** 9) and pn != round(pn)
        ks = {math.ceil(par * N)} if not border else {math.floor(pn), math.ceil(pn), int(round(pn))} - {0}
        exps = [es_exact(kk, col) for kk in ks]
        ok = any((close(gv, float(e_), 1e-5, 1e-6) if single else feq(F(gv), e_)) for e_ in exps)
        return ok, {"impl": gv, "definition": float(exps[0])}, None
    if which == "var":
        kind_, exp = var_expected(par, col)
        tolv = (1e-5 if single else 1e-12) * max(1.0, max(abs(float(z)) for z in col))
        ok = (kind_ in ("min", "max", "kth") and abs(gv - float(exp)) <= tolv) or \
             (kind_ == "between" and float(exp[0]) - tolv <= gv <= float(exp[1]) + tolv) or \
             (kind_ == "any" and any(abs(gv - float(e_)) <= tolv for e_ in exp))
        return ok, {"impl": gv, "expected": str(exp), "level-class": kind_}, None
    if which == "erm":
        exp = mp_erm(par, col)
        ok = close(gv, exp, 1e-5, 1e-5 / min(1.0, par)) if single else close(gv, exp, 1e-9, 1e-9 * max(1.0, abs(exp)) * 1e-3)
        return ok, {"impl": gv, "definition": exp}, None
    if which == "eloss":
        exp = sum(sexp(-par * float(z)) for z in col) / N
        return close(gv, exp, 1e-5 if single else 1e-10), {"impl": gv, "definition": exp}, None
    if which == "iso":
        exp = -sum((math.log(float(z)) if par == 1.0 else float(z) ** (1 - par)) for z in col) / N
        return close(gv, exp, 1e-5 if single else 1e-10, 1e-6 if single else 1e-12), {"impl": gv, "definition": exp}, None
    if which == "qcvar":
        exact, wstar = qcvar_exact(par, col)
        tol = par * (10 * prec) ** 2 + (1e-5 if single else 1e-9) * max(1.0, abs(float(exact)))
        ok = abs(gv - float(exact)) <= tol
        known = None
        if not ok and float(max(col)) - float(sum(col) / N) < 1 / (2 * par):
            known = "quadratic_cvar:bracket-misses-root"
        return ok, {"impl": gv, "minimum": float(exact), "w*": float(wstar)}, known
    w0, uf = oce
    exp = w0 - sum(uf(z + w0) for z in col) / N
    return (close(gv, float(exp), 1e-5, 1e-6) if single else feq(F(gv), exp)), {"impl": gv, "definition": float(exp)}, None


def qprec(cols):
    """precision of the bisection shared by all samples of one quadratic_cvar call (as in the predicates above: from the widest sample)"""
    wide = max(float(max(col) - min(col)) for col in cols) + 1e-8
    return 1e-6 * 10 ** int(math.log10(2 * wide))


DIM_SHAPES = [(2, 3, 4), (3, 2, 5), (3, 3, 4), (4, 2, 2), (2, 1, 3), (2, 3, 2, 4), (3, 2, 2, 2)]

REUSE_NAME = {"es": "expected_shortfall", "var": "value_at_risk", "erm": "entropic_risk_measure", "eloss": "entropic_loss",
              "iso": "isoelastic", "qcvar": "quadratic_cvar", "oce": "oce"}


def check(ctx):
    torch, pfhedge = import_impl()
    import pfhedge.nn.functional as fnl
    import pfhedge.nn as nn
    g = ctx.gen
    ctx.lean_gate()
    n = 1500 if ctx.tier == "quick" else 15000
    reqs, metas = [], []
    for it in range(n):
        which = g.choice(["es", "var", "erm", "eloss", "iso", "qcvar", "oce"])
        smp = gen_sample(g)
        if g.chance(0.15) and smp["M"] <= 3:      # (N, M, K) trailing shape
            smp3 = True
        else:
            smp3 = False
        N, M = smp["N"], smp["M"]
        dtype = torch.float64
        x = to_tensor(torch, smp)
        if smp3:
            x = x.reshape(N, -1, 1) if x.dim() == 2 else x.reshape(N, 1, 1)
        tgt = g.choice([None, None, F(1, 2), "tensor"])
        if tgt == "tensor":
            tcols = [[g.dy(-1, 1, 2) for _ in range(N)] for _ in range(M)]
        shifted = [[c[i] - (0 if tgt is None else (tgt if tgt != "tensor" else tcols[m][i])) for i in range(N)] for m, c in enumerate(smp["cols"])]

        def tgt_tensor():
            if tgt is None:
                return 0.0
            if tgt != "tensor":
                return float(tgt)
            t = torch.tensor([[float(tcols[m][i]) for m in range(M)] for i in range(N)], dtype=dtype)
            t = t[:, 0] if x.dim() == 1 else t
            return t.reshape(x.shape)
        case = {"which": which, "N": N, "M": M, "kind": smp["kind"], "cols": enc_rat(smp["cols"]), "target": str(tgt), "dim3": smp3}
        ctx.stats[f"which={which}"] += 1
        ctx.stats[f"kind={smp['kind']}"] += 1
        ctx.stats[f"shape={'(N,M,K)' if smp3 else ('(N,)' if x.dim() == 1 else '(N,M)')}"] += 1

        def flat(v):
            return [float(z) for z in v.reshape(-1).tolist()]
        if which == "es":
            p = g.choice([F(1, 10), F(1, 4), F(1, 2), F(3, 10), F(1), F(1, N), F(g.randint(1, N), N), F(33, 100), F(999, 1000)])
            pf = float(p)
            k = math.ceil(pf * N)
            pn = F(pf) * N
            border = abs(pn - round(pn)) <= F(1, 10 ** 9) and pn != round(pn)
            use_mod = g.chance(0.5)
            if use_mod:
                st, v, mut = call_impl(nn.ExpectedShortfall(pf), x, tgt_tensor())
            else:
                st, v, mut = call_impl(fnl.expected_shortfall, x - tgt_tensor(), pf, dim=0)
            case |= {"p": pf, "k": k, "module": use_mod}
            ctx.case(case, True, tag="es")
            ctx.traces += 1
            ct_add(torch, reqs, metas, case, "es", pf, x, None if tgt is None else tgt_tensor(), "module" if use_mod else "functional", None if use_mod else 0, st, v)
            if st != "ok":
                ctx.fail("expected shortfall raised on a valid sample", case, key="expected_shortfall:error", detail=v)
                continue
            if not all(math.isfinite(z) for z in flat(v)):
                ctx.fail("expected shortfall is not finite on a finite sample", case, key="expected_shortfall:nonfinite", detail=flat(v))
                continue
            got = [F(z) for z in flat(v)]
            ks = {k} if not border else {math.floor(pn), math.ceil(pn), int(round(pn))} - {0}
            exps = [[es_exact(kk, c) for c in shifted] for kk in ks]
            if not any(all(feq(a_, b_) for a_, b_ in zip(got, e_)) for e_ in exps):
                ctx.fail("expected shortfall differs from minus the mean of the ceil(pN) worst outcomes", case,
                         key="expected_shortfall:value", detail={"impl": enc_rat(got), "definition": enc_rat(exps[0])})
            reqs.append({"op": "es", "k": k, "cols": enc_rat(shifted)})
            metas.append(("es", case, got))
            # topp: values and indices
            if x.dim() == 1 and tgt is None:
                tp = fnl.topp(x, pf, largest=False)
                vals = [F(z) for z in tp.values.tolist()]
                if sorted(vals) != sorted(smp["cols"][0])[:k] or any(F(float(x[i])) != vv for i, vv in zip(tp.indices.tolist(), vals)):
                    ctx.fail("topp does not return the ceil(pN) smallest values with indices pointing at them", case, key="topp:value")
        elif which == "var":
            p = g.choice([F(1, 10), F(1, 4), F(1, 2), F(3, 10), F(1), F(1, N), F(g.randint(1, N), N), F(33, 100), F(999, 1000), F(1, 1000)])
            pf = float(p)
            st, v, mut = call_impl(fnl.value_at_risk, x - tgt_tensor(), pf, dim=0)
            case |= {"p": pf}
            ctx.case(case, True, tag="var")
            ctx.traces += 1
            ct_add(torch, reqs, metas, case, "var", pf, x, None if tgt is None else tgt_tensor(), "functional", 0, st, v)
            if st != "ok":
                ctx.fail("value at risk raised on a valid sample", case, key="value_at_risk:error", detail=v)
                continue
            got = flat(v)
            for col, gv in zip(shifted, got):
                kind_, exp = var_expected(pf, col)
                ctx.stats[f"var:{kind_}"] += 1
                # torch.quantile interpolates between neighbouring order statistics with a weight that carries
                # float rounding, so the tolerance is relative to the spread of the sample, not to the expected value
                tolv = 1e-12 * max(1.0, max(abs(float(z)) for z in col))
                okv = (kind_ in ("min", "max", "kth") and abs(gv - float(exp)) <= tolv) or \
                      (kind_ == "between" and float(exp[0]) - tolv <= gv <= float(exp[1]) + tolv) or \
                      (kind_ == "any" and any(abs(gv - float(e_)) <= tolv for e_ in exp))
                if not okv:
                    ctx.fail("value at risk differs from the k-th worst outcome / min / max prescribed for this level", case,
                             key=f"value_at_risk:{kind_}", detail={"impl": gv, "expected": str(exp)})
                    break
            # model: branch decided in floats exactly as the code does
            nn_ = N
            if pf <= 1 / nn_:
                br, lo, frac = "min", 0, F(0)
            elif pf > 1 - 1 / nn_:
                br, lo, frac = "max", 0, F(0)
            else:
                q = (pf - (1 / nn_)) / (1 - (1 / nn_))
                pos = q * (nn_ - 1)
                lo = int(math.floor(pos))
                br, frac = "q", F(pos) - lo
            reqs.append({"op": "var", "branch": br, "lo": lo, "frac": rat_str(frac), "cols": enc_rat(shifted)})
            metas.append(("var", case, got))
        elif which in ("erm", "eloss"):
            a = g.choice([0.25, 1.0, 2.0, 1 / 64, 8.0])
            big = g.chance(0.1)
            cols = shifted
            xx = x - tgt_tensor()
            if big:      # |a x| up to 1e4: must stay finite (stabilised evaluation)
                cols = [[c * 1000 for c in col] for col in shifted]
                xx = xx * 1000
            if which == "erm":
                use_mod = g.chance(0.5) and not big
                if use_mod:
                    st, v, mut = call_impl(nn.EntropicRiskMeasure(a), x, tgt_tensor())
                else:
                    st, v, mut = call_impl(fnl.entropic_risk_measure, xx, a)
            else:
                st, v, mut = call_impl(nn.EntropicLoss(a), xx)
            case |= {"a": a, "big": big}
            ctx.case(case, True, tag=which)
            ctx.traces += 1
            if which == "erm" and use_mod:
                ct_add(torch, reqs, metas, case, "erm", a, x, None if tgt is None else tgt_tensor(), "module", None, st, v)
            elif not (which == "eloss" and big):
                ct_add(torch, reqs, metas, case, which, a, xx, None, "functional" if which == "erm" else "module", None, st, v)
            if st != "ok":
                ctx.fail(f"{which} raised on a valid sample", case, key=f"{which}:error", detail=v)
                continue
            got = flat(v)
            if which == "erm":
                for col, gv in zip(cols, got):
                    if not math.isfinite(gv):
                        ctx.fail("entropic risk measure overflows on a finite sample", case, key="entropic_risk_measure:overflow", detail=gv)
                        break
                    exp = mp_erm(a, col)
                    if not close(gv, exp, 1e-9, 1e-9 * max(1.0, abs(exp)) * 1e-3):
                        ctx.fail("entropic risk measure differs from (1/a) log mean exp(-a x)", case, key="entropic_risk_measure:value",
                                 detail={"impl": gv, "definition": exp})
                        break
            elif not big:
                for col, gv in zip(cols, got):
                    exp = sum(sexp(-a * float(z)) for z in col) / len(col)
                    if not close(gv, exp, 1e-10):
                        ctx.fail("entropic loss differs from mean exp(-a x)", case, key="entropic_loss:value", detail={"impl": gv, "definition": exp})
                        break
            if not (which == "eloss" and big):
                reqs.append({"op": "erm", "a": float_bits(a), "cols": enc_flt([[float(z) for z in col] for col in cols])})
                metas.append((which, case, got))
        elif which == "iso":
            a = g.choice([1.0, 0.5, 0.25, 0.75])
            pos = [[abs(z) + F(1, 8) for z in col] for col in shifted]
            xx = torch.tensor([[float(pos[m][i]) for m in range(M)] for i in range(N)], dtype=dtype)
            st, v, mut = call_impl(nn.IsoelasticLoss(a), xx)
            case |= {"a": a}
            ctx.case(case, True, tag="iso")
            ctx.traces += 1
            ct_add(torch, reqs, metas, case, "iso", a, xx, None, "module", None, st, v)
            if st != "ok":
                ctx.fail("isoelastic loss raised on a positive sample", case, key="isoelastic:error", detail=v)
                continue
            got = flat(v)
            for col, gv in zip(pos, got):
                exp = -sum((math.log(float(z)) if a == 1.0 else float(z) ** (1 - a)) for z in col) / len(col)
                if not close(gv, exp, 1e-10):
                    ctx.fail("isoelastic loss differs from minus mean utility", case, key="isoelastic:value", detail={"impl": gv, "definition": exp})
                    break
            reqs.append({"op": "iso", "a": float_bits(a), "a_is_one": a == 1.0, "cols": enc_flt([[float(z) for z in col] for col in pos])})
            metas.append(("iso", case, got))
        elif which == "qcvar":
            lam = g.choice([1.0, 2.0, 10.0, 64.0])
            use_mod = g.chance(0.5)
            xx = x - tgt_tensor()
            if use_mod:
                st, v, mut = call_impl(nn.QuadraticCVaR(lam), x, tgt_tensor())
            else:
                st, v, mut = call_impl(fnl.quadratic_cvar, xx, lam, dim=0)
            case |= {"lam": lam, "module": use_mod}
            ctx.case(case, True, tag="qcvar")
            ctx.traces += 1
            ct_add(torch, reqs, metas, case, "qcvar", lam, x, None if tgt is None else tgt_tensor(), "module" if use_mod else "functional", None if use_mod else 0, st, v)
            if st != "ok":
                ctx.fail("quadratic CVaR raised on a valid sample", case, key="quadratic_cvar:error", detail=v)
                continue
            got = flat(v)
            for col, gv in zip(shifted, got):
                exact, wstar = qcvar_exact(lam, col)
                spread = float(max(col) - min(col)) + 1e-8
                prec = 1e-6 * 10 ** int(math.log10(2 * spread)) if spread > 0 else 1e-6
                tol = lam * (10 * prec) ** 2 + 1e-9 * max(1.0, abs(float(exact)))
                if not (abs(gv - float(exact)) <= tol):
                    rng_small = float(max(col)) - float(sum(col) / len(col)) < 1 / (2 * lam)
                    key = "quadratic_cvar:bracket-misses-root" if rng_small else "quadratic_cvar:value"
                    ctx.fail("quadratic CVaR is not the minimum over w of w + lam*mean(max(-w-x,0)^2): some w does better", case,
                             key=key, detail={"impl": gv, "minimum": float(exact), "w*": float(wstar)})
                    break
            # model: shared bisection over the columns, precision as the code computes it
            base = [sum(float(z) for z in col) / len(col) for col in shifted]
            try:
                xt = xx.reshape(N, -1)
                b = xt.mean(dim=0, keepdim=True)
                cen = xt - b
                lower = torch.amin(-cen, dim=0, keepdim=True) - 1e-8
                upper = torch.amax(-cen, dim=0, keepdim=True) + 1e-8
                precision = 1e-6 * 10 ** int(math.log10((upper - lower).amax()))
            except Exception:  # noqa
                precision = None
            if precision is not None:
                reqs.append({"op": "qcvar", "lam": float_bits(lam), "tol": float_bits(1e-8), "precision": float_bits(precision),
                             "max_iter": 100000, "cols": enc_flt([[float(z) for z in col] for col in shifted])})
                metas.append(("qcvar", case | {"precision": precision}, got))
        else:   # OCE with dyadic quadratic / affine utilities: exact
            uk = g.choice(["quad", "affine"])
            ua, ub = g.choice([F(-1, 2), F(-1), F(-1, 4)]), g.choice([F(1), F(1, 2), F(2)])
            w0 = g.dy(-1, 1, 2)
            if uk == "quad":
                u = lambda t_, a=float(ua), b=float(ub): a * t_ * t_ + b * t_
                uf = lambda z: ua * z * z + ub * z
            else:
                u = lambda t_, a=float(ub), b=float(ua): a * t_ + b
                uf = lambda z: ub * z + ua
            from pfhedge.nn.modules.loss import OCE
            mod = OCE(u)
            with torch.no_grad():
                mod.w.copy_(torch.tensor(float(w0)))
            mod = mod.to(torch.float64)
            st, v, mut = call_impl(mod, x, tgt_tensor())
            case |= {"u": [uk, rat_str(ua if uk == "quad" else ub), rat_str(ub if uk == "quad" else ua)], "w": rat_str(w0)}
            ctx.case(case, True, tag="oce")
            ctx.traces += 1
            if smp["kind"] not in ("small", "large"):
                ct_add(torch, reqs, metas, case, "oce", case["u"] + [rat_str(w0)], x, None if tgt is None else tgt_tensor(), "module", None, st,
                       v.detach() if st == "ok" else v)
            if st != "ok":
                ctx.fail("OCE raised on a valid sample", case, key="oce:error", detail=v)
                continue
            if not all(math.isfinite(z) for z in flat(v.detach())):
                ctx.fail("OCE is not finite on a finite sample", case, key="oce:nonfinite")
                continue
            got = [F(z) for z in flat(v.detach())]
            exp = [w0 - sum(uf(z + w0) for z in col) / len(col) for col in shifted]
            if smp["kind"] in ("small", "large"):
                if not all(close(float(a_), float(b_), 1e-9) for a_, b_ in zip(got, exp)):
                    ctx.fail("OCE differs from w - mean u(x + w)", case, key="oce:value", detail={"impl": enc_rat(got), "definition": enc_rat(exp)})
            else:
                if not all(feq(a_, b_) for a_, b_ in zip(got, exp)):
                    ctx.fail("OCE differs from w - mean u(x + w)", case, key="oce:value", detail={"impl": enc_rat(got), "definition": enc_rat(exp)})
                reqs.append({"op": "oce", "u": case["u"], "w": rat_str(w0), "cols": enc_rat(shifted)})
                metas.append(("oce", case, got))
        if mut:
            ctx.mutated(which, mut, case)
    # ---------------- dim=None: the functional forms reduce over ALL entries (the sample is the flattened tensor)
    for it in range(60 if ctx.tier == "quick" else 900):
        smp = gen_sample(g, M=g.choice([2, 3]))
        if smp["M"] < 2:
            continue
        x = to_tensor(torch, smp)
        allv = [c[i] for i in range(smp["N"]) for c in smp["cols"]]      # row-major flattening of the (N, M) tensor
        nall = len(allv)
        which = g.choice(["es", "var", "qcvar"])
        case = {"which": which, "dim": None, "N": smp["N"], "M": smp["M"], "kind": smp["kind"], "cols": enc_rat(smp["cols"])}
        ctx.case(case, True, tag=f"{which}:dim=None")
        ctx.traces += 1
        if which == "es":
            pf = float(g.choice([F(1, 10), F(1, 2), F(1), F(1, nall), F(g.randint(1, nall), nall), F(33, 100)]))
            st, v, _ = call_impl(fnl.expected_shortfall, x, pf)
            ct_add(torch, reqs, metas, case | {"p": pf}, "es", pf, x, None, "functional", None, st, v)
            pn = F(pf) * nall
            ks = {math.ceil(pf * nall)} if not (abs(pn - round(pn)) <= F(1, 10 ** 9) and pn != round(pn)) else {math.floor(pn), math.ceil(pn), int(round(pn))} - {0}
            if st != "ok" or v.dim() != 0 or not math.isfinite(float(v)) or not any(feq(F(float(v)), es_exact(kk, allv)) for kk in ks):
                ctx.fail("expected_shortfall(dim=None) differs from minus the mean of the ceil(p n) worst entries of the whole tensor", case | {"p": pf},
                         key="expected_shortfall:dim-none", detail=str(v)[:100])
        elif which == "var":
            pf = float(g.choice([F(1, 10), F(1, 2), F(1), F(1, nall), F(g.randint(1, nall), nall), F(33, 100), F(999, 1000)]))
            st, v, _ = call_impl(fnl.value_at_risk, x, pf)
            ct_add(torch, reqs, metas, case | {"p": pf}, "var", pf, x, None, "functional", None, st, v)
            kind_, exp = var_expected(pf, allv)
            tolv = 1e-12 * max(1.0, max(abs(float(z)) for z in allv))
            okv = st == "ok" and v.dim() == 0 and (
                (kind_ in ("min", "max", "kth") and abs(float(v) - float(exp)) <= tolv) or
                (kind_ == "between" and float(exp[0]) - tolv <= float(v) <= float(exp[1]) + tolv) or
                (kind_ == "any" and any(abs(float(v) - float(e_)) <= tolv for e_ in exp)))
            if not okv:
                ctx.fail("value_at_risk(dim=None) differs from the order statistic of the whole tensor prescribed for this level", case | {"p": pf},
                         key="value_at_risk:dim-none", detail=str(v)[:100])
        else:
            lam = g.choice([1.0, 2.0, 10.0])
            st, v, _ = call_impl(fnl.quadratic_cvar, x, lam)
            ct_add(torch, reqs, metas, case | {"lam": lam}, "qcvar", lam, x, None, "functional", None, st, v)
            exact, wstar = qcvar_exact(lam, allv)
            spread = float(max(allv) - min(allv)) + 1e-8
            prec = 1e-6 * 10 ** int(math.log10(2 * spread)) if spread > 0 else 1e-6
            tol = lam * (10 * prec) ** 2 + 1e-9 * max(1.0, abs(float(exact)))
            if st != "ok" or v.dim() != 0 or not (abs(float(v) - float(exact)) <= tol):
                rng_small = float(max(allv)) - float(sum(allv) / nall) < 1 / (2 * lam)
                ctx.fail("quadratic_cvar(dim=None) is not the minimum over w for the whole tensor as one sample", case | {"lam": lam},
                         key="quadratic_cvar:bracket-misses-root" if rng_small else "quadratic_cvar:dim-none", detail=str(v)[:100])
    # ---------------- isoelastic utility / loss over the whole admissible wealth range: tiny positive (1e-12 .. 1e-6) and huge
    # (1e6 .. 1e12) wealth next to ordinary values; the definition (log x for a = 1, x^(1-a) for a < 1) in 50 digits is the oracle
    import mpmath as mp
    for it in range(160 if ctx.tier == "quick" else 2400):
        a = g.choice([1.0, 1.0, 0.5, 0.25, 0.75])
        N, M = g.small((1, 2, 3, 4, 5, 8, 16, 33)), g.small((1, 1, 2, 3))
        rng = g.choice(["tiny", "tiny", "huge", "mixed"])

        def wealth():
            r = rng if rng != "mixed" else g.choice(["tiny", "huge", "ordinary"])
            if r == "ordinary":
                return g.r.uniform(0.1, 10.0)
            e = g.r.uniform(6.0, 12.0)
            return 10.0 ** (-e if r == "tiny" else e)
        form = g.choice(["module", "module_target", "functional"])
        tval = g.choice([0.5, -2.0, 1e-9, 1024.0]) if form == "module_target" else 0.0
        raw = [[wealth() for _ in range(N)] for _ in range(M)]                 # M columns of N paths
        inp = [[w + tval for w in col] for col in raw]
        pos = [[w - tval for w in col] for col in inp]                       # what "input - target" is in float64
        if any(w <= 0.0 for col in pos for w in col):
            continue
        shape3 = g.chance(0.2)
        xx = torch.tensor([[inp[m][i] for m in range(M)] for i in range(N)], dtype=torch.float64)
        if M == 1 and g.chance(0.5):
            xx = xx[:, 0]
        elif shape3:
            xx = xx.reshape(N, M, 1)
        case = {"which": "iso", "a": a, "range": rng, "form": form, "target": tval, "shape": list(xx.shape), "cols": inp}
        ctx.case(case, True, tag=f"iso:{rng}")
        ctx.stats[f"iso-extreme:a={a}"] += 1
        ctx.stats[f"iso-extreme:form={form}"] += 1
        ctx.traces += 1
        mp.mp.dps = 50

        def util(z):
            return mp.log(mp.mpf(z)) if a == 1.0 else mp.power(mp.mpf(z), mp.mpf(1.0 - a))
        if form == "functional":
            st, v, mut = call_impl(fnl.isoelastic_utility, xx, a)
            if st != "ok" or tuple(v.shape) != tuple(xx.shape):
                ctx.fail("isoelastic_utility raised / changed the shape on a positive sample", case, key="isoelastic_utility:wealth-range:error",
                         detail=v if st != "ok" else list(v.shape))
                continue
            got_u = v.reshape(N, M).tolist()
            bad = [(pos[m][i], got_u[i][m], float(util(pos[m][i]))) for m in range(M) for i in range(N)
                   if not close(got_u[i][m], float(util(pos[m][i])), 1e-13, 1e-15)]
            if bad:
                ctx.fail("isoelastic_utility(x, a) differs from log x (a = 1) / x^(1-a) (a < 1) for tiny or huge positive x", case,
                         key="isoelastic_utility:wealth-range:value", detail={"x": bad[0][0], "impl": bad[0][1], "definition": bad[0][2]})
                continue
            got = flat(-v.mean(0))
        else:
            if form == "module":
                tobj = None
                st, v, mut = call_impl(nn.IsoelasticLoss(a), xx)
            else:
                tobj = g.choice([tval, torch.tensor(tval, dtype=torch.float64)])
                st, v, mut = call_impl(nn.IsoelasticLoss(a), xx, tobj)
            ct_add(torch, reqs, metas, case, "iso", a, xx, tobj, "module", None, st, v)
            if st != "ok":
                ctx.fail("isoelastic loss raised on a positive sample", case, key="isoelastic:wealth-range:error", detail=v)
                continue
            got = flat(v)
        if mut:
            ctx.mutated("iso", mut, case)
        for col, gv in zip(pos, got):
            exp = float(-sum(util(z) for z in col) / len(col))
            if not close(gv, exp, 1e-10):
                ctx.fail("isoelastic loss differs from minus the mean of log x (a = 1) / x^(1-a) (a < 1) for tiny or huge positive wealth", case,
                         key="isoelastic:wealth-range:value", detail={"impl": gv, "definition": exp, "smallest wealth": min(col)})
                break
        if form == "module":
            reqs.append({"op": "iso", "a": float_bits(a), "a_is_one": a == 1.0, "cols": enc_flt(pos)})
            metas.append(("iso", case, got))
    # ---------------- sessions: the SAME P&L tensor and the SAME target object are handed to several evaluations in a row (the same
    # criterion again, or one criterion after another, as when several risk figures of one portfolio are reported).  Every returned value
    # must be the definition evaluated on input - target of the data as the caller built it.  Targets: none, Python float / int,
    # 0-dim tensor, full tensor, one amount per column (broadcast over the paths), one amount per path (broadcast over the columns);
    # module (also a deep copy of it) and functional forms (dim=0 / default dim; without a target they receive the caller's tensor
    # itself); samples that require grad (leaf tensors) included
    import copy
    import warnings
    warnings.filterwarnings("ignore", message="Converting a tensor with requires_grad=True to a scalar")
    from pfhedge.nn.modules.loss import OCE
    for it in range(170 if ctx.tier == "quick" else 2500):
        positive = g.chance(0.25)
        N, M = g.small((1, 2, 3, 4, 5, 7, 8, 10, 16, 25)), g.small((1, 1, 2, 3))
        kind = g.choice(["ties", "ties", "generic", "heavy", "mixed", "const"])
        cols = gen_sample(g, N=N, M=M, kind=kind)["cols"]
        if positive:
            cols = [[abs(z) + F(17, 8) for z in col] for col in cols]
        shp = "N" if (M == 1 and g.chance(0.6)) else ("NM1" if g.chance(0.2) else "NM")
        x = torch.tensor([[float(cols[m][i]) for m in range(M)] for i in range(N)], dtype=torch.float64)
        x = x[:, 0].contiguous() if shp == "N" else (x.reshape(N, M, 1) if shp == "NM1" else x)
        tk = g.choice(["none", "float", "int", "scalar_tensor", "full", "full"] + (["column", "path"] if shp != "N" else []))
        if tk == "none":
            tq, target = [[F(0)] * N for _ in range(M)], None
        elif tk in ("float", "int", "scalar_tensor"):
            tv = g.choice([F(1), F(-2), F(1)]) if tk == "int" else g.choice([F(1, 2), F(-3, 4), F(2), F(1, 4)])
            tq = [[tv] * N for _ in range(M)]
            target = int(tv) if tk == "int" else (float(tv) if tk == "float" else torch.tensor(float(tv), dtype=torch.float64))
        elif tk == "column":
            tc = [g.dy(-2, 2, 2) for _ in range(M)]
            tq = [[tc[m]] * N for m in range(M)]
            target = torch.tensor([float(v) for v in tc], dtype=torch.float64).reshape(x.shape[1:])
        elif tk == "path":
            tp = [g.dy(-2, 2, 2) for _ in range(N)]
            tq = [list(tp) for _ in range(M)]
            target = torch.tensor([float(v) for v in tp], dtype=torch.float64).reshape((N,) + (1,) * (x.dim() - 1))
        else:
            tq = [[g.dy(-2, 2, 2) for _ in range(N)] for _ in range(M)]
            target = torch.tensor([[float(tq[m][i]) for m in range(M)] for i in range(N)], dtype=torch.float64)
            target = target[:, 0].contiguous() if shp == "N" else target.reshape(x.shape)
        shifted = [[cols[m][i] - tq[m][i] for i in range(N)] for m in range(M)]
        grad = g.chance(0.15)
        if grad:
            x.requires_grad_(True)
        allowed = ["es", "var", "erm", "eloss", "qcvar", "qcvar", "oce"] + (["iso", "iso"] if positive else [])
        same = g.chance(0.5)
        first = g.choice(allowed)
        sess = {"which": "session", "N": N, "M": M, "kind": kind, "positive": positive, "shape": list(x.shape), "target": tk,
                "requires_grad": grad, "cols": enc_rat(cols), "targets": enc_rat(tq) if tk != "none" else None}
        history = []
        for step in range(3):
            which = first if (same or step == 0) else g.choice(allowed)
            name = REUSE_NAME[which]
            form = "module" if which == "oce" else ("functional" if which == "var" else g.choice(["module", "module", "functional"]))
            dimnone = form == "functional" and shp == "N" and which in ("es", "var", "qcvar") and g.chance(0.5)
            copied = form == "module" and g.chance(0.25)
            kw = {} if (dimnone or which not in ("es", "var", "qcvar")) else {"dim": 0}
            w0 = ua = ub = uk = None
            if which in ("es", "var"):
                par = float(g.choice([F(1, 10), F(1, 4), F(1, 2), F(3, 10), F(1), F(1, N), F(g.randint(1, N), N), F(33, 100), F(999, 1000)]))
                fn_ = fnl.expected_shortfall if which == "es" else fnl.value_at_risk
                mod = nn.ExpectedShortfall(par) if which == "es" else None
            elif which in ("erm", "eloss"):
                par = g.choice([0.25, 1.0, 2.0, 1 / 64, 8.0])
                fn_ = fnl.entropic_risk_measure if which == "erm" else (lambda v_, a_: -fnl.exp_utility(v_, a_).mean(0))
                mod = nn.EntropicRiskMeasure(par) if which == "erm" else nn.EntropicLoss(par)
            elif which == "iso":
                par = g.choice([1.0, 0.5, 0.25, 0.75])
                fn_ = lambda v_, a_: -fnl.isoelastic_utility(v_, a_).mean(0)
                mod = nn.IsoelasticLoss(par)
            elif which == "qcvar":
                par = g.choice([1.0, 2.0, 10.0, 64.0])
                fn_ = fnl.quadratic_cvar
                mod = nn.QuadraticCVaR(par)
            else:
                uk = g.choice(["quad", "affine"])
                ua, ub = g.choice([F(-1, 2), F(-1), F(-1, 4)]), g.choice([F(1), F(1, 2), F(2)])
                w0 = g.dy(-1, 1, 2)
                if uk == "quad":
                    u = lambda t_, a=float(ua), b=float(ub): a * t_ * t_ + b * t_
                    uf = lambda z, ua=ua, ub=ub: ua * z * z + ub * z
                else:
                    u = lambda t_, a=float(ub), b=float(ua): a * t_ + b
                    uf = lambda z, ua=ua, ub=ub: ub * z + ua
                mod = OCE(u)
                with torch.no_grad():
                    mod.w.copy_(torch.tensor(float(w0)))
                mod = mod.to(torch.float64)
                par = [uk, rat_str(ua if uk == "quad" else ub), rat_str(ub if uk == "quad" else ua), rat_str(w0)]
            if copied:
                mod = copy.deepcopy(mod)
            history.append({"criterion": which, "form": form, "par": par, "dim": None if dimnone else 0, "copied": copied})
            case = sess | {"steps": list(history), "step": step}
            ctx.case(case, True, tag=f"session:{which}")
            ctx.stats[f"session:target={tk}"] += 1
            ctx.stats[f"session:step={step}"] += 1
            ctx.traces += 1
            if form == "module":
                st, v, mut = call_impl(mod, x, target) if target is not None else call_impl(mod, x)
            else:
                st, v, mut = call_impl(fn_, x if target is None else x - target, par, **kw)
            if mut:
                ctx.mutated(which, mut, case)
            ct_add(torch, reqs, metas, case, which, par, x, target, form, (None if dimnone else 0) if form == "functional" else None, st,
                   v.detach() if st == "ok" else v)
            if form == "module" and step == 0 and which in ("es", "erm", "eloss", "qcvar"):
                # the closed-form cash of the same module on the same tensors: -self(input - target) (EntropicLoss: minus the entropic risk)
                stc, vc, _ = call_impl(mod.cash, x, target) if target is not None else call_impl(mod.cash, x)
                ct_add(torch, reqs, metas, case, which, par, x, target, "cash", None, stc, vc.detach() if stc == "ok" else vc)
            if st != "ok":
                ctx.fail(f"{name} raised on a valid sample (a tensor evaluated before / a leaf that requires grad)", case, key=f"{name}:reuse:error", detail=v)
                break
            v = v.detach()
            if tuple(v.shape) != tuple(x.shape[1:]) or not all(math.isfinite(z) or which == "eloss" for z in flat(v)):
                ctx.fail(f"{name}: the value does not have the trailing shape of the sample / is not finite", case, key=f"{name}:reuse:shape",
                         detail={"shape": list(v.shape), "value": flat(v)[:8]})
                break
            got = flat(v)
            okv, detail, key = True, None, f"{name}:reuse:value"
            if which == "es":
                pn = F(par) * N
                border = abs(pn - round(pn)) <= F(1, 10 ** 9) and pn != round(pn)
                k = math.ceil(par * N)
                ks = {k} if not border else {math.floor(pn), math.ceil(pn), int(round(pn))} - {0}
                exps = [[es_exact(kk, c) for c in shifted] for kk in ks]
                gq = [F(z) for z in got]
                okv = any(all(feq(a_, b_) for a_, b_ in zip(gq, e_)) for e_ in exps)
                detail = {"impl": got, "definition": [float(e_) for e_ in exps[0]]}
                reqs.append({"op": "es", "k": k, "cols": enc_rat(shifted)})
                metas.append(("es", case, gq))
            elif which == "var":
                for col, gv in zip(shifted, got):
                    kind_, exp = var_expected(par, col)
                    tolv = 1e-12 * max(1.0, max(abs(float(z)) for z in col))
                    if not ((kind_ in ("min", "max", "kth") and abs(gv - float(exp)) <= tolv) or
                            (kind_ == "between" and float(exp[0]) - tolv <= gv <= float(exp[1]) + tolv) or
                            (kind_ == "any" and any(abs(gv - float(e_)) <= tolv for e_ in exp))):
                        okv, detail = False, {"impl": gv, "expected": str(exp), "level-class": kind_}
                        break
                reqs.append(var_request(par, N, shifted))
                metas.append(("var", case, got))
            elif which == "erm":
                for col, gv in zip(shifted, got):
                    exp = mp_erm(par, col)
                    if not close(gv, exp, 1e-9, 1e-9 * max(1.0, abs(exp)) * 1e-3):
                        okv, detail = False, {"impl": gv, "definition": exp}
                        break
            elif which == "eloss":
                for col, gv in zip(shifted, got):
                    exp = sum(sexp(-par * float(z)) for z in col) / len(col)
                    if not close(gv, exp, 1e-10):
                        okv, detail = False, {"impl": gv, "definition": exp}
                        break
            elif which == "iso":
                for col, gv in zip(shifted, got):
                    exp = -sum((math.log(float(z)) if par == 1.0 else float(z) ** (1 - par)) for z in col) / len(col)
                    if not close(gv, exp, 1e-10):
                        okv, detail = False, {"impl": gv, "definition": exp}
                        break
                reqs.append({"op": "iso", "a": float_bits(par), "a_is_one": par == 1.0, "cols": enc_flt([[float(z) for z in col] for col in shifted])})
                metas.append(("iso", case, got))
            elif which == "qcvar":
                # the bisection is shared by the columns: its precision derives from the widest bracket
                wide = max(float(max(col) - min(col)) for col in shifted) + 1e-8
                prec = 1e-6 * 10 ** int(math.log10(2 * wide))
                for col, gv in zip(shifted, got):
                    exact, wstar = qcvar_exact(par, col)
                    tol = par * (10 * prec) ** 2 + 1e-9 * max(1.0, abs(float(exact)))
                    if not (abs(gv - float(exact)) <= tol):
                        okv, detail = False, {"impl": gv, "minimum": float(exact), "w*": float(wstar)}
                        if any(float(max(c_)) - float(sum(c_) / len(c_)) < 1 / (2 * par) for c_ in shifted):
                            key = "quadratic_cvar:bracket-misses-root"
                        break
                rq, precision = qcvar_request(torch, par, shifted)
                if rq is not None:
                    reqs.append(rq)
                    metas.append(("qcvar", case | {"lam": par, "precision": precision}, got))
            else:
                exp = [w0 - sum(uf(z + w0) for z in col) / len(col) for col in shifted]
                gq = [F(z) for z in got]
                okv = all(feq(a_, b_) for a_, b_ in zip(gq, exp))
                detail = {"impl": got, "definition": [float(e_) for e_ in exp]}
                reqs.append({"op": "oce", "u": par[:3], "w": par[3], "cols": enc_rat(shifted)})
                metas.append(("oce", case, gq))
            if which in ("erm", "eloss"):
                reqs.append({"op": "erm", "a": float_bits(par), "cols": enc_flt([[float(z) for z in col] for col in shifted])})
                metas.append((which, case, got))
            if not okv:
                ctx.fail(f"{name}: evaluation number {step + 1} on the same input / target tensors does not return the value its definition "
                         "prescribes for input - target", case, key=key, detail=detail)
                break
    # ---------------- criterion factory of the two corpora below: parameters, module, functional form (on input - target), OCE data,
    # the parameter as op crit_tensor takes it
    def build(which, n, mild=False):
        oce = None
        if which in ("es", "var", "topp"):
            par = float(g.choice([F(1, 10), F(1, 4), F(1, 2), F(3, 10), F(1), F(1, n), F(g.randint(1, n), n), F(33, 100), F(999, 1000)]))
            fn_ = {"es": fnl.expected_shortfall, "var": fnl.value_at_risk, "topp": fnl.topp}[which]
            mod = nn.ExpectedShortfall(par) if which == "es" else None
        elif which in ("erm", "eloss"):
            par = g.choice([0.25, 1.0, 2.0] if mild else [0.25, 1.0, 2.0, 1 / 64, 8.0])
            fn_ = fnl.entropic_risk_measure if which == "erm" else (lambda v_, a_: -fnl.exp_utility(v_, a_).mean(0))
            mod = nn.EntropicRiskMeasure(par) if which == "erm" else nn.EntropicLoss(par)
        elif which == "iso":
            par = g.choice([1.0, 0.5, 0.25, 0.75])
            fn_ = lambda v_, a_: -fnl.isoelastic_utility(v_, a_).mean(0)
            mod = nn.IsoelasticLoss(par)
        elif which == "qcvar":
            par = g.choice([1.0, 2.0, 10.0] if mild else [1.0, 2.0, 10.0, 64.0])
            fn_ = fnl.quadratic_cvar
            mod = nn.QuadraticCVaR(par)
        else:
            uk = g.choice(["quad", "affine"])
            ua, ub = g.choice([F(-1, 2), F(-1), F(-1, 4)]), g.choice([F(1), F(1, 2), F(2)])
            w0 = g.dy(-1, 1, 2)
            if uk == "quad":
                u = lambda t_, a=float(ua), b=float(ub): a * t_ * t_ + b * t_
                uf = lambda z, ua=ua, ub=ub: ua * z * z + ub * z
            else:
                u = lambda t_, a=float(ub), b=float(ua): a * t_ + b
                uf = lambda z, ua=ua, ub=ub: ub * z + ua
            mod = OCE(u)
            with torch.no_grad():
                mod.w.copy_(torch.tensor(float(w0)))
            mod = mod.to(torch.float64)
            par = [uk, rat_str(ua if uk == "quad" else ub), rat_str(ub if uk == "quad" else ua), rat_str(w0)]
            fn_, oce = None, (w0, uf)
        return par, mod, fn_, oce
    # ---------------- the path dimension anywhere: every functional form that takes `dim` (expected_shortfall, value_at_risk,
    # quadratic_cvar, topp) with EVERY legal dim (-rank .. rank-1) on 3-D / 4-D inputs whose sizes all differ (and one with equal
    # sizes, one with a size-one dimension); every module form (and the dim-less entropic functional) on the same tensors, i.e. true
    # trailing shapes (N, M, K), (N, M, K, L), with none / number / per-path / full targets.  The result must have the input shape
    # with exactly the reduced dimension removed, and the entry at each remaining multi-index must be the value the definition
    # prescribes for the sample at that multi-index (samples cut out of the row-major data in pure Python).  A fixed corpus of
    # (shape, dim, criterion) on every tier (values through g), plus random shapes
    plan = []
    for shape in DIM_SHAPES:
        for d in range(-len(shape), len(shape)):
            plan += [(shape, d, w_, "functional") for w_ in ("es", "var", "qcvar", "topp")]
        plan += [(shape, 0, w_, "module") for w_ in ("es", "erm", "eloss", "iso", "qcvar", "oce")] + [(shape, 0, "erm", "functional")]
    for it in range(40 if ctx.tier == "quick" else 900):
        shape = tuple(g.randint(1, 4) for _ in range(g.choice([3, 3, 4])))
        if g.chance(0.7):
            plan.append((shape, g.randint(-len(shape), len(shape) - 1), g.choice(["es", "var", "qcvar", "topp"]), "functional"))
        else:
            w_ = g.choice(["es", "erm", "eloss", "iso", "qcvar", "oce", "erm"])
            plan.append((shape, 0, w_, "functional" if (w_ == "erm" and g.chance(0.5)) else "module"))
    for shape, d, which, form in plan:
        shape = list(shape)
        r = len(shape)
        dn = d % r
        n = shape[dn]
        cnt = math.prod(shape)
        kind = g.choice(["ties", "generic"])
        if kind == "ties":
            pool = [g.dy(-4, 4, 2) for _ in range(max(2, cnt // 3))]
            vals = [g.choice(pool) for _ in range(cnt)]
        else:
            vals = [g.dy(-4, 4, 3) for _ in range(cnt)]
        if which == "iso":
            vals = [abs(z) + F(17, 8) for z in vals]
        x = torch.tensor([float(z) for z in vals], dtype=torch.float64).reshape(shape)
        tk = "none" if form == "functional" else g.choice(["none", "float", "path", "full"])
        if tk == "none":
            tv, target = [F(0)] * cnt, None
        elif tk == "float":
            c = g.choice([F(1, 2), F(-3, 4), F(1, 4)])
            tv, target = [c] * cnt, float(c)
        elif tk == "path":
            tp = [g.dy(-1, 1, 2) for _ in range(shape[0])]
            tv = [tp[i // (cnt // shape[0])] for i in range(cnt)]
            target = torch.tensor([float(z) for z in tp], dtype=torch.float64).reshape([shape[0]] + [1] * (r - 1))
        else:
            tv = [g.dy(-1, 1, 2) for _ in range(cnt)]
            target = torch.tensor([float(z) for z in tv], dtype=torch.float64).reshape(shape)
        rest, cols = dim_slices([a_ - b_ for a_, b_ in zip(vals, tv)], shape, d)
        par, mod, fn_, oce = build(which, n)
        name = "topp" if which == "topp" else REUSE_NAME[which]
        withdim = form == "functional" and which in ("es", "var", "qcvar", "topp")
        cls = "explicit-dim" if withdim else "trailing-shape"
        case = {"which": which, "form": form, "shape": shape, "dim": d if withdim else None, "par": par, "kind": kind, "target": tk,
                "data": enc_rat(vals), "targets": enc_rat(tv) if tk != "none" else None}
        ctx.case(case, True, tag=f"{cls}:{which}")
        ctx.stats[f"{cls}:rank={r}"] += 1
        ctx.traces += 1
        if which == "topp":
            k = math.ceil(par * n)
            st, v, mut = call_impl(fnl.topp, x, par, dim=d, largest=False)
            if mut:
                ctx.mutated(which, mut, case)
            if st != "ok":
                ctx.fail("topp raised on a valid sample with a legal dim", case, key="topp:explicit-dim:error", detail=v)
                continue
            eshape = shape[:dn] + [k] + shape[dn + 1:]
            if list(v.values.shape) != eshape or list(v.indices.shape) != eshape:
                ctx.fail("topp(dim=d): values / indices do not have the input shape with dimension d shortened to ceil(p n)", case,
                         key="topp:explicit-dim:shape", detail={"shape": list(v.values.shape), "expected": eshape})
                continue
            _, vcols = dim_slices(v.values.reshape(-1).tolist(), eshape, d)
            _, icols = dim_slices(v.indices.reshape(-1).tolist(), eshape, d)
            for j, (col, vc, ic) in enumerate(zip(cols, vcols, icols)):
                if sorted(F(z) for z in vc) != sorted(col)[:k] or any(not (0 <= i_ < n) or col[i_] != F(z) for i_, z in zip(ic, vc)):
                    ctx.fail("topp(dim=d): the values at a remaining multi-index are not the ceil(p n) smallest outcomes of the sample at that "
                             "multi-index with indices pointing at them", case, key="topp:explicit-dim:value",
                             detail={"sample number": j, "sample": [float(z) for z in col], "values": vc, "indices": ic})
                    break
            continue
        if form == "module":
            st, v, mut = call_impl(mod, x, target) if target is not None else call_impl(mod, x)
        elif withdim:
            st, v, mut = call_impl(fn_, x, par, dim=d)
        else:
            st, v, mut = call_impl(fn_, x, par)
        if mut:
            ctx.mutated(which, mut, case)
        ct_add(torch, reqs, metas, case, which, par, x, target, form, d if withdim else None, st, v.detach() if st == "ok" else v)
        if st != "ok":
            ctx.fail(f"{name} raised on a valid sample (3-D / 4-D input, legal dim)", case, key=f"{name}:{cls}:error", detail=v)
            continue
        v = v.detach()
        if list(v.shape) != rest:
            ctx.fail(f"{name}: the result does not have the input shape with exactly the reduced dimension removed", case,
                     key=f"{name}:{cls}:shape", detail={"shape": list(v.shape), "expected": rest})
            continue
        prec = qprec(cols) if which == "qcvar" else None
        for j, (col, gv) in enumerate(zip(cols, flat(v))):
            okv, detail, known = defn_ok(which, par, col, gv, False, prec=prec, oce=oce)
            if not okv:
                ctx.fail(f"{name}: the entry at a remaining multi-index is not the value the definition prescribes for the sample at that "
                         "multi-index (samples along the reduced dimension)", case, key=known or f"{name}:{cls}:value",
                         detail=detail | {"sample number": j, "sample": [float(z) for z in col]})
                break
    # ---------------- P&L in whole units and whole-number targets: integer (int64 / int32) and bool P&L tensors, float64 P&L with
    # integer targets; targets none / Python int / Python float / 0-dim and full integer tensors / 0-dim and full float64 tensors /
    # float32 per-path tensors; EVERY module (forward and closed-form cash) and functional form.  torch promotes input - target to a
    # floating type, so the value must still be the definition on the mathematical difference input - target (fractional parts of the
    # target included), at single-precision tolerance where the implementation returns single precision.  Where the unchanged code
    # refuses such an input (mean / quantile of an integer tensor, arithmetic on bool) the error is only counted.  Fixed corpus on
    # every tier (values through g)
    DT_FORMS = [("es", "module"), ("es", "functional"), ("es", "cash"), ("var", "functional"), ("erm", "module"), ("erm", "functional"),
                ("erm", "cash"), ("eloss", "module"), ("eloss", "functional"), ("eloss", "cash"), ("iso", "module"), ("iso", "functional"),
                ("qcvar", "module"), ("qcvar", "functional"), ("qcvar", "cash"), ("oce", "module")]
    DT_TARGETS = ["none", "pyint", "pyfloat", "int0d", "intfull", "float0d", "floatfull", "f32path"]
    for rep in range(1 if ctx.tier == "quick" else 6):
        for xdt in ("int64", "int32", "bool", "float64"):
            for tk in (DT_TARGETS if xdt != "float64" else ["pyint", "int0d", "intfull"]):
                for which, form in DT_FORMS:
                    N, M = g.choice([2, 3, 4, 5, 8]), g.choice([1, 1, 2, 3])
                    shape = [N] if M == 1 else [N, M]
                    cnt = N * M
                    low = which == "iso" and xdt == "bool"
                    if xdt == "bool":
                        vals = [F(int(g.chance(0.5))) for _ in range(cnt)]
                    elif xdt == "float64":
                        vals = [g.dy(-4, 4, 3) for _ in range(cnt)]
                        vals = [abs(z) + F(17, 8) for z in vals] if which == "iso" else vals
                    else:
                        vals = [F(g.randint(2, 9) if which == "iso" else g.randint(-6, 6)) for _ in range(cnt)]
                    tdt = {"float64": torch.float64, "int64": torch.int64, "int32": torch.int32, "bool": torch.bool}[xdt]
                    x = torch.tensor([bool(z) if xdt == "bool" else (float(z) if xdt == "float64" else int(z)) for z in vals], dtype=tdt).reshape(shape)
                    ints = [F(-2), F(-1)] if low else [F(1), F(-2), F(-1)]
                    fracs = [F(-5, 4), F(-1, 4), F(-3, 2)] if low else [F(1, 2), F(-5, 4), F(3, 4), F(-1, 4)]
                    if tk == "none":
                        tv, target = [F(0)] * cnt, None
                    elif tk in ("pyint", "int0d"):
                        c = g.choice(ints)
                        tv, target = [c] * cnt, (int(c) if tk == "pyint" else torch.tensor(int(c)))
                    elif tk in ("pyfloat", "float0d"):
                        c = g.choice(fracs)
                        tv, target = [c] * cnt, (float(c) if tk == "pyfloat" else torch.tensor(float(c), dtype=torch.float64))
                    elif tk == "intfull":
                        tv = [g.choice(ints) for _ in range(cnt)]
                        target = torch.tensor([int(z) for z in tv], dtype=g.choice([torch.int64, torch.int32])).reshape(shape)
                    elif tk == "floatfull":
                        tv = [g.choice(fracs) for _ in range(cnt)]
                        target = torch.tensor([float(z) for z in tv], dtype=torch.float64).reshape(shape)
                    else:
                        tp = [g.choice(fracs) for _ in range(N)]
                        tv = [tp[i // M] for i in range(cnt)]
                        target = torch.tensor([float(z) for z in tp], dtype=torch.float32).reshape([N] + [1] * (len(shape) - 1))
                    _, cols = dim_slices([a_ - b_ for a_, b_ in zip(vals, tv)], shape, 0)
                    if which == "iso" and any(z <= 0 for col in cols for z in col):      # not an admissible wealth (bool P&L without a negative target)
                        continue
                    par, mod, fn_, oce = build(which, N, mild=True)
                    name = REUSE_NAME[which] + (":cash" if form == "cash" else "")
                    case = {"which": which, "form": form, "shape": shape, "input dtype": xdt, "target": tk,
                            "target dtype": str(target.dtype) if torch.is_tensor(target) else type(target).__name__, "par": par,
                            "data": enc_rat(vals), "targets": enc_rat(tv) if tk != "none" else None}
                    ctx.case(case, True, tag=f"dtype:{xdt}:{which}")
                    ctx.traces += 1
                    if form == "module":
                        st, v, mut = call_impl(mod, x, target) if target is not None else call_impl(mod, x)
                    elif form == "cash":
                        st, v, mut = call_impl(mod.cash, x, target) if target is not None else call_impl(mod.cash, x)
                    else:
                        kw = {"dim": 0} if which in ("es", "var", "qcvar") else {}
                        st, v, mut = call_impl(lambda: fn_(x if target is None else x - target, par, **kw), watch=[("input", x), ("target", target)])
                    if mut:
                        ctx.mutated(which, mut, case)
                    ct_add(torch, reqs, metas, case, which, par, x, target, form, (0 if which in ("es", "var", "qcvar") else None) if form == "functional" else None,
                           st, v.detach() if st == "ok" else v)
                    ctx.stats[f"dtype:{xdt}:{'evaluated' if st == 'ok' else 'refused'}"] += 1
                    if st != "ok":
                        continue
                    v = v.detach()
                    if list(v.shape) != shape[1:]:
                        ctx.fail(f"{name}: the value for an integer / bool P&L or integer target does not have the trailing shape of the sample", case,
                                 key=f"{name}:integer-dtype:shape", detail={"shape": list(v.shape), "expected": shape[1:]})
                        continue
                    # single precision: the returned dtype, or the dtype torch gives the difference input - target (OCE adds its float64 w afterwards)
                    single = v.dtype != torch.float64 or torch.result_type(x, 0.0 if target is None else target) != torch.float64
                    cwhich = which if form != "cash" else ("erm" if which == "eloss" else which)
                    prec = qprec(cols) if which == "qcvar" else None
                    for j, (col, gv) in enumerate(zip(cols, flat(v))):
                        okv, detail, known = defn_ok(cwhich, par, col, -gv if form == "cash" else gv, single, prec=prec, oce=oce)
                        if not okv:
                            ctx.fail(f"{name}: with an integer / bool P&L tensor or an integer target the value is not the one the definition prescribes "
                                     "for the difference input - target" + (" (cash = minus the risk)" if form == "cash" else ""), case,
                                     key=known or f"{name}:integer-dtype:value",
                                     detail=detail | {"sample number": j, "sample": [float(z) for z in col], "result dtype": str(v.dtype)})
                            break
    # ---------------- public attributes re-assigned after construction: one criterion object used for a sweep over its parameter
    # (`loss = IsoelasticLoss(0.5); loss.a = 1.0`).  In the unchanged code every configuration attribute is read at call time:
    # a of EntropicRiskMeasure / EntropicLoss / IsoelasticLoss, p of ExpectedShortfall, lam of QuadraticCVaR, utility and w of OCE
    # (forward of each; the closed-form cash of the first / second / fourth / fifth goes through forward or reads self.a, the default
    # search cash of IsoelasticLoss / OCE calls forward).  After each re-assignment (two in a row on one object; the second may return
    # to the value of construction) forward must be the value the definition prescribes for the CURRENT attribute, forward and cash
    # must equal those of a criterion freshly constructed with the current value (the same function of the same arguments: bitwise), the
    # closed-form cash must be minus the risk of the current value; a second criterion of the same class constructed with the first
    # value and alive all along must keep its own value (no state shared through the class).  Fixed corpus on every tier (values
    # through g); shapes (N,), (N, M), (N, M, K); targets none / number / full tensor; also through op crit_tensor
    def fresh_crit(which, par, ufn=None):
        if which == "oce":
            m_ = OCE(ufn)
            with torch.no_grad():
                m_.w.copy_(torch.tensor(float(F(par[3]))))
            return m_.to(torch.float64)
        return {"es": nn.ExpectedShortfall, "erm": nn.EntropicRiskMeasure, "eloss": nn.EntropicLoss, "iso": nn.IsoelasticLoss,
                "qcvar": nn.QuadraticCVaR}[which](par)
    for rep in range(2 if ctx.tier == "quick" else 12):
        for which in ("es", "erm", "eloss", "iso", "qcvar", "oce"):
            for rank in (1, 2, 3):
                shape = [g.choice([2, 3, 4, 5, 8, 10])] + [g.choice([1, 2, 3]) for _ in range(rank - 1)]
                N, cnt = shape[0], math.prod(shape)
                kind = g.choice(["ties", "generic"])
                if kind == "ties":
                    pool = [g.dy(-4, 4, 2) for _ in range(max(2, cnt // 3))]
                    vals = [g.choice(pool) for _ in range(cnt)]
                else:
                    vals = [g.dy(-4, 4, 3) for _ in range(cnt)]
                if which == "iso":
                    vals = [abs(z) + F(17, 8) for z in vals]
                x = torch.tensor([float(z) for z in vals], dtype=torch.float64).reshape(shape)
                tk = g.choice(["none", "float", "full"])
                if tk == "none":
                    tv, target = [F(0)] * cnt, None
                elif tk == "float":
                    c = g.choice([F(1, 2), F(-3, 4), F(1, 4)])
                    tv, target = [c] * cnt, float(c)
                else:
                    tv = [g.dy(-1, 1, 2) for _ in range(cnt)]
                    target = torch.tensor([float(z) for z in tv], dtype=torch.float64).reshape(shape)
                rest, cols = dim_slices([a_ - b_ for a_, b_ in zip(vals, tv)], shape, 0)
                prec = qprec(cols) if which == "qcvar" else None
                name = REUSE_NAME[which]
                par0, mod, _, oce0 = build(which, N)
                ufn0 = mod.utility if which == "oce" else None
                other = fresh_crit(which, par0, ufn0)        # the second instance, constructed with the first value
                cur_par, cur_oce, cur_ufn = par0, oce0, ufn0
                history = [{"constructed with": par0}]
                for step in range(2):
                    # the next value: different from the current one (the second may be the value of construction again)
                    if step == 1 and g.chance(0.4):
                        new_par, new_oce, new_ufn = par0, oce0, ufn0
                    else:
                        for _ in range(50):
                            new_par, m2_, _, new_oce = build(which, N)
                            if new_par != cur_par and (which != "oce" or (new_par[:3] != cur_par[:3] and new_par[3] != cur_par[3])):
                                break
                        new_ufn = m2_.utility if which == "oce" else None
                    if new_par == cur_par:
                        break
                    if which == "oce":
                        attr = g.choice(["utility", "w", "utility+w"])
                        if "utility" in attr:
                            mod.utility = new_ufn
                            cur_par, cur_oce, cur_ufn = new_par[:3] + [cur_par[3]], (cur_oce[0], new_oce[1]), new_ufn
                        if "w" in attr:
                            mod.w = torch.nn.Parameter(torch.tensor(float(new_oce[0]), dtype=torch.float64))
                            cur_par, cur_oce = cur_par[:3] + [new_par[3]], (new_oce[0], cur_oce[1])
                    else:
                        attr = {"es": "p", "qcvar": "lam"}.get(which, "a")
                        setattr(mod, attr, new_par)
                        cur_par = new_par
                    history.append({"assigned": attr, "value": cur_par})
                    case = {"which": which, "class": "attribute-reassigned", "shape": shape, "kind": kind, "target": tk, "history": list(history),
                            "par": cur_par, "data": enc_rat(vals), "targets": enc_rat(tv) if tk != "none" else None}
                    ctx.case(case, True, tag=f"reassigned:{which}:{attr}")
                    ctx.stats[f"reassigned:{which}"] += 1
                    ctx.traces += 1
                    fresh = fresh_crit(which, cur_par, cur_ufn)
                    args = (x,) if target is None else (x, target)
                    st, v, mut = call_impl(mod, *args)
                    if mut:
                        ctx.mutated(which, mut, case)
                    ct_add(torch, reqs, metas, case, which, cur_par, x, target, "module", None, st, v.detach() if st == "ok" else v)
                    if st != "ok":
                        ctx.fail(f"{name} raised after its public attribute was re-assigned to an admissible value", case,
                                 key=f"{name}:reassigned:error", detail=v)
                        break
                    v = v.detach()
                    if list(v.shape) != rest:
                        ctx.fail(f"{name}: after re-assigning a public attribute the value does not have the trailing shape of the sample", case,
                                 key=f"{name}:reassigned:shape", detail={"shape": list(v.shape), "expected": rest})
                        break
                    bad = False
                    for j, (col, gv) in enumerate(zip(cols, flat(v))):
                        okv, detail, known = defn_ok(which, cur_par, col, gv, False, prec=prec, oce=cur_oce)
                        if not okv:
                            ctx.fail(f"{name}: after its public attribute was re-assigned the criterion does not return the value the definition "
                                     "prescribes for the attribute's current value", case, key=known or f"{name}:reassigned:value",
                                     detail=detail | {"sample number": j, "sample": [float(z) for z in col], "repr": repr(mod)[:80]})
                            bad = True
                            break
                    if bad:
                        break
                    stf, vf, _ = call_impl(fresh, *args)
                    if stf != "ok" or not torch.equal(v, vf.detach()):
                        ctx.fail(f"{name}: a criterion whose public attribute was re-assigned differs from a freshly constructed criterion with that value", case,
                                 key=f"{name}:reassigned:fresh", detail={"re-assigned": flat(v)[:8], "fresh": flat(vf.detach())[:8] if stf == "ok" else vf})
                        break
                    # cash: closed form (minus the risk of the current value; EntropicLoss: minus the entropic risk) / default search
                    stc, vc, _ = call_impl(mod.cash, *args)
                    stcf, vcf, _ = call_impl(fresh.cash, *args)
                    closed = which in ("es", "erm", "eloss", "qcvar")
                    if closed:
                        ct_add(torch, reqs, metas, case, which, cur_par, x, target, "cash", None, stc, vc.detach() if stc == "ok" else vc)
                    ctx.stats[f"reassigned:cash:{which}:{'evaluated' if stcf == 'ok' else 'refused'}"] += 1
                    if stc != stcf or (stc == "ok" and not torch.equal(vc.detach(), vcf.detach())) or (stc != "ok" and vc != vcf):
                        ctx.fail(f"{name}: cash of a criterion whose public attribute was re-assigned differs from cash of a freshly constructed "
                                 "criterion with that value", case, key=f"{name}:cash:reassigned:fresh",
                                 detail={"re-assigned": flat(vc.detach())[:8] if stc == "ok" else vc, "fresh": flat(vcf.detach())[:8] if stcf == "ok" else vcf})
                        break
                    if closed:
                        if stc != "ok" or list(vc.shape) != rest:
                            ctx.fail(f"{name}: cash raised / has the wrong shape after a public attribute was re-assigned", case,
                                     key=f"{name}:cash:reassigned:error", detail=vc if stc != "ok" else list(vc.shape))
                            break
                        cwhich = "erm" if which == "eloss" else which
                        for j, (col, gv) in enumerate(zip(cols, flat(vc.detach()))):
                            okv, detail, known = defn_ok(cwhich, cur_par, col, -gv, False, prec=prec)
                            if not okv:
                                ctx.fail(f"{name}: after its public attribute was re-assigned cash is not minus the risk the definition prescribes "
                                         "for the attribute's current value", case, key=known or f"{name}:cash:reassigned:value",
                                         detail=detail | {"sample number": j, "sample": [float(z) for z in col]})
                                bad = True
                                break
                        if bad:
                            break
                    # the second instance keeps the value it was constructed with
                    sto, vo, _ = call_impl(other, *args)
                    oko = sto == "ok" and list(vo.shape) == rest
                    if oko:
                        for j, (col, gv) in enumerate(zip(cols, flat(vo.detach()))):
                            okv, detail, known = defn_ok(which, par0, col, gv, False, prec=prec, oce=oce0)
                            if not okv and not known:
                                oko = False
                                break
                    if not oko:
                        ctx.fail(f"{name}: a second criterion of the same class, constructed with another value and alive while the first one's attribute "
                                 "was re-assigned, no longer returns the value the definition prescribes for its own value", case | {"second instance": par0},
                                 key=f"{name}:two-instances:value", detail=vo if sto != "ok" else flat(vo.detach())[:8])
                        break
    try:
        outs = ctx.driver(reqs)
    except DriverBroken as e:
        ctx.ties_broken.append({"kind": "driver", "detail": str(e)[:1500]})
        outs = []
    for (which, case, got), mo in zip(metas, outs):
        if which == "crit_tensor":
            ctx.stats["crit_tensor"] += 1
            ctx.stats[f"crit_tensor:{got[0]}:{case['crit_tensor']['form']}:dim={case['crit_tensor']['dim']}"] += 1
            ct_check(ctx, case, got, mo)
        elif which == "es":
            if not all(feq(a_, b_) for a_, b_ in zip(got, dec_rat(mo["es"]))):
                ctx.disagree("es", case, enc_rat(got), mo["es"])
        elif which == "var":
            mv = [("ok" in o and float(F(o["ok"]))) for o in mo]
            if not all(isinstance(b, float) and close(a, b, 1e-12, 1e-15) for a, b in zip(got, mv)):
                ctx.disagree("var", case, got, mo)
        elif which == "erm":
            mv = [float_of_bits(o["ok"]) if "ok" in o else None for o in mo["erm"]]
            if not all(b is not None and close(a, b, 1e-10, 1e-12) for a, b in zip(got, mv)):
                ctx.disagree("erm", case, got, mv)
        elif which == "eloss":
            mv = dec_flt(mo["eloss"])
            if not all(close(a, b, 1e-10) for a, b in zip(got, mv)):
                ctx.disagree("eloss", case, got, mv)
        elif which == "iso":
            mv = dec_flt(mo["ok"])
            if not all(close(a, b, 1e-10) for a, b in zip(got, mv)):
                ctx.disagree("iso", case, got, mv)
        elif which == "qcvar":
            if "ok" not in mo:
                ctx.disagree("qcvar", case, got, mo)
            else:
                mv = dec_flt(mo["ok"])
                lam = case["lam"]
                tol = lam * (4 * case["precision"]) ** 2 + 4 * case["precision"] * 1e-3
                if not all(abs(a - b) <= tol + 1e-9 * max(1.0, abs(a)) for a, b in zip(got, mv)):
                    ctx.disagree("qcvar", case, got, mv)
        elif which == "oce":
            if not all(feq(a_, b_) for a_, b_ in zip(got, dec_rat(mo["ok"]))):
                ctx.disagree("oce", case, enc_rat(got), mo["ok"])
    return ctx.finish(
        rule="samples of length N in {1..33} with ties / constants / heavy tails / scales 2^-20..2^20, shapes (N,), (N,M), (N,M,1), scalar and tensor "
             "targets, functional (dim=0) and module forms; levels p with integral and non-integral pN incl. p<=1/N, p>1-1/N; a in 2^-6..8, |a x| up to 1e4; "
             "lam in {1,2,10,64}; isoelastic a in {1,1/4,1/2,3/4} also on wealth 1e-12..1e-6 and 1e6..1e12 (module, module with target, functional); "
             "sessions of three evaluations on the same input / target objects (float, int, 0-dim, full, per-column and per-path targets, module "
             "also deep-copied, functional dim=0 / default, leaf tensors that require grad); every call with its whole input tensor, target object, "
             "form and dim also through the tensor level of the model (op crit_tensor: shape exactly, values at the one-column tolerances; closed-form cash included); "
             "a fixed corpus of 3-D / 4-D inputs (all sizes different, equal sizes, a size-one dimension) with every legal dim -rank..rank-1 for expected_shortfall / "
             "value_at_risk / quadratic_cvar / topp and every module form on true (N,M,K), (N,M,K,L) shapes: shape with exactly the reduced dimension removed and "
             "each entry = the definition on the pure-Python slice at its multi-index (also through op crit_tensor); a fixed corpus of int64 / int32 / bool P&L tensors "
             "and integer / float / float32 targets (number, 0-dim, full, per-path) for every module, cash and functional form (refusals of the unchanged code only counted); "
             "a fixed corpus of criteria whose public attributes (a, p, lam, utility, w) are re-assigned after construction, twice in a row: forward = the definition "
             "for the current value, forward and cash = those of a freshly constructed criterion, closed-form cash = minus the risk, a second live instance keeps its value "
             "(also through op crit_tensor); every case non-trivial; distinct = sha1 of canonical case")
