"""C08 — Greeks are the derivatives of the price.

correspondence: every closed-form Greek of pfhedge.nn.functional (European, European binary,
American binary) over the whole box — not only t = 1, K = 1 — vs the Lean model (Float carrier);
module Greeks (incl. the autogreek-based lookback ones) vs finite differences.
predicate (real code only): closed-form / module Greek vs Richardson-extrapolated central finite
differences of the real price; autogreek.{delta,gamma,vega,theta} on generated smooth pricers under
every accepted parameterisation vs finite differences of the same pricer.
Sessions (predicate only): several Greeks evaluated one after the other on the SAME caller tensors (two pricers on one grid, call
then put, a repeated call), float64 data, each result compared - dtype and value to double precision - with the derivative obtained
by the harness's own reverse-mode differentiation of the same price on fresh leaves.
Grids (predicate + both correspondences, element by element): the Greeks of every route (functional form, module, autogreek on the module's /
the functional price under volatility and variance) on tensors of different broadcastable shapes (one volatility / time to maturity for all
paths as 0-dim or (1,) tensor, one per time step against paths x steps, one per path) and at tiny volatilities / maturities (w = v sqrt(t)
down to 5e-5, log-moneyness of the order of w), vs the harness's own reverse-mode derivative of the real price on same-shape leaves.
autogreek on user pricers with the given parameterisation and the pricer's parameter names chosen independently (spot / moneyness /
log_moneyness x volatility / variance wherever autogreek derives one from the other), broadcastable shapes, volatilities down to 2e-4
(variances down to 4e-8) and pricers whose vega depends on the volatility at every scale.
Declarations (predicate; Black-Scholes prices also to the model): autogreek (and gamma_from_delta) on user pricers whose parameters are keyword-only
(after `*`, or after a parameter bound by keyword with functools.partial), defaulted, bound by position, methods and callable objects - every
declaration x every Greek on every tier; the value passed to autogreek is the value the pricer is evaluated at (defaults / bindings hold decoys).
The same for the functional and module Black-Scholes prices behind `def pricer(*, ...)` wrappers and functools.partial keyword bindings.
Global autograd state (predicate + model): every module Greek, the modules' forward, the functional forms, autogreek on module prices and on
user pricers inside torch.no_grad() / set_grad_enabled(False) / inference_mode() and after set_default_dtype(float64) (float64 and float32
data): the routes that do not depend on the caller's gradient mode have to answer, every value that comes back has to be the derivative.
Tensor strikes (predicate + model): every family x Greek on every tier with the strike given as a float64 TENSOR (0-dim, (1,), one per element,
one per path against paths x steps) through the module built with it (every form), its forward, the functional form and autogreek on its price.
Entangled inputs (predicate + model): every family x Greek x root (log-moneyness, time, volatility) on every tier: the root has requires_grad=True
(leaf or tracked result) and the OTHER arguments were computed from it (running maximum = root.cummax(-1).values, or value + c (root - root.detach()));
the Greek is the PARTIAL derivative at the values given (harness derivative on fresh detached leaves) through functional form, module, forward, autogreek.
Re-assigned attributes (predicate + model): every module kind, already in use, gets its public attributes (strike as float / 0-dim tensor; call where
the kind has puts) re-assigned two to four times; after each re-assignment every Greek (module, forward, autogreek on its price) is the derivative of
the module's OWN price at that moment and price and Greeks equal, bit by bit, those of a freshly constructed module with the terms the attributes
show; a second instance of the class with other terms, alive all along, is not affected.
Glue (correspondence, op "autogreek"; model lean/PfVerif/Model/Autogreek.lean, theorems Lemmas/C08Glue.lean): in the three user-pricer sections
(every parameterisation; given parameterisation x pricer names on grids; declarations) the pricer is called through a wrapper that RECORDS the
keyword arguments autogreek hands to it; element by element the signature read with inspect.signature, the caller's keyword arguments and the
body of the pricer (obtained by running the very same function object on symbolic arguments) go to the model, which answers with the keyword
arguments the pricer receives (names in dict order, values), the error (ValueError before the call, TypeError of the call) or the Greek (dual
numbers): names compared exactly, values to 1e-12, Greeks to 1e-8 (gamma 1e-7).  A last section exercises the glue where the others never go:
required parameters neither passed nor derived, no parameterisation at all, `**kwargs` and positional-only parameters, stale moneyness /
log_moneyness / variance entries, variances <= 0, entries the pricer does not name.
"""
import math
from common import *  # noqa
from bs_common import *  # noqa

GREEKS = {
    "european": ("european_price", {"delta": "european_delta", "gamma": "european_gamma", "vega": "european_vega", "theta": "european_theta"}),
    "european_binary": ("european_binary_price", {"delta": "european_binary_delta", "gamma": "european_binary_gamma",
                                                  "vega": "european_binary_vega", "theta": "european_binary_theta"}),
    "american_binary": ("american_binary_price", {"delta": "american_binary_delta", "gamma": "american_binary_gamma",
                                                  "vega": "american_binary_vega", "theta": "american_binary_theta"}),
}


def richardson(f, x, h):
    """4th-order central difference"""
    return (-f(x + 2 * h) + 8 * f(x + h) - 8 * f(x - h) + f(x - 2 * h)) / (12 * h)


def richardson2(f, x, h):
    """4th-order second derivative"""
    return (-f(x + 2 * h) + 16 * f(x + h) - 30 * f(x) + 16 * f(x - h) - f(x - 2 * h)) / (12 * h * h)


def fd_greek(torch, pricefn, greek, s, t, v, k, m, call, shrink=1.0):
    """derivative of the REAL price function in float64.  The spot steps are tied to the length scale w = v sqrt(t) of the
    formulas in log-spot (a fixed relative step is far too coarse for small w); `shrink` scales every step."""
    P = lambda s_, t_, v_: float(call_bs(torch, pricefn, s_, t_, v_, k, m, call))
    S = k * math.exp(s)
    w = v * math.sqrt(t)
    if greek == "delta":
        return richardson(lambda S_: P(math.log(S_ / k), t, v), S, min(1e-3, w / 20) * shrink * S)
    if greek == "gamma":
        return richardson2(lambda S_: P(math.log(S_ / k), t, v), S, min(2e-3, w / 10) * shrink * S)
    if greek == "vega":
        return richardson(lambda v_: P(s, t, v_), v, 1e-3 * shrink * v)
    if greek == "theta":
        return -richardson(lambda t_: P(s, t_, v), t, 1e-3 * shrink * t)
    raise ValueError(greek)


def fd_disagrees(torch, got, tolf, pricefn, greek, s, t, v, k, m, call):
    """None if the Greek agrees with the finite differences of the real price at one of three step sizes (truncation error
    falls 16x per halving of the step; a wrong Greek disagrees at all of them), else the last finite-difference value"""
    fd = None
    for shrink in (1.0, 0.5, 0.25):
        fd = fd_greek(torch, pricefn, greek, s, t, v, k, m, call, shrink)
        if abs(got - fd) <= tolf(fd):
            return None
    return fd


# ---- user pricers for autogreek ---------------------------------------------------------------

def make_pricer(g, torch, spotpar, volpar):
    """smooth pricer of the chosen parameter names; returns (callable with that signature, python scalar version)"""
    a, b, c = g.r.uniform(0.5, 2), g.r.uniform(-1, 1), g.r.uniform(0.2, 1.5)
    form = g.choice(["poly", "explog", "ncdf"])

    def core(x, vol, t, tt):        # x > 0 "spot-like", vol > 0, t > 0; tt = torch or math
        if form == "poly":
            return a * x * x * vol + b * x * t + c * vol * vol * t
        if form == "explog":
            return tt.exp(-a * t) * tt.log(x + 1.0) * (1.0 + vol) + c * tt.sqrt(t) * x
        z = (tt.log(x) + b) / (vol * tt.sqrt(t))
        if tt is math:
            return a * x * 0.5 * (1 + math.erf(z / math.sqrt(2))) + c * vol
        return a * x * 0.5 * (1 + torch.erf(z / math.sqrt(2))) + c * vol
    return core, form


def harness_greeks(torch, price_of, S, t, v):
    """the four derivatives of the element-wise pricer price_of(spot, time_to_maturity, volatility), by the harness's own reverse-mode
    differentiation on fresh leaves holding the values of S, t, v (nothing of pfhedge.autogreek / pfhedge._utils.parse is involved);
    exact to the rounding of the arithmetic of the dtype of S, t, v"""
    S_, t_, v_ = (x.detach().clone().requires_grad_() for x in (S, t, v))
    with torch.enable_grad():
        p = price_of(S_, t_, v_)
        (d,) = torch.autograd.grad(p.sum(), S_, create_graph=True)
        ga = torch.autograd.grad(d.sum(), S_, retain_graph=True, allow_unused=True)[0] if d.requires_grad else None
        ve, th = torch.autograd.grad(p.sum(), (v_, t_), allow_unused=True)
    Z = lambda x: torch.zeros_like(S_) if x is None else x.detach()
    return {"delta": Z(d), "gamma": Z(ga), "vega": Z(ve), "theta": -Z(th)}


def named_pricer(torch, core, spotpar, volpar, with_strike):
    """pricer with exactly the chosen parameter names around core(x, vol, t); with a `strike` parameter the spot-like quantity is
    turned back into the spot (x = spot), without it x = spot, moneyness or exp(log_moneyness)"""
    if spotpar == "spot":
        xs = "spot"
    elif spotpar == "moneyness":
        xs = "moneyness * strike" if with_strike else "moneyness"
    else:
        xs = "torch.exp(log_moneyness) * strike" if with_strike else "torch.exp(log_moneyness)"
    vs = "volatility" if volpar == "volatility" else "torch.sqrt(variance)"
    names = [spotpar] + (["strike"] if with_strike else []) + [volpar, "time_to_maturity"]
    ns = {"core": core, "torch": torch}
    exec(f"def pricer({', '.join(names)}):\n    return core({xs}, {vs}, time_to_maturity, torch)\n", ns)
    return ns["pricer"]


def session_greeks(g):
    """3-5 Greeks; the first one comes back later in the sequence, so at least one Greek is evaluated twice on the same tensors"""
    first = g.choice(["delta", "gamma", "vega", "theta"])
    seq = [first] + [g.choice(["delta", "gamma", "vega", "theta"]) for _ in range(g.randint(1, 3))] + [first]
    if g.chance(0.4):
        seq.append(g.choice(["vega", "theta"]))
    return seq


DYADIC_STRIKES = [1.0, 0.5, 2.0, 1.25, 0.75, 7.5, 0.625, 3.0]      # exactly representable in float32 as well


def as_caller_tensor(torch, xs, graph):
    """float64 tensor of the caller: a plain leaf, or (graph) the result of a computation that is itself tracked by autograd"""
    x = torch.tensor(xs, dtype=torch.float64)
    return x.clone().requires_grad_() * 1.0 if graph else x


def make_vol_pricer(g, torch):
    """smooth core(x, vol, t, torch) whose Greeks depend visibly on the volatility at EVERY scale of the volatility (logarithm, square
    root and powers of vol and of the total variance vol^2 t; a Black-Scholes-like term in log(x) / (vol sqrt t)) - the forms of
    make_pricer have a vega that is (nearly) constant in vol once vol is small"""
    a, b, c = g.r.uniform(0.5, 2), g.r.uniform(-1, 1), g.r.uniform(0.2, 1.5)
    form = g.choice(["logvol", "totalvar", "bslike"])

    def core(x, vol, t, tt):
        if form == "logvol":
            return a * x * tt.log(vol) + b * tt.sin(3.0 * vol) * t + c * x * x * tt.sqrt(vol)
        if form == "totalvar":
            tv = vol * vol * t
            return a * x * tt.sqrt(tv) + b * tt.log(tv) * tt.log(x + 1.0) + c * tt.exp(-tv) * x * x
        w = vol * tt.sqrt(t)
        z = tt.log(x) / w + 0.5 * w
        N = lambda y: 0.5 * (1 + torch.erf(y / math.sqrt(2)))
        return a * (x * N(z) - N(z - w)) + c * vol * x
    return core, form


def shared_shape(g, F):
    """a shape that broadcasts against the full shape F without being F: one value for everything (0-dim or (1,)), and for
    paths x steps one value per time step or one per path"""
    opts = [(), (1,)]
    if len(F) == 2:
        opts += [(F[1],), (1, F[1]), (F[0], 1)]
    return g.choice([o for o in opts if o != F])


def grid_shapes(g, names, need_full, p_full=0.4, fulls=((1,), (2,), (3,), (2, 3), (3, 2))):
    """full shape F and one shape per name: the names in need_full have the shape F, each of the others has F with probability p_full
    and otherwise a shape that only broadcasts to F; at least one tensor has the shape F"""
    F = g.choice(list(fulls))
    shapes = {nm: (F if (nm in need_full or g.chance(p_full)) else shared_shape(g, F)) for nm in names}
    if F not in shapes.values():
        shapes[g.choice(list(names))] = F
    return F, shapes


def bs_grid(g, fam, need_full, tiny):
    """arguments of the Black-Scholes functions of family `fam` on a grid (see grid_shapes; the running maximum has the shape of the
    log-moneyness).  ordinary: every entry from the marginals of gen_point (the regions of the path-dependent families as in the
    point-wise sweeps).  tiny: volatility OR time to maturity two to three orders of magnitude below the box of gen_point (volatility
    2e-4..1e-2, time to maturity 1e-5..5e-3), log-moneyness and running maximum of the order of w = v sqrt(t), so that no Greek is
    degenerate.  returns (F, shapes, flat values per name, strike)"""
    pd = fam in ("american_binary", "lookback")
    F, shapes = grid_shapes(g, "stv", need_full)
    cnt = {nm: math.prod(sh) for nm, sh in shapes.items()}
    k = gen_point(g)[3]
    if tiny:
        if g.chance(0.5):
            v_b, t_b = 10 ** g.r.uniform(-3.7, -2), g.choice([g.r.uniform(0.05, 3), 1.0, 0.25])
        else:
            v_b, t_b = g.choice([g.r.uniform(0.05, 0.9), 0.2]), 10 ** g.r.uniform(-5, -2.3)
        w = v_b * math.sqrt(t_b)
        tv = [t_b * g.r.uniform(0.8, 1.25) for _ in range(cnt["t"])]
        vv = [v_b * g.r.uniform(0.8, 1.25) for _ in range(cnt["v"])]
    else:
        w = 1.0
        tv = [gen_point(g)[1] for _ in range(cnt["t"])]
        vv = [gen_point(g)[2] for _ in range(cnt["v"])]
    sv, mv = [], []
    for _ in range(cnt["s"]):
        if tiny:
            s = w * g.r.uniform(-3, 3)
            m = s + w * g.r.uniform(0, 2) if g.chance(0.7) else s
        else:
            s, _, _, _, m = gen_point(g, pd)
        if fam == "american_binary":
            r_ = g.r.random()
            if r_ < 0.65:                              # continuation region
                s = -abs(s) - 0.02 * w
                m = min(-0.01 * w, s + g.r.uniform(0, 0.3) * w) if g.chance(0.7) else s
            elif r_ < 0.8:                             # barrier touched exactly, spot back below
                s, m = -abs(s) - 0.02 * w, 0.0
            else:                                      # barrier exceeded (spot below or above)
                m = abs(m) + 0.0
        elif fam == "lookback":
            if not tiny and abs(m) < 0.02:
                m = m + 0.05 if m >= s + 0.05 else m
        else:
            m = s
        sv.append(s)
        mv.append(m)
    shapes["m"] = shapes["s"]
    return F, shapes, {"s": sv, "m": mv, "t": tv, "v": vv}, k


def natural_scale(fam, greek, k, t, v):
    """order of magnitude of a Greek of the family where log-moneyness is of the order of w = v sqrt(t) (European / lookback prices
    scale with the strike, the binaries with 1)"""
    w = v * math.sqrt(t)
    if fam in ("european", "lookback"):
        return {"delta": 1.0, "gamma": 1.0 / (k * w), "vega": k * math.sqrt(t), "theta": k * v / math.sqrt(t)}[greek]
    return {"delta": 1.0 / (k * w), "gamma": 1.0 / (k * w) ** 2, "vega": 1.0 / v, "theta": 1.0 / t}[greek]


PRICER_DECLS = ("kwonly", "kwonly-tail", "kwonly-defaults", "partial-kw", "partial-kw-defaults", "partial-positional",
                "bound-method", "callable-object", "positional-defaults")

DOMAIN = {"spot": (0.5, 2.0), "moneyness": (0.5, 2.0), "log_moneyness": (-0.5, 0.5), "volatility": (0.1, 0.8), "variance": (0.01, 0.6),
          "time_to_maturity": (0.2, 2.0)}


def declared_pricer(g, torch, core, spotpar, volpar, with_strike, decl, strike_given):
    """The pricer scale * core(x, vol, t) of named_pricer with one more parameter `scale` (a plain number that autogreek only hands
    through), its parameters in a random order and DECLARED in the way `decl` says:
      kwonly / kwonly-tail / kwonly-defaults   all / the trailing parameters after a bare `*` (keyword-only), without / with defaults
      partial-kw / partial-kw-defaults         functools.partial(pricer, scale=<bound>): the parameters after `scale` become keyword-only in the
                                               signature of the partial object (without / with defaults of their own)
      partial-positional                       functools.partial(pricer, <bound scale>) - the first parameter is bound by position
      bound-method / callable-object           a method of a user object / an object with __call__ (with or without a `*`, with or without defaults)
      positional-defaults                      ordinary parameters, the trailing ones with defaults
    Every default is a legal value DIFFERENT from the one the caller passes (tensor parameters: a 0-dim float64 tensor inside the domain;
    strike: another number; scale: 1.0), so a parameter that is passed but not used shows in the value.
    returns (pricer, description, fallback) - fallback = the scale in force when the caller passes none (None: it has to be passed)"""
    from functools import partial
    if spotpar == "spot":
        xs = "spot"
    elif spotpar == "moneyness":
        xs = "moneyness * strike" if with_strike else "moneyness"
    else:
        xs = "torch.exp(log_moneyness) * strike" if with_strike else "torch.exp(log_moneyness)"
    vs = "volatility" if volpar == "volatility" else "torch.sqrt(variance)"
    names = [spotpar] + (["strike"] if with_strike else []) + [volpar, "time_to_maturity"]
    g.r.shuffle(names)
    bound = g.choice([1.25, 0.5, 3.0])
    if decl == "partial-positional":
        names = ["scale"] + names
    else:
        names.insert(g.randint(0, len(names) - 1), "scale")          # never the last one: something follows `scale`
    L = len(names)
    star = {"kwonly": 0, "kwonly-tail": g.randint(1, L - 1), "kwonly-defaults": g.randint(0, L - 1)}.get(decl)
    if decl in ("bound-method", "callable-object"):
        star = g.choice([None, 0, g.randint(1, L - 1)])
    first_default = None
    if decl == "kwonly-defaults" or (decl in ("bound-method", "callable-object") and star is not None and g.chance(0.5)):
        first_default = star
    elif decl == "partial-kw-defaults":
        first_default = names.index("scale")
    elif decl == "positional-defaults":
        first_default = g.randint(0, L - 1)
    ns = {"core": core, "torch": torch}
    parts, shown = [], []
    for i, nm in enumerate(names):
        if star == i:
            parts.append("*")
            shown.append("*")
        if first_default is not None and i >= first_default:
            if nm == "strike":
                d = 2.0 if strike_given == 1.0 else 1.0
            elif nm == "scale":
                d = 1.0
            else:
                d = torch.tensor(g.r.uniform(*DOMAIN[nm]), dtype=torch.float64)
            ns["_d_" + nm] = d
            parts.append(f"{nm}=_d_{nm}")
            shown.append(f"{nm}={float(d):.4g}")
        else:
            parts.append(nm)
            shown.append(nm)
    body = f"scale * core({xs}, {vs}, time_to_maturity, torch)"
    if decl == "bound-method":
        exec(f"class Book:\n    def price(self, {', '.join(parts)}):\n        return {body}\npricer = Book().price\n", ns)
        desc = f"Book().price(self, {', '.join(shown)})"
    elif decl == "callable-object":
        exec(f"class Book:\n    def __call__(self, {', '.join(parts)}):\n        return {body}\npricer = Book()\n", ns)
        desc = f"Book().__call__(self, {', '.join(shown)})"
    else:
        exec(f"def pricer({', '.join(parts)}):\n    return {body}\n", ns)
        desc = f"pricer({', '.join(shown)})"
    pricer = ns["pricer"]
    fallback = 1.0 if "_d_scale" in ns else None
    if decl in ("partial-kw", "partial-kw-defaults"):
        pricer, desc, fallback = partial(pricer, scale=bound), f"functools.partial({desc}, scale={bound})", bound
    elif decl == "partial-positional":
        pricer, desc, fallback = partial(pricer, bound), f"functools.partial({desc}, {bound})", bound
    return pricer, desc, fallback


def first_mismatch(got, ref, rel, floor):
    """(index, value, reference) of the first element with |value - reference| > rel * max(|reference|, floor), or None"""
    got, ref = got.detach().to(ref.dtype).reshape(-1), ref.reshape(-1)
    for j in range(got.numel()):
        a, b = float(got[j]), float(ref[j])
        if not abs(a - b) <= rel * max(abs(b), floor):
            return j, a, b
    return None


# ---- the GLUE of autogreek against the model (op "autogreek") ------------------------------------

class Sym:
    """Symbolic scalar.  Calling a user pricer on Sym arguments yields its body as a tree of the model's closed language of pricer bodies
    (lean/PfVerif/Model/Autogreek.lean `Expr`: var, num, add, sub, mul, div, neg, exp, log, sqrt, sin, cos, ncdf) - the very function object
    that autogreek differentiates is the one translated; torch functions applied to a Sym are caught through __torch_function__."""
    __slots__ = ("tree",)

    def __init__(self, tree):
        self.tree = tree

    @staticmethod
    def of(x):
        return x if isinstance(x, Sym) else Sym(["num", float_bits(float(x))])       # python numbers, 0-dim tensors

    @staticmethod
    def bin(op, a, b):
        return Sym([op, Sym.of(a).tree, Sym.of(b).tree])

    def __add__(self, o): return Sym.bin("add", self, o)
    def __radd__(self, o): return Sym.bin("add", o, self)
    def __sub__(self, o): return Sym.bin("sub", self, o)
    def __rsub__(self, o): return Sym.bin("sub", o, self)
    def __mul__(self, o): return Sym.bin("mul", self, o)
    def __rmul__(self, o): return Sym.bin("mul", o, self)
    def __truediv__(self, o): return Sym.bin("div", self, o)
    def __rtruediv__(self, o): return Sym.bin("div", o, self)
    def __neg__(self): return Sym(["neg", self.tree])

    @classmethod
    def __torch_function__(cls, func, types, args=(), kwargs=None):
        name = getattr(func, "__name__", None)
        if name in ("exp", "log", "sqrt", "sin", "cos") and len(args) == 1 and not kwargs:
            return Sym([name, Sym.of(args[0]).tree])
        if name == "erf" and len(args) == 1 and not kwargs:                            # erf(y) = 2 N(y sqrt 2) - 1
            return 2.0 * Sym(["ncdf", (Sym.of(args[0]) * math.sqrt(2.0)).tree]) - 1.0
        raise TypeError(f"pricer body outside the closed language of the model: {name}")


def model_signature(pricer):
    """inspect.signature(pricer).parameters as the model's `Sig`: [name, kind, default | None] (what autogreek itself reads)"""
    import inspect
    K = inspect.Parameter
    kinds = {K.POSITIONAL_ONLY: "positional_only", K.POSITIONAL_OR_KEYWORD: "positional_or_keyword", K.VAR_POSITIONAL: "var_positional",
             K.KEYWORD_ONLY: "keyword_only", K.VAR_KEYWORD: "var_keyword"}
    return [[q.name, kinds[q.kind], None if q.default is K.empty else float_bits(float(q.default))]
            for q in inspect.signature(pricer).parameters.values()]


def symbolic_body(pricer):
    """the body of the pricer as an `Expr` tree over the names of its declared parameters (defaults and keyword bindings of
    functools.partial are overridden by the variables - the model applies them through the signature; a positionally bound
    argument of a partial is a constant of the body)"""
    import inspect
    K = inspect.Parameter
    pos, kw = [], {}
    for q in inspect.signature(pricer).parameters.values():
        if q.kind == K.POSITIONAL_ONLY:
            pos.append(Sym(["var", q.name]))
        elif q.kind in (K.POSITIONAL_OR_KEYWORD, K.KEYWORD_ONLY):
            kw[q.name] = Sym(["var", q.name])
    return Sym.of(pricer(*pos, **kw)).tree


def recording(pricer, log):
    """the pricer behind a wrapper that RECORDS the keyword arguments of every call; inspect.signature(wrapper) follows __wrapped__,
    so autogreek reads the signature of the pricer itself"""
    import functools

    def wrapper(**kw):
        log.append(dict(kw))
        return pricer(**kw)
    functools.update_wrapper(wrapper, pricer)
    return wrapper


def glue_items(torch, greek, pricer, params, log, st, val, F, case):
    """one request to the model op "autogreek" per element of the full (broadcast) shape F: the signature autogreek reads, the caller's
    keyword arguments of that element, the body of the pricer; with it what the REAL call did on that element - the keyword arguments
    the pricer received (names in dict order, values), the Greek or the error.  `log`: calls recorded by `recording`."""
    def elem(v, j):
        if isinstance(v, torch.Tensor):
            return float(v.detach().expand(F).reshape(-1)[j])
        return float(v)
    try:
        sig, body = model_signature(pricer), symbolic_body(pricer)
    except Exception as e:  # noqa - a pricer the closed language cannot express is not sent
        return [("untranslatable", f"{type(e).__name__}: {e}"[:200])]
    n = math.prod(F)
    got = val.detach().to(torch.float64).reshape(-1) if st == "ok" else None
    if st == "ok" and (len(log) != 1 or got.numel() != n):
        return [("shape", {"calls": len(log), "greek_shape": list(val.shape), "price_shape": list(F)})]
    out = []
    for j in range(n):
        req = {"op": "autogreek", "greek": "delta" if greek == "gamma_from_delta" else greek, "sig": sig,
               "params": [[k, float_bits(elem(v, j))] for k, v in params.items()], "body": body}
        rec = None if not log else [[k, elem(v, j)] for k, v in log[0].items()]
        out.append((req, (case | {"element": j}, rec, st, float(got[j]) if st == "ok" else val)))
    return out


GRAD_STATES = ("no_grad", "set_grad_enabled(False)", "inference_mode", "default_dtype=float64", "default_dtype=float64+no_grad")


def may_refuse(state, route, fam, greek):
    """Which routes may answer with autograd's RuntimeError instead of a value when the caller has changed the global autograd state.
    A route that differentiates by reverse mode AT CALL TIME cannot work once the caller has switched gradient recording off, unless it
    switches it on again itself: the modules do (they are the hedging models that Hedger.price / compute_pnl and WhalleyWilmott evaluate
    inside torch.no_grad()), pfhedge.autogreek.* and the functional lookback Greeks (autogreek of the functional price) do not.  Inside
    torch.inference_mode() recording cannot be switched on again by anybody, so there only the closed forms have to answer (European,
    European binary: everything; American binary: the functional forms and the module's delta).  A changed default dtype excuses nothing.
    Whenever a value IS returned it has to be the derivative."""
    if state == "inference_mode":
        closed = fam in ("european", "european_binary") or (fam == "american_binary" and (route == "functional" or greek == "delta"))
        return route.startswith("autogreek") or not closed
    if "no_grad" in state or state == "set_grad_enabled(False)":
        return route.startswith("autogreek") or (route == "functional" and fam == "lookback")
    return False


def check(ctx):
    torch, pfhedge = import_impl()
    import pfhedge.autogreek as ag
    g = ctx.gen
    ctx.lean_gate()
    n = 1000 if ctx.tier == "quick" else 15000
    items, metas = [], []
    for _ in range(n):
        fam = g.choice(list(GREEKS))
        pricefn, greeks = GREEKS[fam]
        greek = g.choice(list(greeks))
        fn = greeks[greek]
        pd = fam == "american_binary"
        s, t, v, k, m = gen_point(g, pd)
        if pd:
            # continuation region (m < 0, so s < 0) most of the time; barrier already hit otherwise
            r_ = g.r.random()
            if r_ < 0.6:
                s = -abs(s) - 0.02
                m = min(-0.01, s + g.r.uniform(0, 0.3)) if g.chance(0.7) else s
            elif r_ < 0.8:
                s, m = -abs(s) - 0.02, 0.0            # barrier touched exactly, spot back below
            else:
                m = abs(m) + 0.0                      # barrier exceeded (spot below or above)
        call = g.chance(0.5) if fam != "american_binary" else True
        st, val, _ = call_impl(call_bs, torch, fn, s, t, v, k, m, call)
        case = {"fn": fn, "s": s, "t": t, "v": v, "k": k, "m": m, "call": call}
        ctx.stats[f"fn={fn}"] += 1
        ctx.stats["t=1" if t == 1.0 else "t!=1"] += 1
        ctx.case(case, nontrivial=(t != 1.0 or k != 1.0), tag="greek")
        ctx.traces += 1
        if st != "ok":
            ctx.fail("closed-form Greek raised inside the open parameter domain", case, key=f"bs_{fn}:error", detail=val)
            continue
        got = float(val)
        items.append((fn, call, [s, t, v, k, m]))
        metas.append((case, got))
        # predicate on a subsample (4 price evaluations each): Greek == derivative of the real price
        if g.chance(0.35):
            scale = {"delta": 1.0 / k, "gamma": 1.0 / (k * k), "vega": k, "theta": k}[greek] if fam == "european" else \
                {"delta": 1.0 / k, "gamma": 1.0 / (k * k), "vega": 1.0, "theta": 1.0}[greek]
            tolf = lambda fd_: 2e-5 * max(abs(fd_), abs(got), scale * 0.05)
            if pd and m >= 0:
                fd = None if abs(got) <= tolf(0.0) else 0.0
            else:
                fd = fd_disagrees(torch, got, tolf, pricefn, greek, s, t, v, k, m, call)
            if fd is not None:
                ctx.fail(f"bs_{fn} is not the {greek} (derivative) of its own price", case, key=f"bs_{fn}:not-derivative",
                         detail={"closed_form": got, "finite_difference": fd})
    # ---------------- grids: the same Greeks on tensors of DIFFERENT shapes that broadcast (one volatility / time to maturity for all
    # paths as a 0-dim or (1,) tensor, one per time step against paths x steps, one per path ...) and at tiny volatilities / maturities.
    # Routes: functional form, module, autogreek on the module's / the functional price (volatility or variance parameterisation).
    # The Greek has to be the derivative of the price ELEMENT BY ELEMENT of the broadcast grid; the reference is the harness's own
    # reverse-mode derivative of the real price on fresh same-shape leaves.  Where the route differentiates by autograd with respect to
    # a tensor of the caller (autogreek, the module Greeks built on it, the spot leaf of the functional lookback Greeks) that tensor has
    # the full shape - the gradient with respect to a smaller tensor is by definition the sum over the broadcast elements.
    import pfhedge.nn as pnn
    import pfhedge.nn.functional as fnl_
    MODS = {"european": pnn.BSEuropeanOption, "european_binary": pnn.BSEuropeanBinaryOption,
            "american_binary": pnn.BSAmericanBinaryOption, "lookback": pnn.BSLookbackOption}
    grid_dual = []
    for _ in range(170 if ctx.tier == "quick" else 1700):
        fam = g.choice(["european", "european_binary", "american_binary", "lookback", "lookback"])
        pd = fam in ("american_binary", "lookback")
        greek = g.choice(["delta", "gamma", "vega", "theta"])
        route = g.choice(["functional", "functional", "module", "autogreek"])
        call = g.chance(0.5) if not pd else True
        wrt = {"delta": "s", "gamma": "s", "vega": "v", "theta": "t"}[greek]
        # calling autogreek directly returns, by definition, the gradient with respect to the caller's tensor (the sum over the
        # broadcast elements when that tensor is smaller than the grid), so there the differentiated tensor has the full shape; the
        # modules and functional forms have to be element-wise for every broadcast pattern (the autograd-based ones were not: defect
        # repaired by "fix: autograd-based Black-Scholes greeks are element-wise for broadcast inputs")
        need = {wrt} if route == "autogreek" else set()
        tiny = g.chance(0.4)
        F, shapes, vals, k = bs_grid(g, fam, need, tiny)
        ten = {nm: torch.tensor(vals[nm], dtype=torch.float64).reshape(shapes[nm]) for nm in vals}
        # the prices are written in terms of volatility: only vega (parse_volatility) accepts the variance in its place
        volpar = g.choice(["volatility", "variance"]) if (route == "autogreek" and greek == "vega") else "volatility"
        VP = ten["v"] * ten["v"] if volpar == "variance" else ten["v"]
        v_eff = VP.sqrt() if volpar == "variance" else ten["v"]          # the volatility the variance stands for
        mod = MODS[fam](call=call, strike=k) if not pd else MODS[fam](strike=k)
        E = lambda x: x.detach().expand(F).clone()
        M = E(ten["m"])
        fpricer = route == "functional" or (route == "autogreek" and g.chance(0.5))
        if fpricer:
            price_of = lambda s_, t_, v_: call_bs(torch, fam + "_price", s_, t_, v_, k, M, call)
        elif pd:
            price_of = lambda s_, t_, v_: mod.price(s_, M, t_, v_)
        else:
            price_of = lambda s_, t_, v_: mod.price(s_, t_, v_)
        if route == "functional":
            site = f"bs_{fam}_{greek}"
            st, val, _ = call_impl(call_bs, torch, f"{fam}_{greek}", ten["s"], ten["t"], ten["v"], k, ten["m"], call)
        elif route == "module":
            site = f"module:{fam}.{greek}"
            args = (ten["s"], ten["m"], ten["t"], ten["v"]) if pd else (ten["s"], ten["t"], ten["v"])
            st, val, _ = call_impl(getattr(mod, greek), *args)
        else:
            site = f"autogreek[{'bs_' + fam + '_price' if fpricer else fam + '.price'}/{volpar}].{greek}"
            params = {"log_moneyness": ten["s"], "time_to_maturity": ten["t"], volpar: VP, "strike": k}
            if pd:
                params["max_log_moneyness"] = ten["m"]
            if fpricer and not pd:
                params["call"] = call
            st, val, _ = call_impl(getattr(ag, greek), getattr(fnl_, f"bs_{fam}_price") if fpricer else mod.price, **params)
        shared = sorted(nm for nm in "smtv" if (pd or nm != "m") and tuple(shapes[nm]) != tuple(F))
        cls = "+".join((["broadcast"] if shared else []) + (["tiny"] if tiny else [])) or "same-shape"
        case = {"grid": route, "family": fam, "greek": greek, "call": call, "k": k, "vol_param": volpar, "pricer": "functional" if fpricer else "module",
                "full_shape": list(F), "shapes": {nm: list(shapes[nm]) for nm in ("smtv" if pd else "stv")}, "tiny": tiny,
                "s": vals["s"], "m": vals["m"] if pd else None, "t": vals["t"], "v": v_eff.reshape(-1).tolist()}
        ctx.case(case, True, tag="bs_grid")
        ctx.stats[f"bs_grid={route}:{fam}:{cls}"] += 1
        ctx.traces += 1
        if st != "ok":
            ctx.fail("Greek raised inside the open parameter domain (tensors of broadcastable shapes / tiny volatility or maturity)", case,
                     key=f"{site}:{cls}:error", detail=val)
            continue
        if tuple(val.shape) != tuple(F):
            ctx.fail(f"{site} is not the derivative of the price element by element: the price of these arguments has shape {tuple(F)}, "
                     f"the Greek has shape {tuple(val.shape)}", case, key=f"{site}:{cls}:not-derivative",
                     detail={"greek": val.detach().reshape(-1).tolist()[:12], "shape": list(val.shape), "price_shape": list(F)})
            continue
        Sg, Tg, Vg = E(ten["s"]), E(ten["t"]), E(v_eff)
        ref = harness_greeks(torch, lambda S_, t_, v_: price_of((S_ / k).log(), t_, v_), k * Sg.exp(), Tg, Vg)[greek].reshape(-1)
        gotv = val.detach().to(torch.float64).reshape(-1)
        reported = False
        for j in range(gotv.numel()):
            a, b = float(gotv[j]), float(ref[j])
            sj, tj, vj, mj = float(Sg.reshape(-1)[j]), float(Tg.reshape(-1)[j]), float(Vg.reshape(-1)[j]), float(M.reshape(-1)[j])
            if not math.isfinite(b):
                ctx.stats["bs_grid_reference_not_finite"] += 1
                continue
            # both sides are double-precision evaluations of smooth formulas (closed form / gamma relation / autograd of the price vs the
            # harness's autograd of the price): no finite-difference error, so the relative tolerance is far below the one of the
            # point-wise sweeps; the closed forms cancel terms of relative size up to 1 / w^2.  Floors: those of the point-wise sweeps
            # of the same routes; at tiny w a thousandth of the natural size of the Greek there.
            rel = 1e-7
            if tiny:
                floor = 1e-3 * natural_scale(fam, greek, k, tj, vj)
            elif route == "functional" and fam != "lookback":
                floor = 0.05 * ({"delta": 1.0 / k, "gamma": 1.0 / (k * k), "vega": k, "theta": k}[greek] if fam == "european" else
                                {"delta": 1.0 / k, "gamma": 1.0 / (k * k), "vega": 1.0, "theta": 1.0}[greek])
            else:
                floor = 0.05 * (1.0 / k if greek == "delta" else 1.0 / (k * k) if greek == "gamma" else 1.0)
            if not abs(a - b) <= rel * max(abs(a), abs(b), floor) and not reported:
                reported = True
                ctx.fail(f"{site} is not the {greek} (derivative) of the price element by element"
                         + (" for arguments of different, broadcastable shapes" if shared else "")
                         + (" at a tiny volatility / time to maturity" if tiny else ""), case, key=f"{site}:{cls}:not-derivative",
                         detail={"element": j, "greek": a, "derivative_of_price": b, "s": sj, "t": tj, "v": vj, "m": mj})
            # correspondence, element by element: closed forms vs the model's closed forms, everything else vs the model's price at dual numbers
            ecase = {"grid": route, "family": fam, "greek": greek, "call": call, "class": cls, "vol_param": volpar,
                     "s": sj, "t": tj, "v": vj, "k": k, "m": mj if pd else sj, "element": j, "shapes": case["shapes"]}
            if route == "functional" and fam != "lookback":
                items.append((f"{fam}_{greek}", call, [sj, tj, vj, k, mj if pd else sj]))
                metas.append((ecase | {"fn": f"{fam}_{greek}"}, a))
            else:
                grid_dual.append(({"op": "bs_dual", "fn": fam + "_price", "call": call,
                                   "wrt": {"delta": "spot", "gamma": "spot", "vega": "vol", "theta": "time"}[greek],
                                   "order": 2 if greek == "gamma" else 1, "elems": [enc_flt([sj, tj, vj, k, mj if pd else sj])]},
                                  (ecase | ({"fn": f"lookback_{greek}"} if route == "functional" else {"module": fam}), a)))
    try:
        mv = model_vals(ctx, items)
    except DriverBroken as e:
        ctx.ties_broken.append({"kind": "driver", "detail": str(e)[:1500]})
        mv = []
    for (case, got), m_ in zip(metas, mv):
        if isinstance(m_, tuple) or not rel_close(got, m_, 1e-9, 1e-11):
            ctx.disagree("bs_greek", case, got, m_)
    # ---------------- module Greeks (closed form or autogreek of the module's own price)
    from pfhedge.nn import BSEuropeanOption, BSEuropeanBinaryOption, BSAmericanBinaryOption, BSLookbackOption
    dual_reqs, dual_meta = [], []
    for _ in range(150 if ctx.tier == "quick" else 1200):
        which = g.choice(["european", "european_binary", "american_binary", "lookback"])
        pd = which in ("american_binary", "lookback")
        s, t, v, k, m = gen_point(g, pd)
        if which == "american_binary":
            s = -abs(s) - 0.02
            m = min(-0.01, s + g.r.uniform(0, 0.3))
        if which == "lookback" and abs(m) < 0.02:
            m = m + 0.05 if m >= s + 0.05 else m      # stay away from the branch kink max = strike
        call = g.chance(0.5) if not pd else True
        mod = {"european": BSEuropeanOption, "european_binary": BSEuropeanBinaryOption,
               "american_binary": BSAmericanBinaryOption, "lookback": BSLookbackOption}[which](call=call, strike=k)
        greek = g.choice(["delta", "gamma", "vega", "theta"])
        T = lambda x: torch.tensor([x], dtype=torch.float64)
        args = (T(s), T(m), T(t), T(v)) if pd else (T(s), T(t), T(v))
        st, val, _ = call_impl(getattr(mod, greek), *args)
        case = {"module": which, "greek": greek, "s": s, "t": t, "v": v, "k": k, "m": m, "call": call}
        ctx.case(case, True, tag="module_greek")
        ctx.stats[f"module={which}.{greek}"] += 1
        ctx.traces += 1
        if st != "ok":
            ctx.fail("module Greek raised", case, key=f"module:{which}.{greek}:error", detail=val)
            continue
        got = float(val)
        pricefn = {"european": "european_price", "european_binary": "european_binary_price",
                   "american_binary": "american_binary_price", "lookback": "lookback_price"}[which]
        # model side: the SAME generic price definition evaluated at dual numbers (forward mode), with
        # autogreek's parameterisation (spot leaf, log_moneyness = log(spot/strike))
        dual_reqs.append({"op": "bs_dual", "fn": pricefn, "call": call,
                          "wrt": {"delta": "spot", "gamma": "spot", "vega": "vol", "theta": "time"}[greek],
                          "order": 2 if greek == "gamma" else 1, "elems": [enc_flt([s, t, v, k, m if pd else s])]})
        dual_meta.append((case, got))
        tolf = lambda fd_: 5e-5 * max(abs(fd_), abs(got), 0.05 * (1.0 / k if greek in ("delta",) else 1.0 / (k * k) if greek == "gamma" else 1.0))
        fd = fd_disagrees(torch, got, tolf, pricefn, greek, s, t, v, k, m, call)
        if fd is not None:
            ctx.fail(f"module {which}.{greek} is not the derivative of the module's own price", case,
                     key=f"module:{which}.{greek}:not-derivative", detail={"module": got, "finite_difference": fd})
    # ---------------- functional lookback Greeks (autogreek of the functional price; vega / theta through the gamma relations)
    for _ in range(150 if ctx.tier == "quick" else 1200):
        s, t, v, k, m = gen_point(g, True)
        if abs(m) < 0.02:
            m = m + 0.05 if m >= s + 0.05 else m
        greek = g.choice(["delta", "gamma", "vega", "theta"])
        st, val, _ = call_impl(call_bs, torch, "lookback_" + greek, [s], [t], [v], k, [m], True)
        case = {"fn": "lookback_" + greek, "s": s, "t": t, "v": v, "k": k, "m": m, "call": True}
        ctx.case(case, True, tag="functional_lookback_greek")
        ctx.stats[f"fn=lookback_{greek}"] += 1
        ctx.traces += 1
        if st != "ok":
            ctx.fail("functional lookback Greek raised inside the open parameter domain", case, key=f"bs_lookback_{greek}:error", detail=val)
            continue
        got = float(val)
        dual_reqs.append({"op": "bs_dual", "fn": "lookback_price", "call": True,
                          "wrt": {"delta": "spot", "gamma": "spot", "vega": "vol", "theta": "time"}[greek],
                          "order": 2 if greek == "gamma" else 1, "elems": [enc_flt([s, t, v, k, m])]})
        dual_meta.append((case | {"greek": greek}, got))
        tolf = lambda fd_: 5e-5 * max(abs(fd_), abs(got), 0.05 * (1.0 / k if greek == "delta" else 1.0 / (k * k) if greek == "gamma" else 1.0))
        fd = fd_disagrees(torch, got, tolf, "lookback_price", greek, s, t, v, k, m, True)
        if fd is not None:
            ctx.fail(f"bs_lookback_{greek} is not the {greek} (derivative) of bs_lookback_price", case, key=f"bs_lookback_{greek}:not-derivative",
                     detail={"functional": got, "finite_difference": fd})
    # ---------------- the Black-Scholes prices behind KEYWORD-ONLY parameters: autogreek on a user wrapper `def pricer(*, ...)` around the
    # functional / the module price and on functools.partial(price, <parameter>=tensor) - binding a parameter by keyword makes every later
    # parameter (time to maturity, volatility, the strike of bs_european_price / bs_lookback_price) keyword-only in the signature autogreek
    # reads.  The value handed to autogreek is the value the price has to be evaluated at: keyword-only parameters with defaults carry
    # decoys (other legal values), a bound parameter is either the right one (and not passed again) or a decoy overridden by the call.
    # Reference: the harness's reverse-mode derivative of the same price; element by element to the model as well (op bs_dual).
    from functools import partial as partial_
    FAMS = ("european", "european_binary", "american_binary", "lookback")
    FLOORS = lambda fam, greek, k_: 0.05 * {"delta": 1.0, "gamma": 1.0 / k_, "vega": k_ if fam in ("lookback", "european") else 1.0,
                                            "theta": k_ if fam in ("lookback", "european") else 1.0}[greek]
    WRT = {"delta": "spot", "gamma": "spot", "vega": "vol", "theta": "time"}

    def tame_point(fam, n_, dtype=torch.float64):
        """n_ points of the box of the sessions (American binary in the continuation region, lookback away from the kink max = strike)"""
        s0 = [g.r.uniform(-0.5, 0.5) for _ in range(n_)]
        if fam == "american_binary":
            s0 = [-abs(x) - 0.02 for x in s0]
            m0 = [min(-0.01, x + g.r.uniform(0, 0.3)) for x in s0]
        else:
            m0 = [x + g.r.uniform(0, 0.4) for x in s0]
            m0 = [x + 0.05 if abs(x) < 0.02 else x for x in m0]
        t0 = [g.r.uniform(0.02, 2.0) for _ in range(n_)]
        v0 = [g.r.uniform(0.05, 0.9) for _ in range(n_)]
        return tuple(torch.tensor(x, dtype=dtype) for x in (s0, m0, t0, v0))

    def to_dual(meta, fam, greek, call, k_, s_, m_, t_, v_, val):
        """one bs_dual request per element of a Greek obtained from float64 inputs"""
        pd_ = fam in ("american_binary", "lookback")
        val = val.detach().reshape(-1)
        k_all = k_.detach().expand(s_.shape).reshape(-1) if isinstance(k_, torch.Tensor) else None     # a tensor strike: one per element
        for j in range(val.numel()):
            sj, mj, tj, vj = (float(x.detach().reshape(-1)[j]) for x in (s_, m_, t_, v_))
            if k_all is not None:
                k_ = float(k_all[j])
            grid_dual.append(({"op": "bs_dual", "fn": fam + "_price", "call": call, "wrt": WRT[greek], "order": 2 if greek == "gamma" else 1,
                               "elems": [enc_flt([sj, tj, vj, k_, mj if pd_ else sj])]},
                              (meta | {"greek": greek, "module": fam, "element": j, "s": sj, "m": mj if pd_ else None, "t": tj, "v": vj, "k": k_},
                               float(val[j]))))

    for _ in range(1 if ctx.tier == "quick" else 10):
        for fam in FAMS:
            for greek in ("delta", "gamma", "vega", "theta"):
                for wrapper in ("kwonly-def", "partial-kw"):
                    pd = fam in ("american_binary", "lookback")
                    call = g.chance(0.5) if not pd else True
                    k_ = g.choice(DYADIC_STRIKES) if g.chance(0.5) else g.r.uniform(0.4, 2.5)
                    s_, m_, t_, v_ = tame_point(fam, g.small((1, 2, 3)))
                    functional = g.chance(0.5)
                    mod = MODS[fam](strike=k_) if pd else MODS[fam](call=call, strike=k_)
                    target = getattr(fnl_, f"bs_{fam}_price") if functional else mod.price
                    fixed = {}                                         # what the price needs besides the tensors and is no business of autogreek
                    if functional and not pd:
                        fixed["call"] = call
                    takes_strike = functional and fam in ("european", "lookback")
                    right = {"log_moneyness": s_, "time_to_maturity": t_, "volatility": v_}
                    if pd:
                        right["max_log_moneyness"] = m_
                    decoy = {"log_moneyness": s_ - 0.1, "max_log_moneyness": m_ * 0.5 if fam == "american_binary" else m_ + 0.1,
                             "time_to_maturity": t_ * g.r.uniform(1.3, 2.0), "volatility": v_ * g.r.uniform(0.4, 0.7),
                             "strike": 1.0 if k_ != 1.0 else 2.0}
                    names = [nm for nm in ("log_moneyness", "max_log_moneyness", "time_to_maturity", "volatility") if nm in right] \
                        + (["strike"] if takes_strike else [])
                    params = dict(right) | {"strike": k_}
                    if wrapper == "kwonly-def":
                        g.r.shuffle(names)
                        star = g.choice([0, g.randint(1, len(names) - 1)])
                        with_defaults = g.chance(0.5)
                        ns = {"target": target, "fixed": fixed} | {"_d_" + nm: decoy[nm] for nm in names}
                        parts, shown = [], []
                        for i, nm in enumerate(names):
                            if i == star:
                                parts.append("*")
                                shown.append("*")
                            parts.append(f"{nm}=_d_{nm}" if (with_defaults and i >= star) else nm)
                            shown.append(f"{nm}=<another value>" if (with_defaults and i >= star) else nm)
                        exec(f"def pricer({', '.join(parts)}):\n    return target({', '.join(nm + '=' + nm for nm in names)}, **fixed)\n", ns)
                        pricer = ns["pricer"]
                        desc = f"def pricer({', '.join(shown)})"
                    else:
                        wrt_name = {"delta": "log_moneyness", "gamma": "log_moneyness", "vega": "volatility", "theta": "time_to_maturity"}[greek]
                        cands = [nm for nm in names if nm not in (wrt_name, "strike", "log_moneyness" if greek in ("delta", "gamma") else "")]
                        b_ = g.choice(cands)
                        overridden = g.chance(0.5)
                        pricer = partial_(target, **{b_: decoy[b_] if overridden else right[b_]}, **fixed)
                        if not overridden:
                            del params[b_]
                        desc = f"functools.partial(price, {b_}=<{'another value, overridden by the call' if overridden else 'the value, not passed again'}>)"
                    price_of = lambda S, t, v: target(**(right | {"log_moneyness": (S / k_).log(), "time_to_maturity": t, "volatility": v}
                                                         | ({"strike": k_} if takes_strike else {}) | fixed))
                    ref = harness_greeks(torch, price_of, (s_.exp() * k_), t_, v_)[greek]
                    site = f"autogreek[{wrapper}:{'bs_' + fam + '_price' if functional else fam + '.price'}]"
                    st, val, _ = call_impl(getattr(ag, greek), pricer, **params)
                    case = {"signature": desc, "family": fam, "greek": greek, "price": "functional" if functional else "module", "call": call, "k": k_,
                            "s": s_.tolist(), "m": m_.tolist() if pd else None, "t": t_.tolist(), "v": v_.tolist(), "passed": sorted(params)}
                    ctx.case(case, True, tag="bs_price_keyword_only")
                    ctx.stats[f"bs_price_keyword_only={wrapper}:{fam}.{greek}"] += 1
                    ctx.traces += 1
                    if st != "ok":
                        ctx.fail("autogreek raised on a Black-Scholes price whose parameters are keyword-only (declared after `*` / after a parameter "
                                 "bound by keyword with functools.partial)", case, key=f"{site}.{greek}:keyword-only:error", detail=val)
                        continue
                    bad = first_mismatch(val, ref, 1e-10, FLOORS(fam, greek, k_)) if tuple(val.shape) == tuple(ref.shape) else (None, list(val.shape), list(ref.shape))
                    if bad:
                        ctx.fail(f"autogreek.{greek} of a Black-Scholes price with keyword-only parameters is not the derivative of that price at the "
                                 "values passed", case, key=f"{site}.{greek}:keyword-only:not-derivative",
                                 detail={"element": bad[0], "autogreek": bad[1], "derivative_of_price": bad[2]})
                        continue
                    to_dual({"signature": desc, "route": site}, fam, greek, call, k_, s_, m_, t_, v_, val)
    # ---------------- Greeks under a changed GLOBAL autograd state: inside torch.no_grad() / torch.set_grad_enabled(False) / torch.inference_mode()
    # and after torch.set_default_dtype(torch.float64) (float64 and float32 data).  Every state x family x Greek through the module (always;
    # for delta also through the module's forward, the call a hedger makes) and one more route (functional form, autogreek on the module's
    # price); see may_refuse for what may answer
    # with autograd's RuntimeError - a value that is returned has to be the derivative in every state.  References are taken before the
    # state is entered; float64 results also go to the model (op bs_dual).
    import contextlib

    @contextlib.contextmanager
    def default_float64():
        old = torch.get_default_dtype()
        torch.set_default_dtype(torch.float64)
        try:
            yield
        finally:
            torch.set_default_dtype(old)

    def run_in_state(state, fn_, *a, **kw):
        grad0, dtype0 = torch.is_grad_enabled(), torch.get_default_dtype()
        try:
            with contextlib.ExitStack() as stack:
                if "default_dtype=float64" in state:
                    stack.enter_context(default_float64())
                if "no_grad" in state:
                    stack.enter_context(torch.no_grad())
                if state == "set_grad_enabled(False)":
                    stack.enter_context(torch.set_grad_enabled(False))
                if state == "inference_mode":
                    stack.enter_context(torch.inference_mode())
                return call_impl(fn_, *a, **kw)
        finally:
            torch.set_grad_enabled(grad0)
            torch.set_default_dtype(dtype0)

    def judge_state(site, route, fam, greek, state, st, val, ref, rel, floor, f64, case):
        """True iff a value came back and it is the derivative"""
        if st != "ok":
            if may_refuse(state, route, fam, greek) and val == "runtime_error":
                ctx.stats[f"grad_state_refused={state}:{route}"] += 1
                return False
            ctx.fail(f"{site}.{greek} raised under the global state {state} (the same call answers in the default state, and this route does not "
                     "depend on the caller's gradient mode)", case, key=f"{site}.{greek}:{state}:error", detail=val)
            return False
        if tuple(val.shape) != tuple(ref.shape):
            ctx.fail(f"{site}.{greek} under {state}: shape {tuple(val.shape)} instead of {tuple(ref.shape)}", case,
                     key=f"{site}.{greek}:{state}:not-derivative", detail={"shape": list(val.shape)})
            return False
        if f64 and val.dtype != torch.float64:
            ctx.fail(f"{site}.{greek} of float64 inputs is not float64 under {state}", case, key=f"{site}.{greek}:{state}:dtype", detail=str(val.dtype))
            return False
        bad = first_mismatch(val, ref, rel, floor)
        if bad:
            ctx.fail(f"{site}.{greek} is not the derivative of the price under the global state {state}", case,
                     key=f"{site}.{greek}:{state}:not-derivative", detail={"element": bad[0], "greek": bad[1], "derivative_of_price": bad[2]})
            return False
        return True

    for _ in range(1 if ctx.tier == "quick" else 8):
        for state in GRAD_STATES:
            for fam in FAMS:
                for greek in ("delta", "gamma", "vega", "theta"):
                    pd = fam in ("american_binary", "lookback")
                    call = g.chance(0.5) if not pd else True
                    k_ = g.choice(DYADIC_STRIKES) if g.chance(0.5) else g.r.uniform(0.4, 2.5)
                    f64 = not ("default_dtype" in state and g.chance(0.5))
                    s_, m_, t_, v_ = tame_point(fam, g.small((1, 2, 3)), torch.float64 if f64 else torch.float32)
                    mod = MODS[fam](strike=k_) if pd else MODS[fam](call=call, strike=k_)
                    s6, m6, t6, v6 = (x.to(torch.float64) for x in (s_, m_, t_, v_))
                    pr = (lambda S, t, v: mod.price((S / k_).log(), m6, t, v)) if pd else (lambda S, t, v: mod.price((S / k_).log(), t, v))
                    ref = harness_greeks(torch, pr, s6.exp() * k_, t6, v6)[greek]
                    # float64: both sides double-precision evaluations of the same smooth price on a tame box, as in the sessions; float32 data:
                    # the reference is the double-precision derivative at the same (float32) point, single-precision rounding through one or two
                    # reverse passes stays below 1e-4 of max(|Greek|, floor) on this box (measured), a wrong Greek is off by O(1)
                    rel, floor = (1e-10 if f64 else 2e-3), FLOORS(fam, greek, k_)
                    routes = ["module", g.choice(["functional", "functional", "autogreek"])] + (["forward"] if greek == "delta" else [])
                    for route in routes:
                        C = lambda x: x.clone()
                        args = (C(s_), C(m_), C(t_), C(v_)) if pd else (C(s_), C(t_), C(v_))
                        rref = ref
                        if route == "module":
                            site = f"module:{fam}"
                            st, val, _ = run_in_state(state, getattr(mod, greek), *args)
                        elif route == "forward":
                            site = f"forward:{fam}"
                            st, val, _ = run_in_state(state, mod, torch.stack(args, dim=-1))
                            rref = ref.unsqueeze(-1)
                        elif route == "functional":
                            site = f"bs_{fam}"
                            st, val, _ = run_in_state(state, call_bs, torch, f"{fam}_{greek}", C(s_), C(t_), C(v_), k_, C(m_), call)
                        else:
                            site = f"autogreek[{fam}.price]"
                            params = {"log_moneyness": C(s_), "time_to_maturity": C(t_), "volatility": C(v_), "strike": k_}
                            if pd:
                                params["max_log_moneyness"] = C(m_)
                            st, val, _ = run_in_state(state, getattr(ag, greek), mod.price, **params)
                        case = {"global_state": state, "route": route, "family": fam, "greek": greek, "call": call, "k": k_,
                                "dtype": "float64" if f64 else "float32", "s": s_.tolist(), "m": m_.tolist() if pd else None, "t": t_.tolist(), "v": v_.tolist()}
                        ctx.case(case, True, tag="grad_state")
                        ctx.stats[f"grad_state={state}:{route}:{fam}"] += 1
                        ctx.traces += 1
                        if judge_state(site, route, fam, greek, state, st, val, rref, rel, floor, f64, case) and f64:
                            to_dual({"global_state": state, "route": site}, fam, greek, call, k_, s_, m_, t_, v_, val)
            # user pricers in the same state (pfhedge.autogreek may refuse where recording is off, see may_refuse)
            for greek in ("delta", "gamma", "vega", "theta"):
                spotpar, volpar = g.choice(["spot", "moneyness", "log_moneyness"]), g.choice(["volatility", "variance"])
                with_strike = spotpar != "spot" and g.chance(0.5)
                core, form = make_pricer(g, torch, spotpar, volpar)
                pricer = named_pricer(torch, core, spotpar, volpar, with_strike)
                n_ = g.small((1, 2, 3))
                f64 = not ("default_dtype" in state and g.chance(0.5))
                dt = torch.float64 if f64 else torch.float32
                Kf = g.choice(DYADIC_STRIKES[:5])
                S_ = torch.tensor([g.r.uniform(0.5, 2.0) for _ in range(n_)], dtype=dt)
                V_ = torch.tensor([g.r.uniform(0.1, 0.8) for _ in range(n_)], dtype=dt)
                T_ = torch.tensor([g.r.uniform(0.2, 2.0) for _ in range(n_)], dtype=dt)
                x_of = (lambda S: S) if (spotpar == "spot" or with_strike) else (lambda S: S / Kf)
                ref = harness_greeks(torch, lambda S, t, v: core(x_of(S), v, t, torch), S_.double(), T_.double(), V_.double())[greek]
                params = {spotpar: S_.clone() if spotpar == "spot" else S_ / Kf if spotpar == "moneyness" else (S_.double() / Kf).log().to(dt),
                          volpar: V_.clone() if volpar == "volatility" else V_.double().square().to(dt), "time_to_maturity": T_.clone()}
                if spotpar != "spot":
                    params["strike"] = Kf
                st, val, _ = run_in_state(state, getattr(ag, greek), pricer, **params)
                case = {"global_state": state, "route": "autogreek[user]", "greek": greek, "spot_param": spotpar, "vol_param": volpar,
                        "pricer_has_strike": with_strike, "form": form, "K": Kf, "dtype": "float64" if f64 else "float32",
                        "S": S_.tolist(), "vol": V_.tolist(), "t": T_.tolist()}
                ctx.case(case, True, tag="grad_state")
                ctx.stats[f"grad_state={state}:autogreek[user]"] += 1
                ctx.traces += 1
                # float32 data: the moneyness / log-moneyness / variance handed over are themselves rounded to single precision
                judge_state(f"autogreek[user:{spotpar}/{volpar}]", "autogreek[user]", "user", greek, state, st, val, ref, 1e-9 if f64 else 5e-3, 1.0, f64, case)
    # ---------------- TENSOR-valued strikes (TensorOrScalar is accepted throughout the functional layer and by every module): one strike for
    # all elements as a 0-dim or (1,) float64 tensor, one strike per element, one per path against paths x steps.  Every family x Greek on
    # every tier through the module built with that strike (every strike form), the module's forward (delta), the functional form and
    # autogreek on the module's price.  The Greek has to be the derivative of the module's own / the functional price at the strike of
    # each element; reference: the harness's reverse-mode derivative of that price on fresh leaves; float64 results also to the model.
    def tensor_strike(form, F):
        kv = lambda: g.choice(DYADIC_STRIKES) if g.chance(0.3) else g.r.uniform(0.4, 2.5)
        shape = {"0-dim": (), "(1,)": (1,), "per-element": tuple(F), "per-path": (F[0], 1)}[form]
        return torch.tensor([kv() for _ in range(math.prod(shape))], dtype=torch.float64).reshape(shape)

    for _ in range(1 if ctx.tier == "quick" else 6):
        for fam in FAMS:
            for greek in ("delta", "gamma", "vega", "theta"):
                pd = fam in ("american_binary", "lookback")
                plan = [("module", form) for form in ("0-dim", "(1,)", "per-element", "per-path")]
                plan += [("functional", g.choice(["0-dim", "(1,)", "per-element", "per-path"])),
                         ("autogreek", g.choice(["0-dim", "(1,)", "per-element", "per-path"]))]
                if greek == "delta":
                    plan.append(("forward", g.choice(["0-dim", "(1,)"])))     # the features of forward carry one more dimension
                for route, form in plan:
                    call = g.chance(0.5) if not pd else True
                    F = (g.choice([2, 3]), g.choice([2, 3])) if form == "per-path" else g.choice([(1,), (2,), (3,), (2, 2)])
                    K = tensor_strike(form, F)
                    s_, m_, t_, v_ = (x.reshape(F) for x in tame_point(fam, math.prod(F)))
                    mod = MODS[fam](strike=K) if pd else MODS[fam](call=call, strike=K)
                    Kx = K.expand(F)
                    if route == "functional":
                        pr = lambda S, t, v: call_bs(torch, fam + "_price", (S / Kx).log(), t, v, Kx, m_, call)
                    elif pd:
                        pr = lambda S, t, v: mod.price((S / Kx).log(), m_, t, v)
                    else:
                        pr = lambda S, t, v: mod.price((S / Kx).log(), t, v)
                    ref = harness_greeks(torch, pr, s_.exp() * Kx, t_, v_)[greek]
                    C = lambda x: x.clone()
                    args = (C(s_), C(m_), C(t_), C(v_)) if pd else (C(s_), C(t_), C(v_))
                    if route == "module":
                        site = f"module:{fam}"
                        st, val, _ = call_impl(getattr(mod, greek), *args)
                    elif route == "forward":
                        site = f"forward:{fam}"
                        st, val, _ = call_impl(mod, torch.stack(args, dim=-1))
                        ref = ref.unsqueeze(-1)
                    elif route == "functional":
                        site = f"bs_{fam}"
                        st, val, _ = call_impl(call_bs, torch, f"{fam}_{greek}", C(s_), C(t_), C(v_), K, C(m_), call)
                    else:
                        site = f"autogreek[{fam}.price]"
                        params = {"log_moneyness": C(s_), "time_to_maturity": C(t_), "volatility": C(v_), "strike": K}
                        if pd:
                            params["max_log_moneyness"] = C(m_)
                        st, val, _ = call_impl(getattr(ag, greek), mod.price, **params)
                    case = {"tensor_strike": form, "route": route, "family": fam, "greek": greek, "call": call, "K": K.tolist(), "shape": list(F),
                            "s": s_.tolist(), "m": m_.tolist() if pd else None, "t": t_.tolist(), "v": v_.tolist()}
                    ctx.case(case, True, tag="tensor_strike")
                    ctx.stats[f"tensor_strike={route}:{fam}:{form}"] += 1
                    ctx.traces += 1
                    if st != "ok":
                        ctx.fail(f"{site}.{greek} raised for a strike given as a tensor ({form})", case, key=f"{site}.{greek}:tensor-strike:error", detail=val)
                        continue
                    if tuple(val.shape) != tuple(ref.shape):
                        bad = (None, list(val.shape), list(ref.shape))
                    elif val.dtype != torch.float64:
                        bad = (None, str(val.dtype), "float64")
                    else:
                        # both sides double-precision evaluations of the same smooth price on the tame box of the sessions
                        bad = first_mismatch(val, ref, 1e-10, FLOORS(fam, greek, float(Kx.min())))
                    if bad:
                        ctx.fail(f"{site}.{greek} is not the {greek} (derivative) of the price when the strike is given as a tensor ({form})", case,
                                 key=f"{site}.{greek}:tensor-strike:not-derivative", detail={"element": bad[0], "greek": bad[1], "derivative_of_price": bad[2]})
                        continue
                    to_dual({"tensor_strike": form, "route": site}, fam, greek, call, K, s_, m_, t_, v_, val)
    # ---------------- ENTANGLED inputs: the arguments come out of a differentiable pipeline of the caller - one of them (log-moneyness, time to
    # maturity or volatility: the root) has requires_grad=True (a leaf, or the result of a tracked computation) and the OTHER arguments were
    # computed from it (the running maximum as log_moneyness.cummax(-1).values - how it is built from a path - or shifted by a multiple of
    # root - root.detach(), which leaves the values alone and ties the graphs).  A Greek is a function of the VALUES of its arguments: the
    # partial derivative of the price with the other arguments held at the values given, whatever graph the caller's tensors hang in.
    # Every family x Greek x root on every tier through the functional form, the module (forward for delta) and autogreek on the module's
    # price; reference: the harness's derivative on fresh detached leaves.  pfhedge.autogreek.vega / theta called directly return by
    # definition the gradient with respect to the caller's own tensor (see the grids), so there the root is never that tensor.
    for _ in range(1 if ctx.tier == "quick" else 6):
        for fam in FAMS:
            for greek in ("delta", "gamma", "vega", "theta"):
                for root in ("s", "t", "v"):
                    pd = fam in ("american_binary", "lookback")
                    call = g.chance(0.5) if not pd else True
                    k_ = g.choice(DYADIC_STRIKES) if g.chance(0.5) else g.r.uniform(0.4, 2.5)
                    F = g.choice([(1,), (3,), (4,), (2, 3), (3, 4), (1, 3)])
                    base = dict(zip("smtv", (x.reshape(F) for x in tame_point(fam, math.prod(F)))))
                    use_cummax = pd and root == "s" and g.chance(0.6)
                    if use_cummax:
                        while True:
                            base["m"] = base["s"].cummax(-1).values
                            if fam != "lookback" or not bool((base["m"].abs() < 0.02).any()):
                                break
                            base["s"] = base["s"] + 0.05                              # away from the branch kink max = strike
                    leaf = g.chance(0.5)
                    R = base[root].clone().requires_grad_()
                    R = R if leaf else R * 1.0
                    ten, coef = {root: R}, {}
                    for nm in "smtv":
                        if nm == root:
                            continue
                        if nm == "m" and use_cummax:
                            ten["m"] = R.cummax(-1).values
                            continue
                        coef[nm] = g.choice([-1.0, 1.0]) * g.r.uniform(0.5, 2.0)
                        ten[nm] = base[nm] + coef[nm] * (R - R.detach())                    # the value of base[nm], a function of the root
                    mod = MODS[fam](strike=k_) if pd else MODS[fam](call=call, strike=k_)
                    M = base["m"]
                    wrt = {"delta": "s", "gamma": "s", "vega": "v", "theta": "t"}[greek]
                    routes = ["functional", "module"] + (["autogreek"] if (root != wrt or wrt == "s") else []) + (["forward"] if greek == "delta" else [])
                    for route in routes:
                        if route == "functional":
                            pr = lambda S, t, v: call_bs(torch, fam + "_price", (S / k_).log(), t, v, k_, M, call)
                        elif pd:
                            pr = lambda S, t, v: mod.price((S / k_).log(), M, t, v)
                        else:
                            pr = lambda S, t, v: mod.price((S / k_).log(), t, v)
                        ref = harness_greeks(torch, pr, base["s"].exp() * k_, base["t"], base["v"])[greek]
                        args = (ten["s"], ten["m"], ten["t"], ten["v"]) if pd else (ten["s"], ten["t"], ten["v"])
                        if route == "module":
                            site = f"module:{fam}"
                            st, val, _ = call_impl(getattr(mod, greek), *args)
                        elif route == "forward":
                            site = f"forward:{fam}"
                            st, val, _ = call_impl(mod, torch.stack(args, dim=-1))
                            ref = ref.unsqueeze(-1)
                        elif route == "functional":
                            site = f"bs_{fam}"
                            st, val, _ = call_impl(call_bs, torch, f"{fam}_{greek}", ten["s"], ten["t"], ten["v"], k_, ten["m"], call)
                        else:
                            site = f"autogreek[{fam}.price]"
                            params = {"log_moneyness": ten["s"], "time_to_maturity": ten["t"], "volatility": ten["v"], "strike": k_}
                            if pd:
                                params["max_log_moneyness"] = ten["m"]
                            st, val, _ = call_impl(getattr(ag, greek), mod.price, **params)
                        case = {"entangled_inputs": route, "family": fam, "greek": greek, "call": call, "k": k_, "shape": list(F),
                                "root": {"s": "log_moneyness", "t": "time_to_maturity", "v": "volatility"}[root] + (" (leaf" if leaf else " (non-leaf")
                                + ", requires_grad=True)",
                                "others": {nm: ("root.cummax(-1).values" if (nm == "m" and use_cummax) else f"value + {coef[nm]:.4g} * (root - root.detach())")
                                           for nm in ("smtv" if pd else "stv") if nm != root},
                                "s": base["s"].tolist(), "m": M.tolist() if pd else None, "t": base["t"].tolist(), "v": base["v"].tolist()}
                        ctx.case(case, True, tag="entangled_inputs")
                        ctx.stats[f"entangled_inputs={route}:{fam}:root={root}{'/cummax' if use_cummax else ''}"] += 1
                        ctx.traces += 1
                        if st != "ok":
                            ctx.fail(f"{site}.{greek} raised when its arguments are tracked by autograd and computed from one another", case,
                                     key=f"{site}.{greek}:entangled-inputs:error", detail=val)
                            continue
                        if tuple(val.shape) != tuple(ref.shape):
                            bad = (None, list(val.shape), list(ref.shape))
                        else:
                            # both sides double-precision evaluations of the same smooth price on the tame box of the sessions
                            bad = first_mismatch(val, ref, 1e-10, FLOORS(fam, greek, k_))
                        if bad:
                            key = f"{site}.{greek}:entangled-inputs:not-derivative"
                            if route == "module" and root == wrt and wrt in "tv":
                                # the autograd-based module vega / theta differentiate by the caller's own volatility / time tensor: one input class
                                key = "module.vega/theta:entangled-inputs:other-arguments-computed-from-the-differentiated-tensor"
                            ctx.fail(f"{site}.{greek} is not the partial derivative of the price at the given arguments when the caller's tensors require "
                                     "grad and were computed from one another (the Greek follows the caller's graph into the other arguments)", case,
                                     key=key,
                                     detail={"element": bad[0], "greek": bad[1], "derivative_of_price": bad[2]})
                            continue
                        to_dual({"entangled_inputs": root, "route": site}, fam, greek, call, k_, base["s"], M, base["t"], base["v"], val)
    # ---------------- RE-ASSIGNED attributes: a Black-Scholes module that has already been used is re-used for another contract by assigning its
    # public attributes (`strike` - a float or a 0-dim float64 tensor - for every kind; `call` for the kinds that have puts), two to four
    # times in a row (strike, call, both at once).  After EVERY re-assignment the module has to behave as a freshly constructed one with the
    # terms its attributes show: every Greek - through the module, its forward (delta) and autogreek on its price - is the derivative of the
    # module's OWN price at that moment (harness derivative of mod.price on fresh leaves, the spot taken with the strike the attribute
    # shows), and price and Greeks are those of a new module built with these terms (same arithmetic on the same tensors: equal bit by
    # bit).  A second instance of the same class with other terms is alive all along: nothing done to the first may reach it (state kept
    # on the class).  Every kind x Greek on every tier; float64 results also to the model (op bs_dual, the terms the attributes show).
    QUANTS = ("price", "delta", "gamma", "vega", "theta")
    for _ in range(1 if ctx.tier == "quick" else 6):
        for fam in FAMS:
            pd = fam in ("american_binary", "lookback")
            kv = lambda: g.choice(DYADIC_STRIKES) if g.chance(0.3) else g.r.uniform(0.4, 2.5)
            build = (lambda c_, k__: MODS[fam](strike=k__)) if pd else (lambda c_, k__: MODS[fam](call=c_, strike=k__))
            call_, k_ = (g.chance(0.5) if not pd else True), kv()
            mod = build(call_, k_)
            call_b, k_b = ((not call_) if not pd else True), kv()
            other = build(call_b, k_b)
            F = g.choice([(2,), (3,), (2, 2)])
            pts = lambda: tuple(x.reshape(F) for x in tame_point(fam, math.prod(F)))
            arg_of = lambda s__, m__, t__, v__: (s__.clone(), m__.clone(), t__.clone(), v__.clone()) if pd else (s__.clone(), t__.clone(), v__.clone())
            pts_b = pts()
            other_before = {q: call_impl(getattr(other, q), *arg_of(*pts_b))[:2] for q in QUANTS}
            for q in QUANTS:                                    # the module is in use before its terms change
                call_impl(getattr(mod, q), *arg_of(*pts()))
            history = [f"{type(mod).__name__}(call={call_}, strike={k_!r})"]
            if pd:
                steps = ["strike"] * g.randint(2, 3)
            else:
                steps = ["strike", "call", "strike+call"]
                g.r.shuffle(steps)
                if g.chance(0.5):
                    steps.append(g.choice(["strike", "call"]))
            for what in steps:
                if "strike" in what:
                    k_new = kv()
                    while abs(k_new - float(k_)) < 0.05 * float(k_):
                        k_new = kv()
                    k_ = torch.tensor(k_new, dtype=torch.float64) if g.chance(0.25) else k_new
                    mod.strike = k_
                    history.append(f".strike = {'torch.tensor(%r, dtype=torch.float64)' % k_new if isinstance(k_, torch.Tensor) else repr(k_new)}")
                if "call" in what:
                    call_ = not call_
                    mod.call = call_
                    history.append(f".call = {call_}")
                kf = float(k_)
                fresh = build(call_, k_)
                s_, m_, t_, v_ = pts()
                pr = (lambda S, t, v: mod.price((S / kf).log(), m_, t, v)) if pd else (lambda S, t, v: mod.price((S / kf).log(), t, v))
                refs = harness_greeks(torch, pr, s_.exp() * kf, t_, v_)
                base_case = {"reassigned": what, "family": fam, "history": list(history), "terms_now": {"call": call_, "strike": kf},
                             "strike_given_as": "float64-tensor" if isinstance(k_, torch.Tensor) else "float", "shape": list(F),
                             "s": s_.tolist(), "m": m_.tolist() if pd else None, "t": t_.tolist(), "v": v_.tolist()}
                for quant in QUANTS:
                    routes = ["module"] + (["autogreek"] if quant != "price" else []) + (["forward"] if quant == "delta" else [])
                    for route in routes:
                        outs = []
                        for mm in (mod, fresh):
                            args = arg_of(s_, m_, t_, v_)
                            if route == "module":
                                outs.append(call_impl(getattr(mm, quant), *args))
                            elif route == "forward":
                                outs.append(call_impl(mm, torch.stack(args, dim=-1)))
                            else:
                                params = {"log_moneyness": args[0], "time_to_maturity": args[-2], "volatility": args[-1], "strike": k_}
                                if pd:
                                    params["max_log_moneyness"] = args[1]
                                outs.append(call_impl(getattr(ag, quant), mm.price, **params))
                        (st, val, _), (st_f, val_f, _) = outs
                        site = {"module": f"module:{fam}", "forward": f"forward:{fam}", "autogreek": f"autogreek[{fam}.price]"}[route]
                        case = base_case | {"route": route, "quantity": quant}
                        ctx.case(case, True, tag="reassigned_attributes")
                        ctx.stats[f"reassigned_attributes={route}:{fam}:{what}"] += 1
                        ctx.traces += 1
                        if st != "ok":
                            ctx.fail(f"{site}.{quant} raised after the module's public attribute(s) {what} were re-assigned", case,
                                     key=f"{site}.{quant}:reassigned-{what}:error", detail=val)
                            continue
                        if quant != "price":
                            ref = refs[quant].unsqueeze(-1) if route == "forward" else refs[quant]
                            if tuple(val.shape) != tuple(ref.shape):
                                bad = (None, list(val.shape), list(ref.shape))
                            else:
                                # both sides double-precision evaluations of the same smooth price on the tame box of the sessions
                                bad = first_mismatch(val, ref, 1e-10, FLOORS(fam, quant, kf))
                            if bad:
                                ctx.fail(f"{site}.{quant} is not the {quant} (derivative) of the module's own price after the module's public "
                                         f"attribute(s) {what} were re-assigned (price and Greeks of one module belong to different contracts)", case,
                                         key=f"{site}.{quant}:reassigned-{what}:not-derivative",
                                         detail={"element": bad[0], "greek": bad[1], "derivative_of_own_price": bad[2]})
                                continue
                        if st_f != "ok" or tuple(val.shape) != tuple(val_f.shape) or val.dtype != val_f.dtype or not torch.equal(val.detach(), val_f.detach()):
                            ctx.fail(f"{site}.{quant} of a module whose public attribute(s) {what} were re-assigned differs from the one of a freshly "
                                     "constructed module with the same terms", case, key=f"{site}.{quant}:reassigned-{what}:differs-from-fresh-module",
                                     detail={"reused_module": val.detach().reshape(-1).tolist()[:6],
                                             "fresh_module": val_f.detach().reshape(-1).tolist()[:6] if st_f == "ok" else val_f})
                            continue
                        if quant != "price" and val.dtype == torch.float64:
                            to_dual({"reassigned": what, "route": site, "history": list(history)}, fam, quant, call_, kf, s_, m_, t_, v_,
                                    val.squeeze(-1) if route == "forward" else val)
            # the instance that was left alone
            for q in QUANTS:
                st, val, _ = call_impl(getattr(other, q), *arg_of(*pts_b))
                st0, val0 = other_before[q]
                case = {"two_instances": fam, "quantity": q, "untouched_instance": {"call": call_b, "strike": k_b}, "history_of_the_other_instance": list(history),
                        "s": pts_b[0].tolist(), "m": pts_b[1].tolist() if pd else None, "t": pts_b[2].tolist(), "v": pts_b[3].tolist()}
                ctx.case(case, True, tag="two_instances")
                ctx.stats[f"two_instances={fam}"] += 1
                ctx.traces += 1
                if st != st0 or (st == "ok" and not torch.equal(val.detach(), val0.detach())) or (st != "ok" and val != val0):
                    ctx.fail(f"module:{fam}.{q} of an instance nobody touched changed while the attributes of ANOTHER instance of the class were "
                             "re-assigned", case, key=f"module:{fam}.{q}:two-instances:changed-by-another-instance",
                             detail={"before": val0.detach().reshape(-1).tolist()[:6] if st0 == "ok" else val0,
                                     "after": val.detach().reshape(-1).tolist()[:6] if st == "ok" else val})
    for req_, meta_ in grid_dual:
        dual_reqs.append(req_)
        dual_meta.append(meta_)
    try:
        douts = ctx.driver(dual_reqs)
    except DriverBroken as e:
        ctx.ties_broken.append({"kind": "driver", "detail": str(e)[:1500]})
        douts = []
    for (case, got), mo in zip(dual_meta, douts):
        o = mo[0]
        # second-order quantities go through two levels of differentiation of erf-based formulas on both sides
        tol = 2e-5 if case["greek"] == "gamma" else 1e-7
        if case.get("fn", "").startswith("lookback_") or case.get("module") == "lookback":
            # functional lookback vega / theta are computed from the (second-order) gamma; the lookback formula cancels at small t
            tol = 2e-5 if case["greek"] != "delta" else 2e-6
        if "ok" not in o or not rel_close(got, float_of_bits(o["ok"]), tol, 1e-9):
            ctx.disagree("module_greek_vs_dual_model", case, got, float_of_bits(o["ok"]) if "ok" in o else o)
    # ---------------- autogreek on user pricers, every accepted parameterisation
    # (all user-pricer sections: the pricer is called through `recording`, and every call goes, element by element, to the model's glue -
    # op "autogreek": which keyword arguments the pricer receives, with which values, which error, which Greek; compared after the last section)
    glue = []
    for _ in range(300 if ctx.tier == "quick" else 2500):
        spotpar = g.choice(["spot", "moneyness", "log_moneyness"])
        volpar = g.choice(["volatility", "variance"])
        greek = g.choice(["delta", "gamma", "vega", "theta"])
        core, form = make_pricer(g, torch, spotpar, volpar)
        K = g.choice([1.0, 2.0, 0.5])
        S0, vol0, t0 = g.r.uniform(0.5, 2.0), g.r.uniform(0.1, 0.8), g.r.uniform(0.2, 2.0)

        def x_of(S, tt):           # the spot-like quantity the pricer receives
            return S if spotpar == "spot" else (S / K if spotpar == "moneyness" else (tt.log(S / K) if tt is math else None))

        # pricer with exactly the chosen parameter names
        def mk():
            if spotpar == "spot":
                xs = lambda spot: spot
            elif spotpar == "moneyness":
                xs = lambda moneyness: moneyness
            else:
                xs = lambda log_moneyness: torch.exp(log_moneyness)
            vs = (lambda volatility: volatility) if volpar == "volatility" else (lambda variance: torch.sqrt(variance))
            src = f"def pricer({spotpar}, {volpar}, time_to_maturity):\n    return core(xs({spotpar}), vs({volpar}), time_to_maturity, torch)\n"
            ns = {"core": core, "xs": xs, "vs": vs, "torch": torch}
            exec(src, ns)
            return ns["pricer"]
        pricer = mk()

        def price_scalar(S, vol, t):
            x = S if spotpar == "spot" else (S / K if spotpar == "moneyness" else S / K)   # exp(log(S/K)) = S/K
            return core(x, vol, t, math)
        T = lambda x: torch.tensor([x], dtype=torch.float64)
        params = {"time_to_maturity": T(t0)}
        if spotpar == "spot":
            params["spot"] = T(S0)
        elif spotpar == "moneyness":
            params["moneyness"] = T(S0 / K)
            params["strike"] = K
        else:
            params["log_moneyness"] = T(math.log(S0 / K))
            params["strike"] = K
        if volpar == "volatility":
            params["volatility"] = T(vol0)
        else:
            params["variance"] = T(vol0 * vol0)
        glog = []
        st, val, _ = call_impl(getattr(ag, greek), recording(pricer, glog), **params)
        case = {"autogreek": greek, "spot_param": spotpar, "vol_param": volpar, "form": form, "S": S0, "vol": vol0, "t": t0, "K": K}
        ctx.case(case, True, tag="autogreek")
        ctx.stats[f"autogreek={greek}/{spotpar}/{volpar}"] += 1
        ctx.traces += 1
        glue.extend(glue_items(torch, greek, pricer, params, glog, st, val, (1,), case))
        if st != "ok":
            ctx.fail("autogreek raised on a smooth pricer", case, key=f"autogreek.{greek}:{spotpar}:{volpar}:error", detail=val)
            continue
        got = float(val)
        if greek == "delta":
            fd = richardson(lambda S: price_scalar(S, vol0, t0), S0, 1e-3 * S0)
        elif greek == "gamma":
            fd = richardson2(lambda S: price_scalar(S, vol0, t0), S0, 2e-3 * S0)
        elif greek == "vega":
            fd = richardson(lambda vv: price_scalar(S0, vv, t0), vol0, 1e-3 * vol0)
        else:
            fd = -richardson(lambda tt_: price_scalar(S0, vol0, tt_), t0, 1e-3 * t0)
        if abs(got - fd) > 1e-5 * max(1.0, abs(fd)):
            ctx.fail(f"autogreek.{greek} is not the derivative of the user pricer with respect to the spot / volatility / (minus) time",
                     case, key=f"autogreek.{greek}:{spotpar}:{volpar}", detail={"autogreek": got, "finite_difference": fd})
    # ---------------- autogreek on user pricers: the parameterisation GIVEN to autogreek and the names the pricer is written in chosen
    # independently where autogreek derives one from the other (spot / moneyness / log_moneyness once a strike is given, for delta and
    # gamma; volatility / variance for vega), tensors of different broadcastable shapes (the differentiated one has the full shape),
    # volatilities / variances / maturities far below 1; reference = the harness's own reverse-mode derivative on fresh leaves
    for _ in range(260 if ctx.tier == "quick" else 2600):
        greek = g.choice(["delta", "gamma", "vega", "vega", "theta"])
        given_spot = g.choice(["spot", "spot+strike", "moneyness", "log_moneyness"])
        given_vol = g.choice(["volatility", "variance"])
        has_strike = given_spot != "spot"
        gs = given_spot.split("+")[0]
        p_spot = g.choice(["spot", "moneyness", "log_moneyness"]) if (greek in ("delta", "gamma") and has_strike) else gs
        p_vol = g.choice(["volatility", "variance"]) if greek == "vega" else given_vol
        with_strike = has_strike and g.chance(0.5)
        tiny = g.chance(0.5)
        core, form = make_vol_pricer(g, torch) if g.chance(0.7 if tiny else 0.3) else make_pricer(g, torch, p_spot, p_vol)
        pricer = named_pricer(torch, core, p_spot, p_vol, with_strike)
        wrt = {"delta": "x", "gamma": "x", "vega": "v", "theta": "t"}[greek]
        F, shapes = grid_shapes(g, "xvt", {wrt}, p_full=0.5, fulls=((1,), (2,), (3,), (2, 2), (2, 3)))
        cnt = {nm: math.prod(sh) for nm, sh in shapes.items()}
        Kf = g.choice(DYADIC_STRIKES[:5]) if g.chance(0.5) else g.r.uniform(0.4, 2.5)
        strike_form = "float" if Kf in DYADIC_STRIKES else "float64-tensor"
        K = Kf if strike_form == "float" else torch.tensor(Kf, dtype=torch.float64)
        v_b = 10 ** g.r.uniform(-3.7, -1.7) if tiny else g.r.uniform(0.1, 0.8)
        t_b = 10 ** g.r.uniform(-3, -0.7) if (tiny and g.chance(0.3)) else g.r.uniform(0.2, 2.0)
        w_b = v_b * math.sqrt(t_b)
        vol0 = [v_b * g.r.uniform(0.8, 1.25) for _ in range(cnt["v"])]
        t0 = [t_b * g.r.uniform(0.8, 1.25) for _ in range(cnt["t"])]
        near = g.chance(0.5)            # spot within a few total volatilities of the strike, or anywhere
        S0 = [Kf * math.exp(w_b * g.r.uniform(-2, 2)) if near else g.r.uniform(0.5, 2.0) for _ in range(cnt["x"])]
        T_ = lambda xs, nm: torch.tensor(xs, dtype=torch.float64).reshape(shapes[nm])
        X = T_(S0 if gs == "spot" else [s_ / Kf for s_ in S0] if gs == "moneyness" else [math.log(s_ / Kf) for s_ in S0], "x")
        VP = T_(vol0 if given_vol == "volatility" else [v_ * v_ for v_ in vol0], "v")
        TM = T_(t0, "t")
        E = lambda x: x.detach().expand(F).clone()
        Sx = E(X if gs == "spot" else X * Kf if gs == "moneyness" else X.exp() * Kf)
        Vx = E(VP if given_vol == "volatility" else VP.sqrt())
        x_of = (lambda S: S) if (p_spot == "spot" or with_strike) else (lambda S: S / Kf)
        ref = harness_greeks(torch, lambda S, t, v: core(x_of(S), v, t, torch), Sx, E(TM), Vx)[greek].reshape(-1)
        params = {gs: X, given_vol: VP, "time_to_maturity": TM}
        if has_strike:
            params["strike"] = K
        glog = []
        st, val, _ = call_impl(getattr(ag, greek), recording(pricer, glog), **params)
        shared = sorted(nm for nm in "xvt" if tuple(shapes[nm]) != tuple(F))
        cls = "+".join((["cross"] if (p_spot, p_vol) != (gs, given_vol) else []) + (["broadcast"] if shared else []) + (["tiny"] if tiny else [])) or "plain"
        case = {"autogreek": greek, "given": [given_spot, given_vol], "pricer_params": [p_spot, p_vol], "pricer_has_strike": with_strike, "form": form,
                "S": S0, "vol": vol0, "t": t0, "K": Kf, "strike_given_as": strike_form if has_strike else None, "full_shape": list(F),
                "shapes": {"spot_like": list(shapes["x"]), "vol_like": list(shapes["v"]), "time_to_maturity": list(shapes["t"])}}
        ctx.case(case, True, tag="autogreek_grid")
        ctx.stats[f"autogreek_grid={greek}:{cls}"] += 1
        ctx.traces += 1
        glue.extend(glue_items(torch, greek, pricer, params, glog, st, val, tuple(F), case))
        key = f"autogreek.{greek}:{given_spot}->{p_spot}:{given_vol}->{p_vol}:{cls}"
        if st != "ok":
            ctx.fail("autogreek raised on a smooth pricer (given parameterisation -> pricer parameterisation)", case, key=key + ":error", detail=val)
            continue
        if tuple(val.shape) != tuple(F):
            ctx.fail(f"autogreek.{greek} is not the derivative of the user pricer element by element (price shape {tuple(F)}, Greek shape {tuple(val.shape)})",
                     case, key=key, detail={"shape": list(val.shape), "price_shape": list(F)})
            continue
        gotv = val.detach().to(torch.float64).reshape(-1)
        for j in range(gotv.numel()):
            a, b = float(gotv[j]), float(ref[j])
            # both sides are reverse-mode derivatives in double precision of the same smooth function; the re-parameterisations
            # (exp / log / sqrt / square round trips) move the point by a few ulp, the conditioning is at most 1 / w <= 1e5
            if not abs(a - b) <= 1e-9 * max(abs(b), 1.0):
                ctx.fail(f"autogreek.{greek} (given {given_spot}, {given_vol}; pricer in terms of {p_spot}, {p_vol}) is not the derivative of the user "
                         "pricer with respect to the spot / volatility / (minus) time", case, key=key,
                         detail={"element": j, "autogreek": a, "derivative_of_pricer": b, "rel": abs(a - b) / max(abs(b), 1.0)})
                break
    # ---------------- autogreek on user pricers: HOW the pricer declares its parameters (see declared_pricer: keyword-only after `*`, keyword-only
    # through functools.partial, defaults, bound methods, callable objects), every declaration x every Greek (and gamma_from_delta, the
    # derivative of a user's delta formula) on every tier, the parameterisation given / the names of the pricer as in the section above.
    # The value passed is the value the pricer has to be evaluated at - defaults and partial bindings hold other legal values; `scale` is
    # a parameter autogreek has no meaning for and only hands through (passed, or left to its default / its partial binding).
    for _ in range(3 if ctx.tier == "quick" else 30):
        for greek in ("delta", "gamma", "vega", "theta", "gamma_from_delta"):
            for decl in PRICER_DECLS:
                base = "delta" if greek == "gamma_from_delta" else greek
                given_spot = g.choice(["spot", "spot+strike", "moneyness", "log_moneyness"])
                given_vol = g.choice(["volatility", "variance"])
                has_strike = given_spot != "spot"
                gs = given_spot.split("+")[0]
                p_spot = g.choice(["spot", "moneyness", "log_moneyness"]) if (base in ("delta", "gamma") and has_strike) else gs
                p_vol = g.choice(["volatility", "variance"]) if base == "vega" else given_vol
                with_strike = has_strike and g.chance(0.5)
                core, form = make_vol_pricer(g, torch) if g.chance(0.3) else make_pricer(g, torch, p_spot, p_vol)
                Kf = g.choice(DYADIC_STRIKES[:5]) if g.chance(0.5) else g.r.uniform(0.4, 2.5)
                strike_form = "float" if Kf in DYADIC_STRIKES else "float64-tensor"
                K = Kf if strike_form == "float" else torch.tensor(Kf, dtype=torch.float64)
                pricer, desc, fallback = declared_pricer(g, torch, core, p_spot, p_vol, with_strike, decl, Kf)
                n_ = g.small((1, 2, 3))
                S0 = [g.r.uniform(0.5, 2.0) for _ in range(n_)]
                vol0 = [g.r.uniform(0.1, 0.8) for _ in range(n_)]
                t0 = [g.r.uniform(0.2, 2.0) for _ in range(n_)]
                T_ = lambda xs: torch.tensor(xs, dtype=torch.float64)
                X = T_(S0 if gs == "spot" else [s_ / Kf for s_ in S0] if gs == "moneyness" else [math.log(s_ / Kf) for s_ in S0])
                VP = T_(vol0 if given_vol == "volatility" else [v_ * v_ for v_ in vol0])
                TM = T_(t0)
                Sx = (X if gs == "spot" else X * Kf if gs == "moneyness" else X.exp() * Kf).detach().clone()
                Vx = (VP if given_vol == "volatility" else VP.sqrt()).detach().clone()
                params = {gs: X, given_vol: VP, "time_to_maturity": TM}
                if has_strike:
                    params["strike"] = K
                scale = g.choice([1.5, 0.75, 2.0])
                pass_scale = fallback is None or (decl != "partial-positional" and g.chance(0.6))
                if pass_scale:
                    params["scale"] = torch.tensor(scale, dtype=torch.float64) if g.chance(0.3) else scale
                used = scale if pass_scale else fallback
                x_of = (lambda S: S) if (p_spot == "spot" or with_strike) else (lambda S: S / Kf)
                ref = harness_greeks(torch, lambda S, t, v: used * core(x_of(S), v, t, torch), Sx, TM, Vx)[base]
                glog = []
                st, val, _ = call_impl(getattr(ag, greek), recording(pricer, glog), **params)
                case = {"autogreek": greek, "pricer_declared_as": decl, "signature": desc, "given": [given_spot, given_vol], "pricer_params": [p_spot, p_vol],
                        "pricer_has_strike": with_strike, "form": form, "S": S0, "vol": vol0, "t": t0, "K": Kf, "strike_given_as": strike_form if has_strike else None,
                        "scale_passed": scale if pass_scale else None, "scale_in_force": used}
                ctx.case(case, True, tag="autogreek_declared")
                ctx.stats[f"autogreek_declared={decl}:{greek}"] += 1
                ctx.traces += 1
                glue.extend(glue_items(torch, greek, pricer, params, glog, st, val, (n_,), case))
                key = f"autogreek.{greek}:pricer-declared[{decl}]"
                if st != "ok":
                    ctx.fail(f"autogreek.{greek} raised on a smooth user pricer declared as {desc}", case, key=key + ":error", detail=val)
                    continue
                # as in the section above: two double-precision reverse-mode derivatives of one smooth function on a tame box
                bad = first_mismatch(val, ref, 1e-9, 1.0) if tuple(val.shape) == tuple(ref.shape) else (None, list(val.shape), list(ref.shape))
                if bad:
                    ctx.fail(f"autogreek.{greek} of a user pricer declared as {desc} is not the derivative of that pricer at the values passed "
                             "(a keyword-only / defaulted / partially bound parameter must receive the value given to autogreek)", case, key=key,
                             detail={"element": bad[0], "autogreek": bad[1], "derivative_of_pricer": bad[2]})
    # ---------------- sessions: several automatic Greeks on the same caller tensors, float64, judged to double precision
    import pfhedge.nn.functional as fnl

    def judge(site, greek, i, got, ref, floor, case, strike_class):
        """dtype and value of one evaluation of a session; ref = harness_greeks(...)[greek]"""
        if got.dtype != torch.float64:
            ctx.fail(f"{site}.{greek} of float64 inputs is not float64", case, key=f"{site}.{greek}:dtype", detail=str(got.dtype))
        got = got.detach().to(torch.float64).reshape(-1)
        for j in range(got.numel()):
            a, b = float(got[j]), float(ref[j])
            # both sides are reverse-mode derivatives in double precision of the same smooth price on a tame box (conditioning <= 1e4)
            if not abs(a - b) <= 1e-10 * max(abs(b), floor):
                use = "fresh" if i == 0 else "reused"
                if strike_class == "python-float":
                    key = "float64-greek:python-float-strike"
                else:
                    key = f"{site}.{greek}:{use}-tensors"
                what = f"{site}.{greek} is not the derivative of the price to double precision" \
                    + (" when the caller's tensors were used for earlier Greeks" if i else "")
                if strike_class == "python-float":
                    what = "an automatic Greek of float64 tensors with a Python float strike (not a float32 value) is not the derivative of the price to double precision"
                ctx.fail(what, case, key=key,
                         detail={"evaluation": i, "element": j, "greek": a, "derivative_of_price": b, "rel": abs(a - b) / max(abs(b), floor)})
                return

    for _ in range(120 if ctx.tier == "quick" else 1200):
        # -- user pricers
        spotpar = g.choice(["spot", "moneyness", "log_moneyness"])
        volpar = g.choice(["volatility", "variance"])
        with_strike = spotpar != "spot" and g.chance(0.5)
        cores = [make_pricer(g, torch, spotpar, volpar) for _ in range(2)]
        pricers = [named_pricer(torch, c_, spotpar, volpar, with_strike) for c_, _ in cores]
        n_ = g.small((1, 2, 3, 4))
        graph = g.chance(0.25)
        Kf = g.choice(DYADIC_STRIKES[:5]) if g.chance(0.5) else g.r.uniform(0.4, 2.5)
        strike_form = "float" if Kf in DYADIC_STRIKES else "float64-tensor"
        K = Kf if strike_form == "float" else torch.tensor(Kf, dtype=torch.float64)
        S0 = [g.r.uniform(0.5, 2.0) for _ in range(n_)]
        vol0 = [g.r.uniform(0.1, 0.8) for _ in range(n_)]
        t0 = [g.r.uniform(0.2, 2.0) for _ in range(n_)]
        X = as_caller_tensor(torch, S0 if spotpar == "spot" else [s_ / Kf for s_ in S0] if spotpar == "moneyness" else [math.log(s_ / Kf) for s_ in S0], graph)
        VP = as_caller_tensor(torch, vol0 if volpar == "volatility" else [v_ * v_ for v_ in vol0], graph)
        TM = as_caller_tensor(torch, t0, graph)
        # the point in (spot, time, volatility) the caller's tensors stand for
        Sx = (X if spotpar == "spot" else X * Kf if spotpar == "moneyness" else X.exp() * Kf).detach()
        Vx = (VP if volpar == "volatility" else VP.sqrt()).detach()
        x_of = (lambda S: S) if (spotpar == "spot" or with_strike) else (lambda S: S / Kf)
        refs = [harness_greeks(torch, lambda S, t, v, c_=c_: c_(x_of(S), v, t, torch), Sx, TM, Vx) for c_, _ in cores]
        seq = session_greeks(g)
        which = [g.randint(0, 1) for _ in seq]
        for i, (greek, w_) in enumerate(zip(seq, which)):
            params = {spotpar: X, volpar: VP, "time_to_maturity": TM}
            if spotpar != "spot":
                params["strike"] = K
            st, val, _ = call_impl(getattr(ag, greek), pricers[w_], **params)
            case = {"session": "autogreek", "spot_param": spotpar, "vol_param": volpar, "pricer_has_strike": with_strike,
                    "forms": [f for _, f in cores], "S": S0, "vol": vol0, "t": t0, "K": Kf, "strike_given_as": strike_form,
                    "inputs_tracked_by_autograd": graph, "sequence": [f"{a}(pricer{b})" for a, b in zip(seq[:i + 1], which)]}
            ctx.case(case, True, tag="session_autogreek")
            ctx.stats[f"session_autogreek={greek}/{'first' if i == 0 else 'later'}"] += 1
            ctx.traces += 1
            if st != "ok":
                ctx.fail("autogreek raised on a smooth pricer (session on shared tensors)", case, key=f"autogreek.{greek}:session:error", detail=val)
                continue
            judge(f"autogreek[{spotpar}/{volpar}]", greek, i, val, refs[w_][greek], 1.0, case, strike_form)
    for _ in range(120 if ctx.tier == "quick" else 1200):
        # -- the modules' own prices: module Greeks that go through autogreek, autogreek on module.price, functional lookback Greeks
        fam = g.choice(["lookback", "lookback", "american_binary", "european", "european_binary"])
        pd = fam in ("lookback", "american_binary")
        n_ = g.small((1, 2, 3, 4))
        graph = g.chance(0.2)
        s0 = [g.r.uniform(-0.5, 0.5) for _ in range(n_)]
        if fam == "american_binary":
            s0 = [-abs(x) - 0.02 for x in s0]
            m0 = [min(-0.01, x + g.r.uniform(0, 0.3)) for x in s0]
        else:
            m0 = [x + g.r.uniform(0, 0.4) for x in s0]
            m0 = [x + 0.05 if abs(x) < 0.02 else x for x in m0]       # away from the branch kink max = strike
        t0 = [g.r.uniform(0.02, 2.0) for _ in range(n_)]
        v0 = [g.r.uniform(0.05, 0.9) for _ in range(n_)]
        s_, t_, v_ = (as_caller_tensor(torch, x, graph) for x in (s0, t0, v0))
        m_ = as_caller_tensor(torch, m0, False)
        Ks = [g.choice(DYADIC_STRIKES), g.choice(DYADIC_STRIKES)]
        if pd:
            mods = [{"lookback": BSLookbackOption, "american_binary": BSAmericanBinaryOption}[fam](strike=k_) for k_ in Ks]
            desc = [f"{fam}(strike={k_})" for k_ in Ks]
        else:
            Ks[1] = Ks[0]                                               # call and put of one strike on one grid
            first_call = g.chance(0.5)
            cls_ = {"european": BSEuropeanOption, "european_binary": BSEuropeanBinaryOption}[fam]
            mods = [cls_(call=first_call, strike=Ks[0]), cls_(call=not first_call, strike=Ks[0])]
            desc = [f"{fam}(call={c_}, strike={Ks[0]})" for c_ in (first_call, not first_call)]
        refs = []
        for mod, k_ in zip(mods, Ks):
            if pd:
                pr = lambda S, t, v, mod=mod, k_=k_: mod.price((S / k_).log(), m_.detach(), t, v)
            else:
                pr = lambda S, t, v, mod=mod, k_=k_: mod.price((S / k_).log(), t, v)
            refs.append(harness_greeks(torch, pr, (s_.exp() * k_).detach(), t_, v_))
        seq = session_greeks(g)
        which = [g.randint(0, 1) for _ in seq]
        routes = []
        for i, (greek, w_) in enumerate(zip(seq, which)):
            mod, k_ = mods[w_], Ks[w_]
            cands = ["autogreek"]
            if fam == "lookback":
                cands += ["module", "module", "functional", "functional"]
            elif fam == "american_binary" and greek != "delta":
                cands += ["module", "module"]
            route = g.choice(cands)
            routes.append(route)
            strike_form = "float"
            if route == "module":
                site = f"module:{fam}"
                st, val, _ = call_impl(getattr(mod, greek), s_, m_, t_, v_)
            elif route == "functional":
                site = "bs_lookback"
                kk = k_
                if g.chance(0.5):
                    kk, strike_form = torch.tensor(k_, dtype=torch.float64), "float64-tensor"
                st, val, _ = call_impl(getattr(fnl, "bs_lookback_" + greek), s_, m_, t_, v_, kk)
            else:
                site = f"autogreek[{fam}.price]"
                params = {"log_moneyness": s_, "time_to_maturity": t_, "volatility": v_, "strike": k_}
                if pd:
                    params["max_log_moneyness"] = m_
                st, val, _ = call_impl(getattr(ag, greek), mod.price, **params)
            case = {"session": "module", "s": s0, "m": m0 if pd else None, "t": t0, "v": v0, "strike_given_as": strike_form,
                    "inputs_tracked_by_autograd": graph,
                    "sequence": [f"{r_}:{desc[b]}.{a}" for a, b, r_ in zip(seq[:i + 1], which, routes)]}
            ctx.case(case, True, tag="session_module")
            ctx.stats[f"session_module={route}:{fam}.{greek}/{'first' if i == 0 else 'later'}"] += 1
            ctx.traces += 1
            if st != "ok":
                ctx.fail("automatic Greek of a module price raised (session on shared tensors)", case, key=f"{site}.{greek}:session:error", detail=val)
                continue
            floor = 0.05 * {"delta": 1.0, "gamma": 1.0 / k_, "vega": k_ if fam in ("lookback", "european") else 1.0,
                            "theta": k_ if fam in ("lookback", "european") else 1.0}[greek]
            judge(site, greek, i, val, refs[w_][greek], floor, case, strike_form)
    # ---------------- single evaluations, float64 tensors, the strike a Python float that float32 cannot hold exactly
    for _ in range(40 if ctx.tier == "quick" else 400):
        Kf = g.r.uniform(0.4, 2.5)
        if float(torch.tensor(Kf, dtype=torch.float32)) == Kf:
            continue
        route = g.choice(["module:lookback", "bs_lookback", "module:american_binary", "autogreek[european.price]", "autogreek[user]"])
        greek = g.choice(["delta", "gamma"]) if route != "module:american_binary" else "gamma"
        if route == "bs_lookback" and g.chance(0.4):
            greek = g.choice(["vega", "theta"])        # computed from the gamma
        s0, t0, v0 = g.r.uniform(-0.5, 0.5), g.r.uniform(0.02, 2.0), g.r.uniform(0.05, 0.9)
        if route == "module:american_binary":
            s0 = -abs(s0) - 0.02
            m0 = min(-0.01, s0 + g.r.uniform(0, 0.3))
        else:
            m0 = s0 + g.r.uniform(0.01, 0.4)
            m0 = m0 + 0.05 if abs(m0) < 0.02 else m0
        s_, m_, t_, v_ = (torch.tensor([x], dtype=torch.float64) for x in (s0, m0, t0, v0))
        case = {"single": route, "greek": greek, "s": s0, "m": m0, "t": t0, "v": v0, "K": Kf, "strike_given_as": "python float (not a float32 value)"}
        floor = 0.05 * {"delta": 1.0, "gamma": 1.0 / Kf, "vega": Kf, "theta": Kf}[greek]
        if route == "autogreek[user]":
            spotpar, with_strike = g.choice(["moneyness", "log_moneyness"]), g.chance(0.5)
            core, form = make_pricer(g, torch, spotpar, "volatility")
            pricer = named_pricer(torch, core, spotpar, "volatility", with_strike)
            t_ = torch.tensor([g.r.uniform(0.2, 2.0)], dtype=torch.float64)
            v_ = torch.tensor([g.r.uniform(0.1, 0.8)], dtype=torch.float64)
            X = s_ if spotpar == "log_moneyness" else s_.exp()
            case.update({"spot_param": spotpar, "pricer_has_strike": with_strike, "form": form, "t": float(t_), "v": float(v_)})
            x_of = (lambda S: S) if with_strike else (lambda S: S / Kf)
            ref = harness_greeks(torch, lambda S, t, v: core(x_of(S), v, t, torch), s_.exp() * Kf, t_, v_)
            st, val, _ = call_impl(getattr(ag, greek), pricer, **{spotpar: X, "strike": Kf, "volatility": v_, "time_to_maturity": t_})
            floor = 1.0
        elif route == "autogreek[european.price]":
            mod = BSEuropeanOption(call=g.chance(0.5), strike=Kf)
            ref = harness_greeks(torch, lambda S, t, v: mod.price((S / Kf).log(), t, v), s_.exp() * Kf, t_, v_)
            st, val, _ = call_impl(getattr(ag, greek), mod.price, log_moneyness=s_, time_to_maturity=t_, volatility=v_, strike=Kf)
        else:
            mod = (BSAmericanBinaryOption if route == "module:american_binary" else BSLookbackOption)(strike=Kf)
            ref = harness_greeks(torch, lambda S, t, v: mod.price((S / Kf).log(), m_, t, v), s_.exp() * Kf, t_, v_)
            if route == "bs_lookback":
                st, val, _ = call_impl(getattr(fnl, "bs_lookback_" + greek), s_, m_, t_, v_, Kf)
            else:
                st, val, _ = call_impl(getattr(mod, greek), s_, m_, t_, v_)
                if route == "module:american_binary":
                    floor = 0.05 / Kf ** 2
        ctx.case(case, True, tag="float_strike_float64_greek")
        ctx.stats[f"float_strike={route}.{greek}"] += 1
        ctx.traces += 1
        if st != "ok":
            ctx.fail("automatic Greek raised (float64 tensors, Python float strike)", case, key=f"{route}.{greek}:float-strike:error", detail=val)
            continue
        judge(route, greek, 0, val, ref[greek], floor, case, "python-float")
    # ---------------- the GLUE on its own, where the sections above never go: required parameters that are neither passed nor derived (TypeError),
    # no spot / volatility / time parameterisation at all (ValueError, before any TypeError), `**kwargs` pricers (the signature filter keeps
    # a name of ANY kind: only an entry literally called like the variadic parameter survives), positional-only parameters (never bound by
    # autogreek's keyword call: default, or TypeError; the keyword lands in `**kwargs` when there is one), stale entries (moneyness /
    # log_moneyness / variance passed next to the spot / volatility they contradict are OVERWRITTEN), variances <= 0 (clamped before the
    # leaf is made: the pricer sees volatility 0 and variance 0), entries the pricer does not name (dropped).  Correspondence only: names
    # and values received, error kind, Greek - against the model (op "autogreek").
    GLUE_KINDS = ("missing-required", "no-parameterisation", "var-keyword", "positional-only+kwargs", "positional-only", "stale-entries",
                  "nonpositive-variance", "unnamed-dropped")
    for _ in range(4 if ctx.tier == "quick" else 40):
        for kind in GLUE_KINDS:
            for greek in ("delta", "gamma", "vega", "theta"):
                spotlike = greek in ("delta", "gamma")
                given_spot = g.choice(["spot", "spot+strike", "moneyness", "log_moneyness"])
                given_vol = g.choice(["volatility", "variance"])
                if kind == "stale-entries" and spotlike:
                    given_spot = "spot+strike"
                if kind == "stale-entries" and greek == "vega":
                    given_vol = "volatility"
                if kind == "nonpositive-variance":
                    given_vol = "variance"
                has_strike = given_spot != "spot"
                gs = given_spot.split("+")[0]
                p_spot = g.choice(["spot", "moneyness", "log_moneyness"]) if (spotlike and has_strike) else gs
                p_vol = g.choice(["volatility", "variance"]) if greek == "vega" else given_vol
                if kind == "missing-required":
                    # a name autogreek.<greek> neither gets nor derives: a spot-like name without a strike (delta, gamma) or at all (vega,
                    # theta), or the other volatility name (only vega derives one from the other)
                    opts = []
                    if (spotlike and given_spot == "spot") or not spotlike:
                        opts.append("spot")
                    if greek != "vega":
                        opts.append("vol")
                    which_missing = g.choice(opts)
                    if which_missing == "spot":
                        p_spot = g.choice([nm for nm in ("spot", "moneyness", "log_moneyness") if nm != gs])
                    else:
                        p_vol = "variance" if given_vol == "volatility" else "volatility"
                n_ = g.small((1, 2))
                Kf = g.choice(DYADIC_STRIKES[:5]) if g.chance(0.5) else g.r.uniform(0.4, 2.5)
                S0 = [g.r.uniform(0.5, 2.0) for _ in range(n_)]
                vol0 = [g.r.uniform(0.1, 0.8) for _ in range(n_)]
                t0 = [g.r.uniform(0.2, 2.0) for _ in range(n_)]
                a_, b_, c_ = g.r.uniform(0.5, 2), g.r.uniform(-1, 1), g.r.uniform(0.2, 1.5)
                T_ = lambda xs: torch.tensor(xs, dtype=torch.float64)
                X = T_(S0 if gs == "spot" else [s_ / Kf for s_ in S0] if gs == "moneyness" else [math.log(s_ / Kf) for s_ in S0])
                if kind == "nonpositive-variance":
                    VP = T_([g.choice([0.0, -0.01, -1.0, -1e-9]) for _ in range(n_)])
                else:
                    VP = T_(vol0 if given_vol == "volatility" else [v_ * v_ for v_ in vol0])
                params = {gs: X, given_vol: VP, "time_to_maturity": T_(t0)}
                if has_strike:
                    params["strike"] = Kf if g.chance(0.5) else torch.tensor(Kf, dtype=torch.float64)
                if kind == "no-parameterisation":
                    if spotlike:
                        drop = g.choice(["strike", gs] if (has_strike and gs != "spot") else [gs])
                        params.pop(drop)
                        if drop == gs and gs == "spot":
                            params.pop("strike", None)
                            if g.chance(0.5):
                                params["moneyness"] = T_([1.1] * n_)          # a moneyness without a strike is no parameterisation
                    elif greek == "vega":
                        params.pop(given_vol)
                    else:
                        params.pop("time_to_maturity")
                    if g.chance(0.5):
                        p_vol = "variance" if p_vol == "volatility" else p_vol   # ... and a parameter may be missing on top: ValueError first
                if kind == "stale-entries":
                    if spotlike:
                        params["moneyness"] = T_([g.r.uniform(0.5, 2.0) for _ in range(n_)])
                        params["log_moneyness"] = T_([g.r.uniform(-0.5, 0.5) for _ in range(n_)])
                    elif greek == "vega":
                        params["variance"] = T_([g.r.uniform(0.01, 0.6) for _ in range(n_)])
                    else:
                        params["spot"] = T_([g.r.uniform(0.5, 2.0) for _ in range(n_)])
                if kind == "unnamed-dropped":
                    params["call"] = g.choice([1.0, 0.0])
                    params["max_log_moneyness"] = T_([0.1] * n_)
                    params["junk"] = 0.5
                xs = {"spot": "spot", "moneyness": "moneyness", "log_moneyness": "torch.exp(log_moneyness)"}[p_spot]
                if kind == "nonpositive-variance":
                    vs = p_vol                                                    # polynomial in the name itself: smooth at 0
                else:
                    vs = "volatility" if p_vol == "volatility" else "torch.sqrt(variance)"
                names = [p_spot, p_vol, "time_to_maturity"] + (["strike"] if (has_strike and g.chance(0.4)) else [])
                g.r.shuffle(names)
                body = f"a_ * X * X * V + b_ * torch.log(X + 1.0) * T + c_ * V * V * torch.sqrt(T) * X"
                body = body.replace("X", f"({xs})").replace("V", f"({vs})").replace("T", "time_to_maturity")
                ns = {"torch": torch, "a_": a_, "b_": b_, "c_": c_}
                scale_passed = None
                if kind == "var-keyword":
                    var = g.choice(["kwargs", "extra", "params"])
                    decl = ", ".join(names) + f", **{var}"
                    if g.chance(0.7):
                        params[g.choice(["kwargs", "extra", "params"])] = 2.0     # survives the filter iff it is the name of the variadic parameter
                    params["junk"] = 0.5
                elif kind in ("positional-only+kwargs", "positional-only"):
                    decl = "scale=2.0, /, *, " + ", ".join(names) + (", **extra" if kind == "positional-only+kwargs" else "")
                    body = "scale * (" + body + ")"
                    if kind == "positional-only+kwargs" or g.chance(0.5):
                        scale_passed = g.choice([1.5, 0.75, 3.0])
                        params["scale"] = scale_passed
                else:
                    star = g.choice([None, 0, g.randint(1, len(names) - 1)])
                    decl = ", ".join(x for i, nm in enumerate(names) for x in ((["*"] if star == i else []) + [nm]))
                exec(f"def pricer({decl}):\n    return {body}\n", ns)
                pricer = ns["pricer"]
                glog = []
                st, val, _ = call_impl(getattr(ag, greek), recording(pricer, glog), **params)
                case = {"glue": kind, "autogreek": greek, "signature": f"pricer({decl})", "body": body, "a": a_, "b": b_, "c": c_,
                        "passed": {k: (v.tolist() if isinstance(v, torch.Tensor) else v) for k, v in params.items()}}
                ctx.case(case, True, tag="autogreek_glue")
                ctx.stats[f"autogreek_glue={kind}:{greek}:{'ok' if st == 'ok' else val}"] += 1
                ctx.traces += 1
                glue.extend(glue_items(torch, greek, pricer, params, glog, st, val, (n_,), case))
    # ---------------- the model's glue (op "autogreek") against every recorded call
    def gdis(case, impl, model, note):
        ctx.stats[f"autogreek_glue_disagreement={note.split(' (')[0]}"] += 1
        ctx.disagree("autogreek", case, impl, model, note=note)

    gitems = []
    for it in glue:
        if isinstance(it[0], dict):
            gitems.append(it)
        else:
            ctx.stats[f"autogreek_glue_not_sent={it[0]}"] += 1
            if it[0] == "untranslatable":
                gdis({"not_sent": it[0]}, it[1], None, "the pricer could not be translated into the model's closed language")
    try:
        gouts = ctx.driver([r for r, _ in gitems])
    except DriverBroken as e:
        ctx.ties_broken.append({"kind": "driver", "detail": str(e)[:1500]})
        gouts = []
    for (req, (case, rec, st, got)), o in zip(gitems, gouts):
        ctx.stats["autogreek_glue_elements"] += 1
        impl = {"received": rec, "status": st, "greek_or_error": got}
        if "received" not in o:                       # the model raises before the pricer is called (ValueError)
            if not (st != "ok" and got == o.get("err") and rec is None):
                gdis(case, impl, o, "error before the pricer is called")
            continue
        mrec = [[k, float_of_bits(v)] for k, v in o["received"]]
        mg = o["greek"]
        model = {"received": mrec, "greek_or_error": float_of_bits(mg["ok"]) if "ok" in mg else mg}
        if rec is None or [k for k, _ in rec] != [k for k, _ in mrec]:
            gdis(case, impl, model, "names of the keyword arguments the pricer receives (dict order)")
            continue
        # values: the same IEEE operations on both sides up to the last place of exp / log / sqrt (measured: 2e-16 relative; a log-moneyness
        # near 0 is rebuilt as log(exp(l) K / K): absolute error ~1e-16); a single-precision conversion (6e-8) or a moved evaluation point
        # is far outside
        if any(not rel_close(a, b, 1e-12, 1e-15) for (_, a), (_, b) in zip(rec, mrec)):
            gdis(case, impl, model, "values of the keyword arguments the pricer receives")
            continue
        if "err" in mg:
            if not (st != "ok" and got == mg["err"]):
                gdis(case, impl, model, "error of the call")
        else:
            # reverse mode (torch) against forward mode (model, dual numbers) of the same smooth body in double precision (measured on the
            # quick and thorough tiers: at most 1.3e-10 relative at first order, 3.4e-11 at second order - conditioning up to
            # 1 / (vol sqrt t) ~ 1e5)
            tol, floor = (1e-7, 1e-10) if req["greek"] == "gamma" else (1e-8, 1e-12)
            if st != "ok" or not rel_close(got, float_of_bits(mg["ok"]), tol, floor):
                gdis(case, impl, model, "Greek")
    return ctx.finish(
        rule="closed-form Greeks of the three families over the whole box (t != 1 and K != 1 almost always; American binary mostly in the "
             "continuation region), module Greeks incl. autogreek-based lookback, autogreek on generated pricers x {spot, moneyness, log_moneyness} x "
             "{volatility, variance}; sessions of 3-6 automatic Greeks on the same float64 caller tensors (user pricers, module prices: module / "
             "autogreek / functional routes; plain and autograd-tracked inputs; float and float64-tensor strikes) vs the harness's own double-precision "
             "derivative; the same single evaluations with Python float strikes that are not float32 values; grids: every route (functional / module / "
             "autogreek on the price, volatility and variance) x 4 families x 4 Greeks on tensors of different broadcastable shapes (0-dim, (1,), per step, "
             "per path against paths x steps; the tensor an autograd route differentiates by has the full shape) and at tiny volatility / maturity "
             "(v >= 2e-4 or t >= 1e-5, log-moneyness ~ v sqrt t), element by element vs the harness's derivative of the real price and vs the model "
             "(ops bs, bs_dual); autogreek on user pricers with given parameterisation x pricer parameter names chosen independently, broadcastable "
             "shapes, volatility down to 2e-4, pricers in log / sqrt / Black-Scholes-like functions of the volatility; "
             "user pricers declared with keyword-only / defaulted / partially bound parameters, as methods and callable objects (9 declarations x "
             "delta, gamma, vega, theta, gamma_from_delta on every tier; defaults and bindings hold decoy values), the Black-Scholes prices behind "
             "keyword-only wrappers and functools.partial keyword bindings (also vs the model, op bs_dual); every family x Greek x global state "
             "(no_grad, set_grad_enabled(False), inference_mode, default dtype float64 with float64 / float32 data, both) through the module, its "
             "forward, the functional form or autogreek - routes independent of the caller's gradient mode must answer, values must be derivatives; "
             "every family x Greek with a float64 tensor strike (0-dim, (1,), per element, per path) through module / forward / functional / autogreek; "
             "every family x Greek x root in {log-moneyness, time, volatility} with requires_grad=True and the other arguments computed from the root "
             "(cummax running maximum, value-preserving graph ties): partial derivative at the given values, vs fresh detached leaves and the model; "
             "every module kind re-used for other contracts by re-assigning its public attributes (strike as float / 0-dim tensor, call) two to four "
             "times: after each re-assignment every Greek through module / forward / autogreek on its price vs the harness's derivative of the "
             "module's own price, price and Greeks bit by bit vs a freshly constructed module with the same terms, and vs the model; a second "
             "instance of the class alive all along is unaffected; "
             "the glue of autogreek (op autogreek): every call of the three user-pricer sections through a recording wrapper, element by element - "
             "keyword arguments received (names exactly, values to 1e-12), error kind, Greek (1e-8, gamma 1e-7) vs the model's parse / derive / "
             "signature filter / argument binding / dual-number evaluation of the symbolically executed body; 8 kinds of glue-only cases x 4 Greeks "
             "(missing required parameter, no parameterisation, **kwargs, positional-only with and without **kwargs, stale entries, variance <= 0, "
             "unnamed entries); "
             "non-trivial = t != 1 or K != 1 (closed forms), all others; distinct = sha1 of canonical case")
