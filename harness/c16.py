"""C16 — Computations never mutate market data nor depend on call history.

correspondence: (a) the mutation monitor (bitwise snapshot of every buffer of every reachable
instrument and of every caller tensor before/after the call) on every public computation x every
feature (log variants, module outputs) x instrument types — the Lean model (Model/Heap.lean)
predicts "no storage that existed before the call is written" for each of these programs
(theorem public_programs_pure); (b) random operation sequences on one real hedger with several
derivatives vs a fresh hedger holding the same parameters at every step (theorem
history_independence predicts equality).

property side, beyond the model: every public functional of pfhedge.nn.functional (arguments built
from its signature) on caller tensors of four memory layouts under the same monitor; histories in
which the INSTRUMENT objects are reused (dtype changes, re-simulation, other path counts) vs newly
constructed instruments holding bit-identical buffers; feature OBJECTS shared between bindings /
hedgers vs feature objects of their own; histories of the `hedge=` argument (default, explicit underlier,
listed derivatives on the derivative's underlier; fit(hedge=...) followed by calls with the default) while the
underlier of the listed instruments is re-simulated / cast through other owners, vs a newly constructed world.

correspondence (c): the hedger SESSION inside the model (Model/HedgerSession.lean, op "hedger_session"; theorems of Lemmas/C16Session.lean:
history_independence, answer_indep_prev, default_hedge_after_history, listed_price_after_history, queries_removable, other_derivative_frame):
hedge-argument histories restricted to what the model has (float64, Linear(-ReLU-Linear) module, affine pricers, entropic risk / entropic loss /
expected shortfall, SGD / Adam as class or as ONE reused instance) are run on the real objects AND through the model's `step`, operation by
operation, on the series read off the real instruments after every (re)simulation (draws of compute_loss / price / fit re-created under the
operation's seed): every answer (hedge tensor, P&L / portfolio vector, loss, price, parameters after fit), the parameters after every operation and
the last time step of the prev_output buffer (state-dependent feature lists) are compared: shapes exactly, values to 1e-9 relative (max-norm).

input classes of the history parts (I, II, IV and the session): histories that change the hedger's OTHER state - a backward pass through the hedger's loss before fit
(hedger.compute_loss(d).backward(): gradients left on the parameters; fit = Adam, 2 epochs, compared with the fit of a fresh hedger under the same seed: parameters
bitwise, returned losses), eval() / train(), fit(validation=True) (leaves the hedger in evaluation mode); models built around pfhedge's clamp MODULES (nn.LeakyClamp,
nn.Clamp; BandNet).  A computation of a hedger left in evaluation mode is compared with a fresh hedger in the same mode AND with a fresh hedger as constructed
(training mode): no module used here is documented to depend on the mode.  The session model is told a loss-backward as compute_loss, fit with validation with its
validation draws, and is not told eval() / train() (it has no mode).  Fixed beginnings / model kinds by history index: every class occurs for every seed.
"""
import copy
import math
import inspect
from fractions import Fraction as F
from common import *  # noqa
from hedge_common import *  # noqa


def check(ctx):
    torch, pfhedge = import_impl()
    import pfhedge.nn as nn
    import pfhedge.nn.functional as fnl
    import pfhedge.instruments as I
    from pfhedge.nn import Hedger, BlackScholes, WhalleyWilmott
    from pfhedge.features._getter import get_feature
    from pfhedge._utils.bisect import bisect
    g = ctx.gen
    ctx.lean_gate()
    dt = torch.float64
    calls = 0

    # model side: which modelled computations are accepted by the frame analysis, and which results may alias pre-existing storages
    try:
        heap_pred = {r["name"]: r for r in ctx.driver([{"op": "heap"}])[0]["ok"]}
    except (DriverBroken, KeyError) as e:
        ctx.ties_broken.append({"kind": "driver", "detail": str(e)[:1500]})
        heap_pred = {}
    for nm, r in heap_pred.items():
        if not r["safe"]:
            ctx.ties_broken.append({"kind": "correspondence", "op": "heap", "case": nm, "impl": "no mutation observed so far", "model": "program rejected by the frame analysis"})
    alias_seen = set()

    def monitored(name, fn, *args, watch=(), case=None, prog=None, **kw):
        """call the implementation under the bitwise mutation monitor; with `prog` = name of the Lean heap program modelling the
        call, also compare the OBSERVED aliasing of the result (does it share storage with a buffer / caller tensor that existed
        before the call?) with the model: aliasing where the model proves the result fresh is a broken correspondence"""
        nonlocal calls
        calls += 1
        pre = set()
        if prog is not None:
            for _, ref, _, _, _ in snapshot_tensors([(f"arg{i}", a) for i, a in enumerate(args)] + list(kw.items()) + list(watch)):
                if ref.numel() > 0:
                    pre.add(ref.untyped_storage().data_ptr())
        st, v, mut = call_impl(fn, *args, watch=list(watch), **kw)
        ctx.stats[f"call={name}"] += 1
        if mut:
            ctx.fail(f"{name} modified market data or a caller tensor in place", (case or {}) | {"call": name, "mutated": mut},
                     key=f"mutation:{name}", detail=mut)
        if prog is not None and st == "ok" and isinstance(v, torch.Tensor) and v.numel() > 0 and prog in heap_pred:
            al = v.untyped_storage().data_ptr() in pre
            ctx.stats[f"alias[{prog}]={'view' if al else 'fresh'}"] += 1
            if al and heap_pred[prog]["result_fresh"] and (name, prog) not in alias_seen:
                alias_seen.add((name, prog))
                ctx.disagree("heap", (case or {}) | {"call": name, "program": prog}, "result shares storage with market data / a caller tensor",
                             "result is a storage allocated by the call (theorem resultFresh_sound)")
        return st, v

    def feat_prog(name, step):
        if step is not None:
            return "spot_at"
        if name in ("underlier_spot", "spot", "variance", "volatility"):
            return "feature_view"
        if name in ("underlier_log_spot", "log_spot"):
            return "log_spot"
        if name.startswith("barrier"):
            return "barrier"
        return "moneyness"

    class InplaceFirst(torch.nn.Module):
        """a user model that overwrites its input in place before using it (legal: the input is the hedger's own concatenation)"""
        def forward(self, x):
            x.mul_(0.5)
            return x[..., :1].clone()

    class BandNet(torch.nn.Module):
        """a user model of the no-transaction-band kind built around one of pfhedge's clamp MODULES (nn.LeakyClamp / nn.Clamp): the previous hedge (the
        last input, when the hedger is state-dependent; else the body's first output) is clamped into a narrow band [lo, lo + |w| / 4] computed by the body, so
        that most inputs lie outside it.  The documentation of both modules defines the output by the input and the bounds alone: it is the same in
        training and in evaluation mode, like that of Linear / Tanh / ReLU (and unlike Dropout / BatchNorm, which no model here contains)"""
        def __init__(self, nin, leaky, use_prev, dtype):
            super().__init__()
            self.body = torch.nn.Sequential(torch.nn.Linear(nin, 3, dtype=dtype), torch.nn.Tanh(), torch.nn.Linear(3, 3, dtype=dtype))
            self.clamp = nn.LeakyClamp() if leaky else nn.Clamp()
            self.use_prev = use_prev

        def forward(self, x):
            o = self.body(x)
            lo = o[..., [1]]
            return self.clamp(x[..., [-1]] if self.use_prev else o[..., [0]], min=lo, max=lo + 0.25 * o[..., [2]].abs())

    MODEL_KINDS = ["mlp", "band:LeakyClamp", "band:Clamp"]

    MODE_BUDGET = 3          # per history: that many computations in evaluation mode are also compared with a fresh hedger in training mode

    def fresh_hedgers(used, build, budget):
        """the fresh hedgers a used one is compared with: `build()` constructs a new hedger holding copies of the used one's parameters and criterion.
        ("same-mode", in the used one's training / evaluation mode) and - if the history left the used hedger in evaluation mode (fit with validation,
        eval()) - also ("train-mode", as constructed): every module of every model here is documented as independent of the mode.  `budget` = [n]: the
        train-mode comparison is made for the first n evaluation-mode computations of a history (cost)"""
        out = [("same-mode", build().train(used.training))]
        if not used.training and budget[0] > 0:
            budget[0] -= 1
            out.append(("train-mode", build().train()))
        return out

    # ---- every public functional of pfhedge.nn.functional on caller-owned tensors of several memory layouts: the arguments are built
    # from the signature (parameter name -> role), so a functional added later is swept too (or reported as unmapped)
    FN_PUBLIC = sorted(nm for nm, f_ in vars(fnl).items() if inspect.isfunction(f_) and f_.__module__ == fnl.__name__ and not nm.startswith("_"))
    LAYOUTS = ["contiguous", "view_of_larger", "transposed", "row_view"]
    unmapped = set()

    def lay(t, kind):
        """the values of `t` as a caller tensor of the given memory layout -> (tensor, the tensors whose storage it lives in)"""
        if kind == "view_of_larger":
            big = torch.stack([t, t + 1.0], dim=-1)
            return big[..., 0], [big]
        if kind == "transposed":
            b = t.transpose(0, -1).contiguous()
            return b.transpose(0, -1), [b]
        if kind == "row_view" and t.dim() >= 2:
            b = t.clone()
            return b[0], [b]
        return t.clone(), []

    def functional_sweep(mk, case):
        x = torch.tensor([[float(v) for v in r] for r in mk["spot"]], dtype=dt)       # (N, T), positive, mean far from zero
        ones = torch.ones_like(x)
        role = {"log_moneyness": x.log(), "max_log_moneyness": x.log().cummax(-1).values, "time_to_maturity": ones * 0.5, "volatility": ones * 0.25,
                "sigma": ones * 0.25, "strike": ones * 1.5, "min": ones * 0.75, "max": ones * 2, "weight1": ones * 0.25, "weight2": ones * 0.75,
                "a": ones * 0.5, "b": ones * 0.25, "rho": ones * -0.5, "m": ones * 0.125, "dt": ones[:, 0] / 64, "cost": ones / 256,
                "input1": x / 8, "input2": x / 16, "input3": x / 4, "input4": x / 2, "unit": ones * 0.5, "payoff": x[:, 0].clone()}
        for fname in FN_PUBLIC:
            fn_ = getattr(fnl, fname)
            hedging = fname in ("pl", "terminal_value")          # (N, H, T) prices and units, (N) payoff
            kind = g.choice(LAYOUTS[:3] if hedging else LAYOUTS)
            kw, bases, canon, ok = {}, [], {}, True
            for pname, par in inspect.signature(fn_).parameters.items():
                ann = str(par.annotation)
                if "List[float]" in ann:
                    val = [float(g.choice([0, 1, 4])) / 256]
                elif "Tensor" in ann and not ("float" in ann and g.chance(0.5)):
                    t_ = role.get(pname, x)
                    if hedging and pname != "payoff":
                        t_ = t_.unsqueeze(1)
                    val, bs_ = lay(t_, kind)
                    bases += bs_
                elif pname == "dim":
                    nd = 1 if kind == "row_view" else 2
                    val = g.choice([None, None, 0, -1] + ([1] if nd == 2 else []))
                elif pname in ("call", "largest", "deduct_first_cost"):      # deduct_final_cost=True is documented as unsupported
                    val = g.chance(0.5)
                elif pname in SCALAR_ROLE:
                    val = g.choice(SCALAR_ROLE[pname])
                elif par.default is not inspect.Parameter.empty:
                    continue
                else:
                    ok = False
                    break
                kw[pname] = val
                canon[pname] = val if not isinstance(val, torch.Tensor) else "tensor"
            if not ok:
                unmapped.add(fname)
                continue
            st, _ = monitored(f"functional.{fname}[{kind}]", fn_, watch=[("storage", bases)], case=case | {"functional": fname, "layout": kind, "args": canon}, **kw)
            ctx.stats[f"functional_sweep:{st}"] += 1

    SCALAR_ROLE = {"strike": [0.5, 1.0, 1.5], "a": [0.5, 1.0], "p": [0.25, 0.5, 1.0], "lam": [1.0, 2.0, 10.0], "clamped_slope": [0.01], "inverted_output": ["mean", "max"],
                   "dt": [1 / 64], "cost": [1 / 256], "start_index": [0], "end_index": [-1], "epsilon": [1e-10], "b": [0.25], "rho": [-0.5], "m": [0.125],
                   "sigma": [0.25], "weight1": [0.25], "weight2": [0.75], "log_moneyness": [0.125], "time_to_maturity": [0.5], "volatility": [0.25], "input": [0.25]}

    n = 120 if ctx.tier == "quick" else 2000
    for it in range(n):
        mk = gen_market(g)
        d, u = build_derivative(torch, mk)
        view_pricer = g.chance(0.5)
        if view_pricer:          # a pricer returning a VIEW of the underlier's buffer
            d.list(lambda dd: dd.ul().spot[:, :], cost=0.0)
        T, N = mk["T"], mk["N"]
        thr = g.choice([x for p in mk["spot"] for x in p])
        case = {"option": mk["option"], "primary": mk["primary"], "T": T, "N": N, "view_pricer": view_pricer, "spot": enc_rat(mk["spot"])}
        watch = [("derivative", d)]
        ctx.case(case, True, tag="mutation_sweep")
        ctx.traces += 1
        with torch.no_grad():
            for name in BASE_FEATURES:
                f = get_feature(feature_obj(torch, name, mk, thr)).of(d, None)
                monitored(f"feature.{name}.get(None)", f.get, None, watch=watch, case=case, prog=feat_prog(name, None))
                monitored(f"feature.{name}.get(i)", f.get, g.randint(0, T - 1), watch=watch, case=case, prog=feat_prog(name, 0))
                # the hedger with this single input and a model that returns / overwrites its input: compute_hedge then writes
                # the last time step in place into whatever the model returned
                for mname, mod, prog in (("Identity", torch.nn.Identity(), "hedge_batched_identity"), ("InplaceFirst", InplaceFirst(), "hedge_batched_inplace_model")):
                    h1 = Hedger(mod, [feature_obj(torch, name, mk, thr)])
                    monitored(f"Hedger({mname},[{name}]).get_input", h1.get_input, d, None, watch=watch, case=case, prog="get_input")
                    monitored(f"Hedger({mname},[{name}]).compute_hedge", h1.compute_hedge, d, watch=watch, case=case, prog=prog)
            mo = nn_module_output(torch, mk, thr, g)
            f = mo.of(d, None)
            monitored("feature.module_output.get(None)", f.get, None, watch=watch, case=case, prog="moneyness")
            monitored("derivative.payoff", d.payoff, watch=watch, case=case, prog="payoff")
            monitored("derivative.spot(listed)", lambda: d.spot, watch=watch, case=case)
            monitored("derivative.moneyness", d.moneyness, None, watch=watch, case=case)
            monitored("derivative.max_log_moneyness", d.max_log_moneyness, None, watch=watch, case=case)
            names = [g.choice(BASE_FEATURES[:-1]) for _ in range(2)] + ["log_spot", "underlier_log_spot"]
            feats = [feature_obj(torch, nm, mk, thr) for nm in names]
            ms = gen_linear(g, len(names), 1)
            hedger = Hedger(model_obj(torch, ms), feats)
            hedger2 = Hedger(model_obj(torch, gen_linear(g, len(names) + 1, 1)), feats + ["prev_hedge"])
            for hname, hh in (("batched", hedger), ("stepwise", hedger2)):
                monitored(f"Hedger.compute_hedge[{hname}]", hh.compute_hedge, d, watch=watch, case=case, prog="hedge_batched" if hname == "batched" else "hedge_step")
                monitored(f"Hedger.compute_pl[{hname}]", hh.compute_pl, d, watch=watch, case=case, prog="pl")
                monitored(f"Hedger.compute_portfolio[{hname}]", hh.compute_portfolio, d, watch=watch, case=case)
                monitored(f"Hedger.get_input[{hname}]", hh.get_input, d, 0, watch=watch, case=case)
            if mk["option"] in ("EuropeanOption",) or True:
                volpos = all(v > 0 for r in mk["vol"] for v in r)
                if volpos and not (mk["option"] in ("LookbackOption", "AmericanBinaryOption") and not mk["call"]):
                    bs = BlackScholes(d)
                    monitored("BlackScholes.price", bs.price, watch=watch, case=case)
                    monitored("BlackScholes.delta", bs.delta, watch=watch, case=case)
                    hb = Hedger(bs, bs.inputs())
                    monitored("Hedger(BlackScholes).compute_pl", hb.compute_pl, d, watch=watch, case=case)
                    ww = WhalleyWilmott(d)
                    hw = Hedger(ww, ww.inputs())
                    monitored("Hedger(WhalleyWilmott).compute_hedge", hw.compute_hedge, d, watch=watch, case=case)
            # criteria and functional forms on caller tensors
            x = torch.tensor([[float(v) for v in r] for r in mk["spot"]], dtype=dt).t().contiguous()
            tg = torch.ones_like(x) * 0.5
            for cname, crit in (("EntropicRiskMeasure", nn.EntropicRiskMeasure()), ("ExpectedShortfall", nn.ExpectedShortfall(0.5)),
                                ("QuadraticCVaR", nn.QuadraticCVaR(2.0)), ("EntropicLoss", nn.EntropicLoss()), ("IsoelasticLoss", nn.IsoelasticLoss(0.5))):
                monitored(f"{cname}.forward", crit, x, tg, case=case, prog="loss")
                monitored(f"{cname}.cash", crit.cash, x, tg, case=case)
            sp = torch.tensor([[[float(v) for v in r]] for r in mk["spot"]], dtype=dt)
            un = torch.ones_like(sp) * 0.5
            pay = torch.ones(N, dtype=dt)
            monitored("functional.pl", fnl.pl, sp, un, cost=[0.01], payoff=pay, case=case, prog="pl")
            lo_b, hi_b = torch.zeros(N, T, dtype=dt), torch.ones(N, T, dtype=dt) * 2
            xs = torch.tensor([[float(v) for v in r] for r in mk["spot"]], dtype=dt)
            monitored("functional.leaky_clamp", fnl.leaky_clamp, xs, lo_b, hi_b, case=case, prog="clamp")
            monitored("functional.clamp", fnl.clamp, xs, lo_b, hi_b, case=case, prog="clamp")
            monitored("functional.clamp[max]", fnl.clamp, xs, lo_b, hi_b, inverted_output="max", case=case)
            monitored("functional.european_payoff", fnl.european_payoff, xs, case=case)
            monitored("functional.lookback_payoff", fnl.lookback_payoff, xs, case=case)
            monitored("functional.realized_volatility", fnl.realized_volatility, xs, 0.01, case=case)
            monitored("functional.expected_shortfall", fnl.expected_shortfall, x, 0.5, dim=0, case=case)
            monitored("functional.value_at_risk", fnl.value_at_risk, x, 0.5, dim=0, case=case)
            monitored("functional.topp", fnl.topp, x[:, 0], 0.5, case=case)
            tgt_b = torch.tensor([0.3] * N, dtype=dt)
            monitored("bisect", bisect, lambda z: z * 2.0, tgt_b, torch.zeros(N, dtype=dt), torch.ones(N, dtype=dt), case=case)
            sS, tT, vV = xs.log(), torch.ones_like(xs), torch.ones_like(xs) * 0.2
            monitored("functional.bs_european_price", fnl.bs_european_price, sS, tT, vV, case=case)
            monitored("functional.bs_lookback_price", fnl.bs_lookback_price, sS, sS.cummax(-1).values, tT, vV, 1.0, case=case)
            monitored("functional.bs_american_binary_price", fnl.bs_american_binary_price, sS, sS.cummax(-1).values, tT, vV, case=case)
        functional_sweep(mk, case)
        # automatic Greeks of a user pricer under every parameterisation, on caller tensors (negative variances included: they are
        # clamped, which must not happen in the caller's tensor); Greeks of the BS modules on caller tensors
        import pfhedge.autogreek as ag
        with torch.enable_grad():
            xs_pos = torch.tensor([[float(v) for v in r] for r in mk["spot"]], dtype=dt)
            var_t = (torch.ones_like(xs_pos) * 0.04)
            var_t[0, 0] = -0.01
            ttm_t = torch.ones_like(xs_pos) * 0.5
            pr_spot = lambda spot, volatility, time_to_maturity: spot * spot * volatility + time_to_maturity * spot
            pr_mon = lambda moneyness, variance, time_to_maturity: moneyness * (1.0 + variance) + time_to_maturity
            pr_lm = lambda log_moneyness, volatility, time_to_maturity: log_moneyness.exp() * volatility + time_to_maturity
            for gname in ("delta", "gamma", "vega", "theta"):
                gf = getattr(ag, gname)
                monitored(f"autogreek.{gname}[spot,variance]", gf, pr_spot, spot=xs_pos, variance=var_t, time_to_maturity=ttm_t, case=case)
                monitored(f"autogreek.{gname}[moneyness,variance]", gf, pr_mon, moneyness=xs_pos, strike=2.0, variance=var_t, time_to_maturity=ttm_t, case=case)
                monitored(f"autogreek.{gname}[log_moneyness,volatility]", gf, pr_lm, log_moneyness=xs_pos.log(), strike=2.0,
                          volatility=var_t.abs().sqrt(), time_to_maturity=ttm_t, case=case)
            from pfhedge.nn import BSEuropeanOption, BSLookbackOption, BSAmericanBinaryOption, BSEuropeanBinaryOption
            lmx = xs_pos.log()
            for mname, mod_, pd_ in (("BSEuropeanOption", BSEuropeanOption(strike=1.5), False), ("BSEuropeanBinaryOption", BSEuropeanBinaryOption(strike=1.5), False),
                                     ("BSLookbackOption", BSLookbackOption(strike=1.5), True), ("BSAmericanBinaryOption", BSAmericanBinaryOption(strike=1.5), True)):
                args_ = (lmx, lmx.cummax(-1).values, ttm_t, var_t.abs().sqrt()) if pd_ else (lmx, ttm_t, var_t.abs().sqrt())
                for gname in ("price", "delta", "gamma", "vega", "theta"):
                    monitored(f"{mname}.{gname}", getattr(mod_, gname), *args_, case=case)
        # simulation with caller-provided initial states / re-simulation leaves caller tensors alone
        init = (torch.tensor(1.5, dtype=dt),)
        monitored("BrownianStock.simulate(init_state tensor)", u.simulate if mk["primary"] == "BrownianStock" else I.BrownianStock(dtype=dt).simulate,
                  n_paths=3, init_state=init, case=case)
    ctx.extra["monitored_calls"] = calls
    ctx.extra["functionals_swept"] = len(FN_PUBLIC) - len(unmapped)
    ctx.extra["functionals_unmapped"] = sorted(unmapped)
    # ------------------------------------------------------------------ history independence
    # one hedger, several derivatives; besides the computations the history contains what changes the hedger's OTHER state: a backward pass through
    # its loss (gradient inspection, a hand-written training step: leaves .grad on the parameters), eval() / train(), fit with validation (leaves the
    # hedger in evaluation mode).  Every computation is compared with fresh hedgers holding the same parameters (in the same mode; after a history that
    # ends in evaluation mode also in the mode a hedger is constructed in), every fit (Adam, 2 epochs) with the fit of a fresh hedger under the same seed.
    # The first histories have fixed beginnings (model kind x beginning), so that each of these classes occurs for every seed
    HIST_BEGIN = [["loss_backward", "fit", "compute_pl"], ["eval", "compute_hedge", "compute_pl", "price"], ["fit_val", "compute_hedge", "compute_loss"], []]
    nh = 25 if ctx.tier == "quick" else 400
    for it in range(nh):
        torch.manual_seed(g.randint(0, 10 ** 6))
        stateful = g.chance(0.6)
        kind = g.choice(MODEL_KINDS)
        if it < 12:
            kind = MODEL_KINDS[(it // 4) % 3]
        feats = ["moneyness", "time_to_maturity", "volatility"] + (["prev_hedge"] if stateful else [])
        if kind == "mlp":
            base = torch.nn.Sequential(torch.nn.Linear(len(feats), 4, dtype=dt), torch.nn.ReLU(), torch.nn.Linear(4, 1, dtype=dt))
        else:
            base = BandNet(len(feats), kind == "band:LeakyClamp", stateful, dt)
        crit = g.choice([nn.EntropicRiskMeasure(), nn.ExpectedShortfall(0.3)])
        hedger = Hedger(base, feats, criterion=crit)
        derivs = []
        for _ in range(g.choice([2, 3])):
            stock = g.choice([lambda: I.BrownianStock(cost=1e-3, dtype=dt), lambda: I.HestonStock(dtype=dt), lambda: I.MertonJumpStock(dtype=dt)])()
            derivs.append(g.choice([I.EuropeanOption, I.LookbackOption, I.EuropeanBinaryOption])(stock, maturity=g.choice([3 / 250, 6 / 250])))
        ops = []
        for d_ in derivs:
            d_.simulate(n_paths=g.choice([1, 3, 8]))
        L = g.randint(3, 10 if ctx.tier == "quick" else 25)
        begin = HIST_BEGIN[it % 4] if it < 12 else []
        names_ = begin + [g.choice(["simulate", "compute_hedge", "compute_pl", "compute_loss", "price", "fit", "compute_hedge", "compute_pl",
                                                                    "loss_backward", "fit_val", "eval", "train"]) for _ in range(max(L - len(begin), 1))]
        for nm_ in names_:
            ops.append((nm_, g.randint(0, len(derivs) - 1), g.choice([1, 2, 5, 8]), g.randint(0, 10 ** 6)))
        case = {"stateful": stateful, "model": kind, "ops": [(o[0], o[1], o[2]) for o in ops], "n_derivatives": len(derivs)}
        ctx.case(case, nontrivial=True, tag="history")
        ctx.traces += 1
        ctx.stats[f"hist:model={kind}"] += 1
        mk_fresh = lambda: Hedger(copy.deepcopy(hedger.model), feats, criterion=copy.deepcopy(crit))
        budget = [MODE_BUDGET]
        eq = lambda v1, v2: v1.shape == v2.shape and bool(((v1 == v2) | (v1.isnan() & v2.isnan())).all())
        for i, (op, di, npaths, seed) in enumerate(ops):
            d_ = derivs[di]
            ctx.stats[f"hist:{op}"] += 1
            if op == "simulate":
                torch.manual_seed(seed)
                d_.simulate(n_paths=npaths)
                continue
            if op in ("eval", "train"):
                hedger.train(op == "train")
                continue
            if op == "loss_backward":
                torch.manual_seed(seed)
                hedger.compute_loss(d_, n_paths=npaths).backward()          # leaves .grad on the parameters; changes no parameter
                continue
            if op in ("fit", "fit_val"):
                fresh = mk_fresh().train(hedger.training)
                stale = any(p_.grad is not None and bool((p_.grad != 0).any()) for p_ in hedger.model.parameters())
                outs = []
                for hh in (hedger, fresh):
                    torch.manual_seed(seed)
                    st, v, _ = call_impl(hh.fit, d_, n_epochs=2, n_paths=npaths, verbose=False, validation=op == "fit_val")
                    outs.append((st, v, [p_.detach().clone() for p_ in hh.model.parameters()]))
                (s1, v1, p1), (s2, v2, p2) = outs
                ctx.stats[f"hist:fit:stale_grad={stale}"] += 1
                if s1 != s2 or (s1 == "ok" and (any(not eq(a_, b_) for a_, b_ in zip(p1, p2)) or str(v1) != str(v2))):
                    ctx.fail("the result of fit (parameters, returned validation losses) depends on what the hedger was used for before - a backward pass through its "
                             "loss that left gradients on the parameters, its mode, earlier fits - : it differs from the fit of a fresh hedger with the same "
                             "parameters and criterion under the same seed", case | {"step": i, "op": op, "gradients_present_before_fit": stale},
                             key="history:fit" + (":stale-grad" if stale else ""),
                             detail={"used": str(v1)[:100], "fresh": str(v2)[:100],
                                     "max_abs_parameter_diff": max(float((a_ - b_).abs().max()) for a_, b_ in zip(p1, p2)) if s1 == s2 == "ok" else None})
                    break
                continue
            failed = False
            for label, fresh in [("used", hedger)] + fresh_hedgers(hedger, mk_fresh, budget):
                torch.manual_seed(seed)
                with torch.no_grad():
                    if op == "compute_hedge":
                        st, v, mut = call_impl(fresh.compute_hedge, d_, watch=[("derivative", d_)])
                    elif op == "compute_pl":
                        st, v, mut = call_impl(fresh.compute_pl, d_, watch=[("derivative", d_)])
                    elif op == "compute_loss":
                        st, v, mut = call_impl(fresh.compute_loss, d_, n_paths=npaths)
                    else:
                        st, v, mut = call_impl(fresh.price, d_, n_paths=npaths)
                if mut and op in ("compute_hedge", "compute_pl"):
                    ctx.fail(f"Hedger.{op} modified market data in place", case | {"step": i}, key=f"mutation:Hedger.{op}", detail=mut)
                if label == "used":
                    s1, v1 = st, v
                    continue
                s2, v2 = st, v
                same = s1 == s2 and (s1 != "ok" or eq(v1, v2))
                ctx.stats[f"hist:compared:{label}"] += 1
                if not same:
                    if label == "same-mode":
                        ctx.fail("the result of a hedging operation depends on what the hedger was used with before (differs from a fresh hedger with the same parameters)",
                                 case | {"step": i, "op": op}, key=f"history:{op}",
                                 detail={"used": str(v1)[:200], "fresh": str(v2)[:200]})
                    else:
                        ctx.fail("the result of a hedging operation depends on the history having left the hedger in evaluation mode (fit with validation / eval()): it "
                                 "differs from a fresh hedger with the same parameters as constructed (training mode), although no module of the model is documented "
                                 "to depend on the mode", case | {"step": i, "op": op}, key=f"history:mode:{op}",
                                 detail={"used(eval)": str(v1)[:200], "fresh(train)": str(v2)[:200]})
                    failed = True
                    break
            if failed:
                break
    def same_result(a, b):
        (s1, v1), (s2, v2) = a, b
        if s1 != s2:
            return False
        if s1 != "ok" or not isinstance(v1, torch.Tensor):
            return v1 == v2 if s1 != "ok" else True
        return v1.dtype == v2.dtype and v1.shape == v2.shape and bool(((v1 == v2) | (v1.isnan() & v2.isnan())).all())

    # ------------------------------------------------------------------ history independence II: the INSTRUMENT objects are reused
    # one underlier object (with one or two derivatives on it) lives through dtype changes (to(float32) / to(float64)), re-simulations
    # with other path counts and hedging by long-lived hedgers; every hedging result is compared with that of a NEWLY constructed
    # underlier + derivative + hedger of the same parameters and dtype holding bit-identical copies of the current buffers
    f32, f64 = torch.float32, torch.float64
    nr = 14 if ctx.tier == "quick" else 200
    for it in range(nr):
        prim = g.choice(["BrownianStock", "HestonStock", "MertonJumpStock"])
        step = g.choice([1 / 250, 1 / 100])
        pkw = {"cost": g.choice([0.0, 1e-3]), "dt": step}
        if prim != "HestonStock":
            pkw["sigma"] = g.choice([0.2, 0.3])
        mk_u = lambda dtype_: getattr(I, prim)(dtype=dtype_, **pkw)
        dspecs = []
        for _ in range(g.choice([1, 1, 2])):
            oname = g.choice(OPTION_TYPES)
            dkw = {"call": True if oname in ("LookbackOption", "AmericanBinaryOption") else g.chance(0.6), "strike": g.choice([0.95, 1.0, 1.05]),
                   "maturity": g.choice([3, 5, 8]) * step}
            listed = g.choice([None, None, (2.0, 0.25)])
            model_kind = g.choice(["BlackScholes", "WhalleyWilmott", "linear", "linear+prev_hedge", "band:LeakyClamp", "band:LeakyClamp+prev_hedge", "band:Clamp+prev_hedge"])
            if it < 4:          # for every seed: the clamp modules (and the BS module) through a history that leaves the hedger in evaluation mode
                model_kind = ["band:LeakyClamp+prev_hedge", "band:LeakyClamp", "band:Clamp+prev_hedge", "WhalleyWilmott"][it]
            dspecs.append((oname, dkw, listed, model_kind))

        def mk_d(u_, spec):
            oname, dkw, listed, _ = spec
            d_ = getattr(I, oname)(u_, **dkw)
            if listed:
                d_.list(lambda dd, a_=listed[0], b_=listed[1]: dd.ul().spot * a_ + b_, cost=1e-4)
            return d_

        def mk_h(d_, spec, model=None):
            kind = spec[3]
            if kind in ("BlackScholes", "WhalleyWilmott"):
                m_ = getattr(nn, kind)(d_)
                return Hedger(m_, m_.inputs())
            feats_ = ["log_moneyness", "time_to_maturity", "volatility"] + (["prev_hedge"] if kind.endswith("prev_hedge") else [])
            return Hedger(model, feats_)

        cur = g.choice([f32, f64])
        u_used = mk_u(cur)
        d_used = [mk_d(u_used, sp) for sp in dspecs]
        h_used = []
        for d_, sp in zip(d_used, dspecs):
            torch.manual_seed(g.randint(0, 10 ** 6))
            nin = 4 if sp[3].endswith("prev_hedge") else 3
            h_used.append(mk_h(d_, sp, model=BandNet(nin, "LeakyClamp" in sp[3], sp[3].endswith("prev_hedge"), cur) if sp[3].startswith("band") else
                               torch.nn.Sequential(torch.nn.Linear(nin, 3, dtype=cur), torch.nn.Tanh(), torch.nn.Linear(3, 1, dtype=cur))))
        hops = ["compute_hedge", "compute_pl", "compute_hedge", "compute_pl", "compute_loss"]
        di0 = g.randint(0, len(dspecs) - 1)
        # every history starts with: simulate, hedge, change of dtype; then a random tail.  op = (name, derivative, n_paths | dtype, seed)
        ops = [("simulate", di0, g.choice([1, 3, 8]), g.randint(0, 10 ** 6)), (g.choice(hops[:2]), di0, 2, g.randint(0, 10 ** 6)),
               ("to", 0, "float64" if cur == f32 else "float32", 0)]
        if it < 8:          # eval() of the long-lived hedgers, then hedging
            ops += [("eval", 0, None, 0), (g.choice(hops[:2]), di0, 2, g.randint(0, 10 ** 6))]
        for _ in range(g.randint(3, 7 if ctx.tier == "quick" else 20)):
            op = g.choice(["simulate", "to", "to", "eval", "train"] + hops)
            if op in ("eval", "train"):
                ops.append((op, 0, None, 0))
                continue
            if op == "to":
                ops.append((op, 0, g.choice(["float32", "float64"]), 0))
            else:
                ops.append((op, g.randint(0, len(dspecs) - 1), g.choice([1, 2, 5, 8]), g.randint(0, 10 ** 6)))
        case = {"primary": prim, "params": pkw, "derivatives": [(sp[0], sp[1], bool(sp[2]), sp[3]) for sp in dspecs], "dtype0": str(cur),
                "ops": [o[:3] for o in ops]}
        ctx.case(case, nontrivial=True, tag="instrument_reuse")
        ctx.traces += 1
        budget = [MODE_BUDGET]
        for i, (op, di, arg, seed) in enumerate(ops):
            ctx.stats[f"reuse:{op}"] += 1
            if op == "simulate":
                torch.manual_seed(seed)
                d_used[di].simulate(n_paths=arg)
                continue
            if op == "to":
                cur = f32 if arg == "float32" else f64
                d_used[di].to(cur)
                for h_ in h_used:
                    h_.to(cur)
                continue
            if op in ("eval", "train"):
                for h_ in h_used:
                    h_.train(op == "train")
                continue
            # newly constructed instruments holding bit-identical copies of the current buffers
            u_new = mk_u(cur)
            for bname, buf in list(u_used.named_buffers()):
                u_new.register_buffer(bname, buf.detach().clone())
            d_new = mk_d(u_new, dspecs[di])
            # (new hedgers: in the mode of the used one, and - if that is evaluation mode - also as constructed)
            h_news = fresh_hedgers(h_used[di], lambda: mk_h(d_new, dspecs[di], model=copy.deepcopy(h_used[di].model)), budget)
            outs = []
            for hh, dd in [(h_used[di], d_used[di])] + [(h_, d_new) for _, h_ in h_news]:
                torch.manual_seed(seed)
                if op == "compute_loss":
                    st, v, mut = call_impl(hh.compute_loss, dd, n_paths=arg)
                else:
                    st, v, mut = call_impl(getattr(hh, op), dd, watch=[("derivative", dd)])
                    if mut:
                        ctx.fail(f"Hedger.{op} modified market data in place", case | {"step": i}, key=f"mutation:Hedger.{op}", detail=mut)
                outs.append((st, v.detach() if isinstance(v, torch.Tensor) else v))
            ctx.stats[f"reuse-result:{outs[0][0]}"] += 1
            if not same_result(*outs[:2]):
                v1, v2 = outs[0][1], outs[1][1]
                ctx.fail("the result of a hedging operation depends on what the derivative / underlier OBJECTS were used with before (differs from newly "
                         "constructed instruments of the same parameters and dtype holding bit-identical buffers)",
                         case | {"step": i, "op": op, "dtype": str(cur)}, key=f"instrument_history:{op}",
                         detail={"reused": f"{getattr(v1, 'dtype', '')} {str(v1)[:200]}", "fresh": f"{getattr(v2, 'dtype', '')} {str(v2)[:200]}"})
                break
            if len(outs) == 3:
                ctx.stats["reuse:compared_with_train_mode"] += 1
                if not same_result(outs[0], outs[2]):
                    v1, v2 = outs[0][1], outs[2][1]
                    ctx.fail("the result of a hedging operation depends on the history having left the hedger in evaluation mode (eval()): it differs from a newly "
                             "constructed hedger (training mode) with the same parameters on newly constructed instruments holding bit-identical buffers, although "
                             "no module of the model is documented to depend on the mode",
                             case | {"step": i, "op": op, "dtype": str(cur), "model": dspecs[di][3]}, key=f"instrument_history:mode:{op}",
                             detail={"reused(eval)": f"{getattr(v1, 'dtype', '')} {str(v1)[:200]}", "fresh(train)": f"{getattr(v2, 'dtype', '')} {str(v2)[:200]}"})
                    break
    # ------------------------------------------------------------------ history independence III: feature OBJECTS (not names) are shared
    from pfhedge.features import FeatureList, ModuleOutput
    VAL_FEATS = [f_ for f_ in BASE_FEATURES if f_ != "empty"]        # "empty" is uninitialised memory: no value to compare
    ALL_FEATS = VAL_FEATS + ["prev_hedge"]
    ns = 30 if ctx.tier == "quick" else 400
    for it in range(ns):
        mks = [gen_market(g), gen_market(g)]
        ders = [build_derivative(torch, mk_)[0] for mk_ in mks]
        thr = g.choice([x for p in mks[0]["spot"] for x in p])
        Tmin = min(mk_["T"] for mk_ in mks)
        # (a) ONE feature object bound to two (derivative, hedger) pairs: each binding keeps giving the values of ITS derivative / hedger,
        # i.e. what a feature object of its own gives.  (ModuleOutput is not included here: its `of` is documented and modelled as a
        # re-binding of the module itself - it is shared through the hedgers of part (b), where every operation re-binds first.)
        hs = []
        with torch.no_grad():
            for d_ in ders:
                h_ = Hedger(model_obj(torch, gen_linear(g, 2, 1)), ["moneyness", "prev_hedge"])
                h_.compute_hedge(d_)                       # leaves this hedger's own prev_output
                hs.append(h_)
            fl_names = [g.choice(ALL_FEATS) for _ in range(3)]
            ts = g.choice([None, g.randint(0, Tmin - 1), g.randint(0, Tmin - 1)])
            case = {"markets": [{k: (enc_rat(v) if k in ("spot", "vol", "var") else str(v)) for k, v in mk_.items()} for mk_ in mks], "time_step": ts,
                    "threshold": str(thr), "list": fl_names}
            ctx.case(case, True, tag="shared_feature_object")
            ctx.traces += 1
            mkf = lambda nm: FeatureList([feature_obj(torch, n_, mks[0], thr) for n_ in fl_names]) if nm == "FeatureList" else get_feature(feature_obj(torch, nm, mks[0], thr))
            for name in ALL_FEATS + ["FeatureList"]:
                fo = mkf(name)
                order = g.choice([(0, 1), (1, 0)])
                b_first = fo.of(ders[order[0]], hs[order[0]])
                early = call_impl(b_first.get, ts)[:2]
                b_second = fo.of(ders[order[1]], hs[order[1]])
                for which, bound, k in (("first", b_first, order[0]), ("second", b_second, order[1])):
                    got = call_impl(bound.get, ts)[:2]
                    want = call_impl(mkf(name).of(ders[k], hs[k]).get, ts)[:2]
                    ctx.stats[f"shared_feature:{got[0]}"] += 1
                    if not same_result(got, want) or (which == "first" and not same_result(early, want)):
                        ctx.fail(f"feature object {name}: the binding obtained from .of(derivative {k}) gives other values than a feature object of its own "
                                 f"after the same object was bound to another derivative / hedger", case | {"feature": name, "binding": which, "order": order},
                                 key=f"feature_rebind:{name}", detail={"got": str(got[1])[:200], "own_object": str(want[1])[:200]})
                        break
        # (b) two hedgers built from the SAME list of feature objects (incl. a shared PrevHedge / ModuleOutput object), used alternately on
        # different derivatives, vs hedgers with feature objects of their own
        names = [g.choice(VAL_FEATS) for _ in range(2)] + g.choice([[], ["prev_hedge"], ["module_output"], ["prev_hedge", "module_output"]])
        mo_ms = gen_linear(g, 2, 1)
        def objs():
            return [ModuleOutput(model_obj(torch, mo_ms), [feature_obj(torch, "log_moneyness", mks[0], thr), feature_obj(torch, "time_to_maturity", mks[0], thr)])
                    if nm == "module_output" else get_feature(feature_obj(torch, nm, mks[0], thr)) for nm in names]
        shared = objs()
        mss = [gen_linear(g, len(names), 1) for _ in range(2)]
        h_shared = [Hedger(model_obj(torch, ms_), shared) for ms_ in mss]
        h_own = [Hedger(model_obj(torch, ms_), objs()) for ms_ in mss]
        seq = [(g.randint(0, 1), g.randint(0, 1), g.choice(["compute_hedge", "compute_pl", "compute_portfolio"] + ([] if "prev_hedge" in names else ["get_input"])))
               for _ in range(g.randint(4, 8))]           # get_input binds without a hedger: not defined with prev_hedge
        case = {"features": names, "sequence": seq, "markets": [{k: (enc_rat(v) if k in ("spot", "vol", "var") else str(v)) for k, v in mk_.items()} for mk_ in mks]}
        ctx.case(case, True, tag="shared_feature_list")
        with torch.no_grad():
            for i, (hi, di, op) in enumerate(seq):
                args_ = (ders[di], g.choice([None, 0])) if op == "get_input" else (ders[di],)
                outs = []
                for hh in (h_shared[hi], h_own[hi]):
                    st, v, mut = call_impl(getattr(hh, op), *args_, watch=[("derivative", ders[di])])
                    if mut:
                        ctx.fail(f"Hedger.{op} modified market data in place", case | {"step": i}, key=f"mutation:Hedger.{op}", detail=mut)
                    outs.append((st, v))
                ctx.stats[f"shared_list:{op}:{outs[0][0]}"] += 1
                if not same_result(*outs):
                    ctx.fail("the result of a hedging operation depends on which other hedger / derivative the same feature objects were used with before "
                             "(differs from a hedger with feature objects of its own)", case | {"step": i, "op": op}, key=f"shared_features:{op}",
                             detail={"shared": str(outs[0][1])[:200], "own": str(outs[1][1])[:200]})
                    break
    # ------------------------------------------------------------------ history independence IV: the `hedge=` argument has a history too
    # ONE hedger lives through calls with DIFFERENT hedging instruments (default, the underlier passed explicitly, listed derivatives written
    # on the derivative's underlier), including fit(hedge=...) followed by calls with the default; the listed instruments live through
    # re-simulations and dtype changes of their underlier made by ANOTHER owner (the hedged derivative's simulate() -- what compute_loss / price /
    # fit do at every iteration --, the stock's own simulate(), to() of the stock / of another derivative).  Every result is compared with
    # that of a NEW world: a newly constructed underlier holding bit-identical buffers, new derivatives, newly listed instruments and a fresh
    # hedger with the same parameters, called with the corresponding `hedge=` argument under the same random seed.  Calls with the default
    # are also compared with the same hedger called with hedge=[underlier] (the documented meaning of the default), and the price of a
    # listed instrument with that of the newly listed one on the same series.  Own generator: the cases of the other parts do not move.
    g4 = Gen(f"{ctx.seed}:hedge_history")
    n4 = 16 if ctx.tier == "quick" else 160
    HOPS = ["compute_hedge", "compute_pl", "compute_portfolio", "compute_loss", "price"]
    HEAP_PROG = {"compute_pl": "pl"}
    # ---- the same histories inside the Lean model (Model/HedgerSession.lean, op "hedger_session": one hedger state -- parameters, prev_output buffer,
    # optimiser instance -- and one world, `step` per operation).  Model-compared histories (`modelable`) are restricted to what the model has:
    # float64 throughout (casts are casts to float64), a Linear(-ReLU-Linear) module, affine pricers (a pricer returning a view is `spot * 1 + 0`),
    # entropic risk / entropic loss / expected shortfall (with ONE path count for compute_loss / price / fit: `CritH.es k` is one k); fit takes an
    # Optimizer subclass (a new optimiser per call) or ONE optimiser instance reused by every fit of the history (SGD with momentum / Adam: its
    # state is part of the session).  They run through the bitwise comparison with a new world below like all others, and every operation is also
    # sent to the model: the series are read off the real instruments after each (re)simulation; for compute_loss / price / fit, which simulate
    # inside, the draws are re-created under the operation's seed (as harness/c06.py hedger_price_section, harness/c15.py check_fit_num do).
    SESSION_FEATS = {"log_moneyness": ["moneyness", True], "time_to_maturity": ["time_to_maturity"], "volatility": ["volatility"], "prev_hedge": ["prev_hedge"]}
    SESSION_PAYOFF = {"EuropeanOption": "european", "LookbackOption": "lookback", "EuropeanBinaryOption": "european_binary"}

    def series_json(u_):
        enc = lambda t: enc_flt([[float(x) for x in r] for r in t.detach().to(f64).tolist()])
        return {"spot": enc(u_.spot), "variance": enc(u_.variance), "volatility": enc(u_.volatility)}

    def hedge_history(g4, modelable, idx):
        prim = g4.choice(["BrownianStock", "BrownianStock", "HestonStock", "MertonJumpStock"])
        step = g4.choice([1 / 250, 1 / 100])
        # (model-compared histories: cost rates exactly representable in single precision -- pl() builds torch.tensor(cost) (float32) before casting
        # to the spot's dtype, a 6e-8 relative rounding of the rate that is not this property's subject; see harness/c15.py)
        pkw = {"cost": g4.choice([0.0, 1e-3] if not modelable else [0.0, 2.0 ** -10]), "dt": step}
        if prim != "HestonStock":
            pkw["sigma"] = g4.choice([0.2, 0.3])
        mk_u = lambda dtype_: getattr(I, prim)(dtype=dtype_, **pkw)
        nT = g4.choice([3, 5, 6])
        # hedged derivatives and listed instruments, all on the one underlier
        dspecs = [(g4.choice(["EuropeanOption", "LookbackOption", "EuropeanBinaryOption"]), {"strike": g4.choice([0.95, 1.0, 1.05]), "maturity": nT * step})
                  for _ in range(g4.choice([1, 2]) if not modelable else 2)]
        lspecs = []
        for _ in range(g4.choice([1, 2])):
            pk = g4.choice(["affine", "affine", "view", "square+ttm"] if not modelable else ["affine", "affine", "view"])
            lspecs.append(("EuropeanOption", {"call": g4.chance(0.7), "strike": g4.choice([0.9, 1.0, 1.1]), "maturity": g4.choice([nT, nT, nT + 2]) * step},
                           pk, g4.choice([2.0, 0.5, 1.5]), g4.choice([0.25, -0.125, 1.0]), g4.choice([0.0, 1e-3, 1e-2] if not modelable else [0.0, 2.0 ** -10, 2.0 ** -7])))

        def mk_l(u_, spec):
            oname, okw, pk, a_, b_, c_ = spec
            o_ = getattr(I, oname)(u_, **okw)
            if pk == "affine":
                o_.list(lambda dd, a_=a_, b_=b_: dd.ul().spot * a_ + b_, cost=c_)
            elif pk == "view":          # a pricer returning a VIEW of the underlier's buffer
                o_.list(lambda dd: dd.ul().spot[:, :], cost=c_)
            else:
                o_.list(lambda dd, a_=a_: dd.ul().spot.square() * a_ + dd.time_to_maturity(), cost=c_)
            return o_
        stateful = g4.chance(0.5)
        feats4 = ["log_moneyness", "time_to_maturity", "volatility"] + (["prev_hedge"] if stateful else [])
        cur = g4.choice([f64, f64, f32]) if not modelable else f64
        torch.manual_seed(g4.randint(0, 10 ** 6))
        opt_used = None
        # the history also contains what changes the hedger's OTHER state (see history independence I): a backward pass through its loss ("loss_backward":
        # the loss is an answer like compute_loss's, and .grad stays on the parameters), eval() / train(), fit with validation ("fit_val": leaves the hedger in
        # evaluation mode).  The model kinds / beginnings rotate with the index of the history, so that every combination occurs for every seed
        kind4 = MODEL_KINDS[idx % 3] if not modelable else "mlp"
        if not modelable:
            model4 = (BandNet(len(feats4), kind4 == "band:LeakyClamp", stateful, cur) if kind4 != "mlp" else
                      torch.nn.Sequential(torch.nn.Linear(len(feats4), 3, dtype=cur), torch.nn.Tanh(), torch.nn.Linear(3, 1, dtype=cur)))
            crit4 = g4.choice([nn.EntropicRiskMeasure(), nn.ExpectedShortfall(0.3), nn.EntropicLoss()])
            fit_kw = lambda hh, used: {}
        else:
            hid = g4.choice([0, 2, 3])
            model4 = (torch.nn.Sequential(torch.nn.Linear(len(feats4), hid, dtype=cur), torch.nn.ReLU(), torch.nn.Linear(hid, 1, dtype=cur)) if hid
                      else torch.nn.Sequential(torch.nn.Linear(len(feats4), 1, dtype=cur)))
            crit_name, crit_a = g4.choice(["erm", "erm", "eloss", "es"]), g4.choice([1.0, 0.5, 2.0])
            crit4 = {"erm": lambda: nn.EntropicRiskMeasure(crit_a), "eloss": lambda: nn.EntropicLoss(crit_a), "es": lambda: nn.ExpectedShortfall(0.3)}[crit_name]()
            np_crit = g4.choice([2, 5, 8])          # the path count of every compute_loss / price / fit of this history
            optname, opt_inst = g4.choice([("SGD", False), ("SGD", True), ("SGD", True), ("Adam", False), ("Adam", True)])
            okw = dict(lr=g4.choice([0.01, 0.1]), momentum=g4.choice([0.0, 0.9, 0.5])) if optname == "SGD" else dict(lr=g4.choice([0.001, 0.01]))
            opt_spec = (["sgd", float_bits(okw["lr"]), float_bits(okw["momentum"]), float_bits(0.0)] if optname == "SGD"
                        else ["adam", float_bits(okw["lr"]), float_bits(0.9), float_bits(0.999), float_bits(1e-8), float_bits(0.0)])
            seen_grads = []

            class TheOpt(getattr(torch.optim, optname)):          # fit() accepts an Optimizer SUBCLASS or an instance
                def __init__(self, params):
                    super().__init__(params, **okw)

                def step(self, *a_, **kw_):
                    if self.param_groups[0]["params"][0] is next(iter(model4.parameters())):
                        seen_grads.append([p_.grad.detach().clone() for p_ in self.param_groups[0]["params"] if p_.grad is not None])
                    return super().step(*a_, **kw_)
            opt_before = [None]
            if opt_inst:
                opt_used = TheOpt(model4.parameters())

            def fit_kw(hh, used):
                if not opt_inst:
                    return {"optimizer": TheOpt}
                if used:
                    return {"optimizer": opt_used}
                o_ = TheOpt(hh.model.parameters())          # the fresh hedger's own instance, in the state the used one was in before this call
                o_.load_state_dict(copy.deepcopy(opt_before[0]))
                return {"optimizer": o_}
            theta0 = [p_.detach().clone() for p_ in model4.parameters()]
        h_used = Hedger(model4, feats4, criterion=crit4)
        u_used = mk_u(cur)
        d_used = [getattr(I, sp[0])(u_used, **sp[1]) for sp in dspecs]
        l_used = [mk_l(u_used, sp) for sp in lspecs]
        KINDS = ["default", "default", "underlier"] + [f"listed{j}" for j in range(len(lspecs))] * 2

        def hedge_arg(kind, u_, ls_):
            return None if kind == "default" else [u_] if kind == "underlier" else [ls_[int(kind[6:])]]

        def rnd_op():
            op = g4.choice(["simulate", "simulate_stock", "to", "read_listed", "fit", "fit_val", "loss_backward", "eval", "train"] + HOPS + HOPS)
            di = g4.randint(0, len(dspecs) - 1)
            if op in ("eval", "train"):
                return (op, 0, None, 0, 0)
            if op == "to":
                return (op, g4.choice(["stock", "derivative", "listed"]), g4.choice(["float32", "float64"]) if not modelable else "float64", 0, 0)
            if op == "read_listed":
                return (op, g4.randint(0, len(lspecs) - 1), None, 0, 0)
            if op == "simulate_stock":
                return (op, di, None, g4.choice([1, 2, 5, 8]), g4.randint(0, 10 ** 6))
            return (op, di, g4.choice(KINDS) if op != "simulate" else None, g4.choice([1, 2, 5, 8]), g4.randint(0, 10 ** 6))
        # every history starts with: simulate, hedge with a listed instrument (its price is read), re-simulation through the hedged derivative, the
        # listed price, fit with the listed instrument, re-simulation, calls with the default, the listed price; then a random tail.  op = (name, derivative | owner, hedge kind | dtype, n_paths, seed)
        np0 = g4.choice([2, 5, 8])
        ops = [("simulate", 0, None, np0, g4.randint(0, 10 ** 6)), (g4.choice(HOPS[:3]), 0, "listed0", np0, g4.randint(0, 10 ** 6)),
               ("simulate", 0, None, np0, g4.randint(0, 10 ** 6)), ("read_listed", 0, None, 0, 0), ("loss_backward", 0, g4.choice(KINDS), g4.choice([2, 5]), g4.randint(0, 10 ** 6)),
               ("fit" if idx % 2 == 0 else "fit_val", 0, "listed0", g4.choice([2, 5]), g4.randint(0, 10 ** 6)), ("simulate", g4.randint(0, len(dspecs) - 1), None, np0, g4.randint(0, 10 ** 6)),
               (g4.choice(HOPS[:3]), 0, "default", np0, g4.randint(0, 10 ** 6)), ("read_listed", 0, None, 0, 0),
               (g4.choice(HOPS[3:]), 0, "default", g4.choice([2, 5]), g4.randint(0, 10 ** 6))]
        for _ in range(g4.randint(3, 6 if ctx.tier == "quick" else 16)):
            ops.append(rnd_op())
        if modelable:
            # the second derivative shares the underlier: hedge it after the fit on the first one, then the first one again
            ops[7:7] = [(g4.choice(HOPS[:3]), 1, g4.choice(KINDS), np0, g4.randint(0, 10 ** 6))]
            ops = [(o[0], o[1], o[2], np_crit if o[0] in ("compute_loss", "price", "fit", "fit_val", "loss_backward") else o[3], o[4]) for o in ops]
        case = {"primary": prim, "params": pkw, "derivatives": dspecs, "listed": lspecs, "stateful": stateful, "dtype0": str(cur),
                "criterion": type(crit4).__name__, "ops": [o[:4] for o in ops]} | ({"model": kind4} if not modelable else {})
        if modelable:
            case |= {"model": "linear" if not hid else f"linear-relu({hid})-linear", "criterion_param": crit_a if crit_name != "es" else 0.3,
                     "optimizer": [optname, okw, "instance" if opt_inst else "class"]}
        ctx.case(case, nontrivial=True, tag="hedge_history" if not modelable else "hedger_session")
        ctx.traces += 1
        budget = [MODE_BUDGET]
        sops, sexp, model_ok = [], [], modelable          # the history for the model: its operations and what the implementation answered
        href = lambda kind: None if kind == "default" else [["primary", 0]] if kind == "underlier" else [["listed", int(kind[6:])]]

        def observed():
            po = getattr(h_used, "prev_output", None)
            return {"prev": None if po is None or not stateful else [[float(x) for x in r] for r in po.detach()[:, -1, :].tolist()],
                    "theta": [float(x) for p_ in h_used.model.parameters() for x in p_.detach().reshape(-1).tolist()]}
        for i, (op, di, arg, npaths, seed) in enumerate(ops):
            ctx.stats[f"hedge_hist:{op}"] += 1
            if op == "simulate":          # through a hedged derivative: the listed instruments are not told
                torch.manual_seed(seed)
                d_used[di].simulate(n_paths=npaths)
                if model_ok:
                    sops.append(["simulate", 0, series_json(u_used)])
                    sexp.append({"step": i, "op": op, "res": None} | observed())
                continue
            if op == "simulate_stock":
                torch.manual_seed(seed)
                u_used.simulate(n_paths=npaths, time_horizon=dspecs[di][1]["maturity"])
                if model_ok:
                    sops.append(["simulate", 0, series_json(u_used)])
                    sexp.append({"step": i, "op": op, "res": None} | observed())
                continue
            if op == "to":
                cur = f32 if arg == "float32" else f64
                {"stock": u_used, "derivative": d_used[0], "listed": l_used[-1]}[di].to(cur)
                h_used.to(cur)
                continue
            if op in ("eval", "train"):          # (the model has no mode: it is not told)
                h_used.train(op == "train")
                continue
            mop = {"loss_backward": "compute_loss", "fit_val": "fit"}.get(op, op)          # what the operation is for the model
            # the new world: bit-identical buffers, everything else newly constructed
            u_new = mk_u(cur)
            for bname, buf in list(u_used.named_buffers()):
                u_new.register_buffer(bname, buf.detach().clone())
            d_new = [getattr(I, sp[0])(u_new, **sp[1]) for sp in dspecs]
            l_new = [mk_l(u_new, sp) for sp in lspecs]
            h_new = Hedger(copy.deepcopy(h_used.model), feats4, criterion=copy.deepcopy(crit4))
            h_new.train(h_used.training)
            was_eval = not h_used.training
            step_case = case | {"step": i, "op": op, "dtype": str(cur)}
            if op == "read_listed":
                with torch.no_grad():
                    st, v = monitored("derivative.spot(listed)[underlier renewed by another owner]", lambda: l_used[di].spot, watch=[("listed", l_used[di])], case=step_case)
                    got, want = (st, v), call_impl(lambda: l_new[di].spot)[:2]
                if not same_result(got, want):
                    ctx.fail("the price of a listed derivative depends on which series its underlier held before (differs from the same instrument newly listed on "
                             "a new underlier holding bit-identical buffers)", step_case, key="listed_price_history",
                             detail={"reused": f"{getattr(got[1], 'dtype', '')} {str(got[1])[:200]}", "fresh": f"{getattr(want[1], 'dtype', '')} {str(want[1])[:200]}"})
                    if not modelable:          # (a model-compared history is not cut at a property failure: the model is shown all of it)
                        break
                continue

            def run(hh, dd, hedge, label):
                torch.manual_seed(seed)
                if mop == "fit":
                    st, v, _ = call_impl(hh.fit, dd, hedge=hedge, n_epochs=2, n_paths=npaths, verbose=False, validation=op == "fit_val", **fit_kw(hh, hh is h_used))
                    return (st, torch.cat([p_.detach().reshape(-1) for p_ in hh.model.parameters()]) if st == "ok" else v)
                if op == "loss_backward":          # gradient inspection / a hand-written training step without the step
                    st, v, _ = call_impl(hh.compute_loss, dd, hedge=hedge, n_paths=npaths, n_times=2)
                    if st == "ok":
                        v.backward()
                        v = v.detach()
                    return (st, v)
                if op in ("compute_loss", "price"):
                    with torch.no_grad():
                        st, v, _ = call_impl(getattr(hh, op), dd, hedge=hedge, n_paths=npaths, n_times=2)
                    return (st, v)
                with torch.no_grad():
                    if hh is h_used:
                        st, v = monitored(f"Hedger.{op}[hedge={label}]", getattr(hh, op), dd, hedge=hedge,
                                          watch=[("derivative", dd), ("listed", l_used)], case=step_case, prog=HEAP_PROG.get(op))
                    else:
                        st, v, _ = call_impl(getattr(hh, op), dd, hedge=hedge)
                return (st, v)
            kk = "listed" if arg.startswith("listed") else arg
            ctx.stats[f"hedge_hist:hedge={kk}"] += 1
            if modelable:
                del seen_grads[:]
                if opt_inst:
                    opt_before[0] = copy.deepcopy(opt_used.state_dict())
            r_used = run(h_used, d_used[di], hedge_arg(arg, u_used, l_used), kk)
            if model_ok:
                # what the model is told: the operation, and for the ones that simulate inside the draws, re-created under the operation's seed (the
                # real call consumed random numbers in `derivative.simulate` only); the underlier ends in the series of the last draw once more
                obs = observed()
                if mop in ("compute_loss", "price", "fit"):
                    torch.manual_seed(seed)
                    draws = []
                    for _ in range(4 if op == "fit_val" else 2):          # fit with validation: training batch, validation batch per epoch
                        d_used[di].simulate(n_paths=npaths)
                        draws.append([series_json(u_used)])
                    if mop == "fit":
                        if optname == "Adam" and any(bool(((g_.abs() < 1e-6) & (g_.abs() > 0)).any()) for gs in seen_grads for g_ in gs):
                            # Adam divides by sqrt(g^2) + 1e-8: a gradient component that is zero up to rounding has no stable update (harness/c15.py)
                            ctx.stats["hedger_session:cut_at_adam_gradient_component_near_zero"] += 1
                            model_ok = False
                        else:
                            sops.append(["fit", di, href(arg), opt_spec, opt_inst, [{"train": dr, "val": None} for dr in draws] if op == "fit" else
                                         [{"train": draws[2 * e_], "val": [draws[2 * e_ + 1]]} for e_ in range(2)]])
                    else:
                        sops.append([mop, di, href(arg), draws])
                else:
                    sops.append([op, di, href(arg)])
                if model_ok:
                    v_ = r_used[1]
                    if r_used[0] == "ok":
                        v_ = v_.detach()
                        v_ = v_.transpose(-1, -2).tolist() if op == "compute_hedge" else [float(x) for x in v_.reshape(-1).tolist()]
                    sexp.append({"step": i, "op": mop, "real_op": op, "hedge": arg, "derivative": di, "res": (r_used[0], v_)} | obs)
            r_new = run(h_new, d_new[di], hedge_arg(arg, u_new, l_new), kk)
            ctx.stats[f"hedge_hist-result:{r_used[0]}"] += 1
            if not same_result(r_used, r_new):
                v1, v2 = r_used[1], r_new[1]
                ctx.fail(("the parameters after fit depend" if mop == "fit" else "the result of a hedging operation depends") + " on which hedging instruments the hedger was "
                         "used / fitted with before (on gradients an earlier backward pass left on its parameters), or on which series the underlier of a listed hedging instrument held before (differs from a fresh hedger "
                         "with the same parameters on newly constructed instruments holding bit-identical buffers, same `hedge=` argument, same seed)",
                         step_case | {"hedge": arg}, key=f"hedge_history:{op}:{kk}",
                         detail={"reused": f"{getattr(v1, 'dtype', '')} {str(v1)[:200]}", "fresh": f"{getattr(v2, 'dtype', '')} {str(v2)[:200]}"})
                if not modelable:
                    break
            if was_eval and mop != "fit" and budget[0] > 0:
                budget[0] -= 1
                # the history left the hedger in evaluation mode: the fresh hedger as constructed (training mode) answers the same - no module of the model
                # is documented to depend on the mode
                h_new_t = Hedger(copy.deepcopy(h_used.model), feats4, criterion=copy.deepcopy(crit4)).train()
                r_new_t = run(h_new_t, d_new[di], hedge_arg(arg, u_new, l_new), kk)
                ctx.stats["hedge_hist:compared_with_train_mode"] += 1
                if not same_result(r_used, r_new_t):
                    ctx.fail("the result of a hedging operation depends on the history having left the hedger in evaluation mode (fit with validation / eval()): it differs "
                             "from a fresh hedger with the same parameters as constructed (training mode) on newly constructed instruments holding bit-identical buffers, "
                             "although no module of the model is documented to depend on the mode", step_case | {"hedge": arg}, key=f"hedge_history:mode:{op}:{kk}",
                             detail={"used(eval)": str(r_used[1])[:200], "fresh(train)": str(r_new_t[1])[:200]})
                    if not modelable:
                        break
            if arg == "default" and mop != "fit":
                # the documented meaning of the default: the derivative's underlier(s)
                r_exp = run(h_used, d_used[di], [u_used], "underlier")
                if not same_result(r_used, r_exp):
                    ctx.fail("a hedging operation with the default `hedge` gives another result than the same hedger with hedge=[the derivative's underlier]",
                             step_case, key=f"default_hedge:{op}", detail={"default": str(r_used[1])[:200], "explicit": str(r_exp[1])[:200]})
                    if not modelable:
                        break
        if not modelable or not sops:
            return None
        layers = [{"w": enc_flt([[float(x) for x in r] for r in w_.tolist()]), "b": enc_flt([float(x) for x in b_.tolist()])}
                  for w_, b_ in zip(theta0[0::2], theta0[1::2])]
        empty = {"spot": [], "variance": [], "volatility": []}
        world = {"underliers": [{"series": empty, "dt": float_bits(float(u_used.dt)), "cost": float_bits(float(u_used.cost))}],
                 "derivs": [{"uls": [0], "payoff": {"kind": SESSION_PAYOFF[sp[0]], "call": True, "strike": float_bits(sp[1]["strike"])}, "adds": []} for sp in dspecs],
                 "listed": [{"ul": 0, "a": float_bits(sp[3] if sp[2] == "affine" else 1.0), "b": float_bits(sp[4] if sp[2] == "affine" else 0.0),
                             "cost": float_bits(sp[5])} for sp in lspecs]}
        crit_spec = {"erm": ["erm", float_bits(crit_a)], "eloss": ["eloss", float_bits(crit_a)], "es": ["es", math.ceil(0.3 * np_crit)]}[crit_name]
        req = {"op": "hedger_session", "features": [SESSION_FEATS[nm] for nm in feats4], "layers": layers, "crit": crit_spec, "world": world, "ops": sops}
        return case, req, sexp

    for it in range(n4):
        hedge_history(g4, False, it)
    g5 = Gen(f"{ctx.seed}:hedger_session")
    n5 = 12 if ctx.tier == "quick" else 120
    sessions = [r_ for r_ in (hedge_history(g5, True, j_) for j_ in range(n5)) if r_ is not None]
    try:
        souts = ctx.driver([r_[1] for r_ in sessions])
    except DriverBroken as e:
        ctx.ties_broken.append({"kind": "driver", "detail": str(e)[:1500]})
        souts = []
    STOL = 1e-9

    def flat(x):
        return [z for y in x for z in flat(y)] if isinstance(x, list) else [x]

    def shape_of(x):
        return [len(x)] + (shape_of(x[0]) if x and isinstance(x[0], list) else []) if isinstance(x, list) else []

    def close(a, b):
        """same nested shape, values within 1e-9 relative on the max-norm (the measure of harness/c15.py check_fit_num)"""
        if shape_of(a) != shape_of(b):
            return False
        fa, fb = flat(a), flat(b)
        scale = max([0.0] + [abs(x) for x in fa + fb if x == x])
        return all((x != x and y != y) or x == y or abs(x - y) <= STOL * scale for x, y in zip(fa, fb))
    for (case, req, sexp), mo in zip(sessions, souts):
        steps_ = mo.get("steps") if isinstance(mo, dict) else None
        if not isinstance(steps_, list) or len(steps_) != len(sexp):
            ctx.disagree("hedger_session", case, f"{len(sexp)} operations", mo if not isinstance(steps_, list) else f"{len(steps_)} answers")
            continue
        for e_, m_ in zip(sexp, steps_):
            ctx.stats["hedger_session_compared"] += 1
            ctx.stats[f"hedger_session:{e_['op']}"] += 1
            where = case | {k_: e_[k_] for k_ in ("step", "op", "real_op", "hedge", "derivative") if k_ in e_}
            out = m_["out"]
            bad = None
            if e_["res"] is None:
                if out is not None:
                    bad = ("answer", None, out)
            else:
                st, v = e_["res"]
                key_ = {"compute_hedge": "hedge", "compute_pl": "vec", "compute_portfolio": "vec", "compute_loss": "scalar", "price": "scalar", "fit": "fit"}[e_["op"]]
                mv = (out or {}).get(key_)
                if mv is None:
                    bad = ("kind of answer", key_, out)
                elif st != "ok":
                    if mv.get("err") != v:
                        bad = ("error", v, mv)
                elif "ok" not in mv:
                    bad = ("answer", "ok", mv)
                else:
                    got = dec_flt(mv["ok"]["final"] if key_ == "fit" else mv["ok"])
                    got = [got] if key_ == "scalar" else got
                    if not close(v, got):
                        bad = ("parameters after fit" if key_ == "fit" else "answer", v, got)
            if bad is None and not close(e_["theta"], dec_flt(m_["theta"])):
                bad = ("parameters after the operation", e_["theta"], dec_flt(m_["theta"]))
            if bad is None and e_["prev"] is not None and not close(e_["prev"], dec_flt(m_["prev"])):
                bad = ("prev_output buffer (last time step) after the operation", e_["prev"], dec_flt(m_["prev"]))
            if bad is not None:
                ctx.stats["hedger_session_disagreements"] += 1
                ctx.disagree("hedger_session", where | {"what": bad[0]}, bad[1], bad[2],
                             note="Model/HedgerSession.lean `step` on the same history (series read off the real instruments after every (re)simulation); "
                                  f"shapes exact, values within {STOL} relative (max-norm)")
                break
    ctx.extra["hedger_session_histories"] = len(sessions)
    # ------------------------------------------------------------------ model side: programs predicted pure
    return ctx.finish(
        rule="mutation sweep: every built-in feature (both modes, log variants, ModuleOutput), payoff, listed price incl. a pricer returning a view, "
             "hedger computations in both branches, BS/WW modules, criteria (forward, cash), functional pl/clamps/payoffs/bisect/bs prices on 4 underlier "
             "types x 4 option types with bitwise snapshots; history: random interleavings of simulate/compute_hedge/compute_pl/compute_loss/price/fit on one "
             "hedger with 2-3 derivatives of changing path counts vs a fresh hedger; functional sweep: every public function of pfhedge.nn.functional "
             "(arguments from the signature) on contiguous / view-of-larger / transposed / row-view caller tensors; instrument reuse: one underlier with 1-2 "
             "derivatives through to(float32/float64), simulate, compute_hedge/pl/loss by long-lived BS/WW/linear hedgers vs newly constructed instruments "
             "with copied buffers; shared feature objects: one object bound to two (derivative, hedger) pairs, and two hedgers on one list of feature objects "
             "used alternately, vs objects of their own; hedge-argument histories: one hedger through compute_hedge / compute_pl / compute_portfolio / "
             "compute_loss / price / fit with hedge in {default, [underlier], [listed derivative on the underlier]} (every history contains fit(hedge=[listed]) "
             "followed by calls with the default), the underlier re-simulated through the hedged derivatives / directly and cast through stock / derivative / "
             "listed instrument, vs a fresh hedger on a newly constructed underlier with bit-identical buffers, new derivatives and newly listed instruments "
             "(same hedge argument, same seed; parameters after fit compared bitwise), default vs hedge=[underlier] on the same hedger, listed prices vs newly "
             "listed ones; hedger session: 12 / 120 such histories (float64, Linear(-ReLU-Linear), affine pricers, erm / eloss / es, SGD / Adam as class or reused "
             "instance, two derivatives on the one underlier) also executed by the Lean op hedger_session (Model/HedgerSession.lean `step`) on the series "
             "read off the real instruments; other hedger state in the histories (I, II, IV, session): loss.backward() through the hedger before fit (Adam / SGD, 2 epochs; fit "
             "of the used hedger vs fit of a fresh one under the same seed, bitwise), eval() / train(), fit(validation=True); models around nn.LeakyClamp / nn.Clamp "
             "(band [lo, lo + |w|/4] around the previous hedge / an output); evaluation-mode computations vs a fresh hedger in evaluation mode and (first 3 per history) "
             "vs a fresh hedger in training mode, bitwise; every answer, the parameters and the prev_output buffer after every operation compared (shapes exact, "
             "values 1e-9 relative); every case non-trivial; distinct = sha1 of canonical case")


def nn_module_output(torch, mk, thr, g):
    from pfhedge.features import ModuleOutput
    ms = gen_linear(g, 2, 2)
    return ModuleOutput(model_obj(torch, ms), [feature_obj(torch, "log_moneyness", mk, thr), feature_obj(torch, "underlier_log_spot", mk, thr)])
