"""C16 — Computations never mutate market data nor depend on call history.

correspondence: (a) the mutation monitor (bitwise snapshot of every buffer of every reachable
instrument and of every caller tensor before/after the call) on every public computation x every
feature (log variants, module outputs) x instrument types — the Lean model (Model/Heap.lean)
predicts "no storage that existed before the call is written" for each of these programs
(theorem public_programs_pure); (b) random operation sequences on one real hedger with several
derivatives vs a fresh hedger holding the same parameters at every step (theorem
history_independence predicts equality).

property side, beyond the model: every public functional of pfhedge.nn.functional (arguments built
from its signature) on caller tensors of four memory layouts under the same monitor; histories in
which the INSTRUMENT objects are reused (dtype changes, re-simulation, other path counts) vs newly
constructed instruments holding bit-identical buffers; feature OBJECTS shared between bindings /
hedgers vs feature objects of their own; histories of the `hedge=` argument (default, explicit underlier,
listed derivatives on the derivative's underlier; fit(hedge=...) followed by calls with the default) while the
underlier of the listed instruments is re-simulated / cast through other owners, vs a newly constructed world.

correspondence (c): the hedger SESSION inside the model (Model/HedgerSession.lean, op "hedger_session"; theorems of Lemmas/C16Session.lean:
history_independence, answer_indep_prev, default_hedge_after_history, listed_price_after_history, queries_removable, other_derivative_frame):
hedge-argument histories restricted to what the model has (float64, Linear(-ReLU-Linear) module, affine pricers, entropic risk / entropic loss /
expected shortfall, SGD / Adam as class or as ONE reused instance) are run on the real objects AND through the model's `step`, operation by
operation, on the series read off the real instruments after every (re)simulation (draws of compute_loss / price / fit re-created under the
operation's seed): every answer (hedge tensor, P&L / portfolio vector, loss, price, parameters after fit), the parameters after every operation and
the last time step of the prev_output buffer (state-dependent feature lists) are compared: shapes exactly, values to 1e-9 relative (max-norm).

input classes of the history parts (I, II, IV and the session): histories that change the hedger's OTHER state - a backward pass through the hedger's loss before fit
(hedger.compute_loss(d).backward(): gradients left on the parameters; fit = Adam, 2 epochs, compared with the fit of a fresh hedger under the same seed: parameters
bitwise, returned losses), eval() / train(), fit(validation=True) (leaves the hedger in evaluation mode); models built around pfhedge's clamp MODULES (nn.LeakyClamp,
nn.Clamp; BandNet).  A computation of a hedger left in evaluation mode is compared with a fresh hedger in the same mode AND with a fresh hedger as constructed
(training mode): no module used here is documented to depend on the mode.  The session model is told a loss-backward as compute_loss, fit with validation with its
validation draws, and is not told eval() / train() (it has no mode).  Fixed beginnings / model kinds by history index: every class occurs for every seed.

the series as the instruments HOLD them (series_held / series_check, around every monitored call and every hedger call of the history parts): the bitwise monitor looks at
the tensor objects that existed before a call; in addition the registry is compared - a computation that does not simulate leaves under every buffer name of every reachable
instrument the same tensor object (so: dtype, shape, values), one that simulates inside (compute_loss / price / fit) leaves series of the dtype they had, none changes the
dtype / device a primary declares.  Input class: hedgers whose PARAMETERS are in another dtype than the series where the code as it is works (0-dim parameter; a model that
casts its input, handing the output back in the input's dtype or not; Naked / BlackScholes / WhalleyWilmott under a criterion with a parameter, OCE's w), single parameters on
double series and the other way round, default and explicit `hedge=`: in the mutation sweep (kind by market index) and as histories (V) of compute_hedge / compute_pl /
compute_portfolio / compute_loss / price / fit / simulate / to(instruments only) on two derivatives vs a fresh hedger on newly constructed instruments of the declared dtype.

history of a feature OBJECT (III c): a bound feature object read at time steps (a run 0 .. k as the hedging loop makes it, or any steps / None), then the series change - the
underlier gets another series of the same shape, the used object is bound to another derivative / hedger, a deep copy of it gets another series, the used object becomes an
input of a Hedger (compute_hedge / compute_pl / get_input on the renewed and on another derivative) - and is read again at step k + 1, other steps, None: bitwise the value of a
newly constructed feature object on the current series; every feature incl. barrier, prev_hedge, FeatureList, ModuleOutput; fixed first scenarios (barrier hit before the change
and not after, and the other way round) for every seed.

shared feature objects that read the HEDGER (III d): ONE list of feature objects with prev_hedge inside (ModuleOutput over prev_hedge, nested ModuleOutput, a PrevHedge
instance, FeatureList members, a state-independent ModuleOutput next to prev_hedge) handed to two hedgers, after the objects were bound by the caller (.of(derivative[, another
hedger]), .of(another derivative)) / read through get_input / used by a third hedger; the two hedgers used in turn on the same and on another derivative (compute_hedge /
compute_pl / compute_portfolio / get_input / compute_loss / price): every answer bitwise that of a fresh hedger with the same parameters holding newly built feature objects on
the same series; fixed corpus (kind x earlier use) for every seed.

the global random stream (rng_check around every monitored call and every non-simulating hedger call of the history parts; part "random stream after a computation"): a
computation that does not simulate - payoff, every feature incl. empty / zeros / ones / ModuleOutput, listed prices, get_input / compute_hedge / compute_portfolio / compute_pl,
criteria, Greeks, functionals - leaves torch.get_rng_state() bitwise unchanged (compute_loss / price / fit / simulate draw by specification: excluded); and inside ONE seeded
run such a computation on an already simulated derivative followed by derivative.simulate / stock.simulate / Hedger.price / compute_loss / fit gives bitwise the series and the
answer of the same seeded run without it (newly built objects, constructed before the seed is set); fixed corpus computation x follow-up for every seed and tier.
"""
import copy
import math
import inspect
from fractions import Fraction as F
from common import *  # noqa
from hedge_common import *  # noqa


def check(ctx):
    torch, pfhedge = import_impl()
    import pfhedge.nn as nn
    import pfhedge.nn.functional as fnl
    import pfhedge.instruments as I
    from pfhedge.nn import Hedger, BlackScholes, WhalleyWilmott
    from pfhedge.features._getter import get_feature
    from pfhedge._utils.bisect import bisect
    g = ctx.gen
    ctx.lean_gate()
    dt = torch.float64
    calls = 0

    # model side: which modelled computations are accepted by the frame analysis, and which results may alias pre-existing storages
    try:
        heap_pred = {r["name"]: r for r in ctx.driver([{"op": "heap"}])[0]["ok"]}
    except (DriverBroken, KeyError) as e:
        ctx.ties_broken.append({"kind": "driver", "detail": str(e)[:1500]})
        heap_pred = {}
    for nm, r in heap_pred.items():
        if not r["safe"]:
            ctx.ties_broken.append({"kind": "correspondence", "op": "heap", "case": nm, "impl": "no mutation observed so far", "model": "program rejected by the frame analysis"})
    alias_seen = set()
    f32 = torch.float32

    # ---- the series as the instruments HOLD them.  The bitwise monitor of call_impl looks at the tensor objects that existed before the call; a computation
    # that puts OTHER tensors into the instruments (a cast of the series to the dtype of the hedger's parameters, `instrument.to(...)`, a re-registration)
    # leaves those objects alone.  So the registry itself is compared: for every instrument reachable from the arguments / watched objects (the walk of
    # common.snapshot_tensors) the tensor object registered under every buffer name, and the public dtype / device attributes of the primaries.
    def series_held(objs):
        reg, attrs, seen = {}, {}, set()

        def visit(o, path):
            if id(o) in seen or isinstance(o, torch.Tensor):
                return
            seen.add(id(o))
            if isinstance(o, (list, tuple)):
                for i, x in enumerate(o):
                    visit(x, f"{path}[{i}]")
                return
            dd = getattr(o, "__dict__", {})
            if isinstance(o, I.BaseInstrument):
                for k, x in list((dd.get("_buffers") or {}).items()):
                    if isinstance(x, torch.Tensor):
                        reg[f"{path}.{k}"] = x
                if "dtype" in dd or "device" in dd:          # (primaries keep them as plain attributes; derivatives read their underlier's)
                    attrs[path] = (dd.get("dtype"), dd.get("device"))
            unds = dd.get("_underliers")
            if isinstance(unds, dict):
                for k, x in unds.items():
                    visit(x, f"{path}.{k}")
            d_ = dd.get("derivative")
            if d_ is not None:
                visit(d_, f"{path}.derivative")
        objs = list(objs)
        for name_, o in objs:
            visit(o, name_)
        return objs, reg, attrs

    def series_check(name, held, case, simulates=False):
        """after the call: a computation that does not simulate leaves every registered series the SAME tensor object (hence dtype, shape, values: the
        bitwise monitor has looked at the object); one that simulates inside (compute_loss / price / fit) renews the series, in the dtype they had.
        No computation changes the dtype / device an instrument declares."""
        objs, reg0, attrs0 = held
        _, reg1, attrs1 = series_held(objs)
        cast, replaced = [], []
        for path, (dt0, dev0) in attrs0.items():
            if path in attrs1 and attrs1[path] != (dt0, dev0):
                cast.append(f"{path}: the instrument's dtype / device attributes were {dt0} / {dev0}, are {attrs1[path][0]} / {attrs1[path][1]}")
        for path, old in reg0.items():
            new = reg1.get(path)
            if new is None:
                if not simulates:
                    replaced.append(f"{path}: no longer registered")
            elif new.dtype != old.dtype:
                cast.append(f"{path}: was {old.dtype}, is {new.dtype}")
            elif new is not old and not simulates:
                same = new.shape == old.shape and bool(((new == old) | (new.isnan() & old.isnan())).all())
                replaced.append(f"{path}: another tensor object ({'equal values' if same else 'OTHER values / shape'})")
        ctx.stats["series_registry_checked"] += 1
        if cast:
            ctx.fail(f"{name} cast the simulated series of an instrument to another dtype (the instrument holds other tensors than before the call / declares another "
                     "dtype): computing modified market data", (case or {}) | {"call": name}, key=f"series_cast:{name}", detail=cast + replaced)
        elif replaced:
            ctx.fail(f"{name} (which does not simulate) replaced the simulated series an instrument holds by other tensors", (case or {}) | {"call": name},
                     key=f"series_replaced:{name}", detail=replaced)
        return cast + replaced

    # ---- the GLOBAL random stream.  simulate() of every instrument draws from torch's default generator; the series a seeded run simulates at some point are
    # determined by the seed and by how much of the stream was consumed before.  A computation that does not simulate (payoff, features, listed prices, hedge,
    # P&L, portfolio, criteria, Greeks, functionals) leaves torch.get_rng_state() bitwise as it was - else what is simulated (priced, fitted) afterwards
    # depends on which computations ran before.  compute_loss / price / fit / simulate draw by their specification: excluded (simulates=True).
    rng_seen = set()          # (one failing input per call name: the sweep repeats every call on every market)

    def rng_check(name, before, case):
        ctx.stats["rng_state_checked"] += 1
        if not torch.equal(before, torch.get_rng_state()) and name not in rng_seen:
            rng_seen.add(name)
            ctx.fail(f"{name} (which does not simulate) advanced torch's global random stream: what a seeded run simulates / prices / fits afterwards depends on "
                     "this computation having run before", (case or {}) | {"call": name}, key=f"rng_consumed:{name}",
                     detail="torch.get_rng_state() after the call differs from the state before it")

    def call_held(name, case, fn, *args, watch=(), simulates=False, **kw):
        """call_impl + the registry comparison + the global random stream (for the history parts, which call call_impl themselves)"""
        held = series_held([(f"arg{i}", a) for i, a in enumerate(args)] + list(kw.items()) + list(watch))
        rng0 = torch.get_rng_state()
        out = call_impl(fn, *args, watch=list(watch), **kw)
        if not simulates:
            rng_check(name, rng0, case)
        series_check(name, held, case, simulates)
        return out

    def monitored(name, fn, *args, watch=(), case=None, prog=None, simulates=False, **kw):
        """call the implementation under the bitwise mutation monitor; with `prog` = name of the Lean heap program modelling the
        call, also compare the OBSERVED aliasing of the result (does it share storage with a buffer / caller tensor that existed
        before the call?) with the model: aliasing where the model proves the result fresh is a broken correspondence"""
        nonlocal calls
        calls += 1
        pre = set()
        if prog is not None:
            for _, ref, _, _, _ in snapshot_tensors([(f"arg{i}", a) for i, a in enumerate(args)] + list(kw.items()) + list(watch)):
                if ref.numel() > 0:
                    pre.add(ref.untyped_storage().data_ptr())
        held = series_held([(f"arg{i}", a) for i, a in enumerate(args)] + list(kw.items()) + list(watch))
        rng0 = torch.get_rng_state()
        st, v, mut = call_impl(fn, *args, watch=list(watch), **kw)
        if not simulates:
            rng_check(name, rng0, case)
        series_check(name, held, case)          # (no monitored call simulates an instrument it is given)
        ctx.stats[f"call={name}"] += 1
        if mut:
            ctx.fail(f"{name} modified market data or a caller tensor in place", (case or {}) | {"call": name, "mutated": mut},
                     key=f"mutation:{name}", detail=mut)
        if prog is not None and st == "ok" and isinstance(v, torch.Tensor) and v.numel() > 0 and prog in heap_pred:
            al = v.untyped_storage().data_ptr() in pre
            ctx.stats[f"alias[{prog}]={'view' if al else 'fresh'}"] += 1
            if al and heap_pred[prog]["result_fresh"] and (name, prog) not in alias_seen:
                alias_seen.add((name, prog))
                ctx.disagree("heap", (case or {}) | {"call": name, "program": prog}, "result shares storage with market data / a caller tensor",
                             "result is a storage allocated by the call (theorem resultFresh_sound)")
        return st, v

    def feat_prog(name, step):
        if step is not None:
            return "spot_at"
        if name in ("underlier_spot", "spot", "variance", "volatility"):
            return "feature_view"
        if name in ("underlier_log_spot", "log_spot"):
            return "log_spot"
        if name.startswith("barrier"):
            return "barrier"
        return "moneyness"

    class InplaceFirst(torch.nn.Module):
        """a user model that overwrites its input in place before using it (legal: the input is the hedger's own concatenation)"""
        def forward(self, x):
            x.mul_(0.5)
            return x[..., :1].clone()

    class BandNet(torch.nn.Module):
        """a user model of the no-transaction-band kind built around one of pfhedge's clamp MODULES (nn.LeakyClamp / nn.Clamp): the previous hedge (the
        last input, when the hedger is state-dependent; else the body's first output) is clamped into a narrow band [lo, lo + |w| / 4] computed by the body, so
        that most inputs lie outside it.  The documentation of both modules defines the output by the input and the bounds alone: it is the same in
        training and in evaluation mode, like that of Linear / Tanh / ReLU (and unlike Dropout / BatchNorm, which no model here contains)"""
        def __init__(self, nin, leaky, use_prev, dtype):
            super().__init__()
            self.body = torch.nn.Sequential(torch.nn.Linear(nin, 3, dtype=dtype), torch.nn.Tanh(), torch.nn.Linear(3, 3, dtype=dtype))
            self.clamp = nn.LeakyClamp() if leaky else nn.Clamp()
            self.use_prev = use_prev

        def forward(self, x):
            o = self.body(x)
            lo = o[..., [1]]
            return self.clamp(x[..., [-1]] if self.use_prev else o[..., [0]], min=lo, max=lo + 0.25 * o[..., [2]].abs())

    # ---- hedgers whose PARAMETERS have another dtype than the instruments' series, where the code as it is works: a 0-dim parameter (type promotion leaves
    # the result in the dtype of the series), a model that casts its input to the dtype of its weights (handing its output back in the dtype of the input, or
    # not), and the parameter-free models (Naked, BlackScholes, WhalleyWilmott) under a criterion that has a parameter (OCE's w)
    class ScaledFirst(torch.nn.Module):
        def __init__(self, value, dtype):
            super().__init__()
            self.scale = torch.nn.Parameter(torch.tensor(value, dtype=dtype))

        def forward(self, x):
            return x[..., :1] * self.scale

    class CastIn(torch.nn.Module):
        def __init__(self, inner, back):
            super().__init__()
            self.inner, self.back = inner, back

        def forward(self, x):
            o = self.inner(x.to(next(self.inner.parameters()).dtype))
            return o.to(x.dtype) if self.back else o

    from pfhedge.nn.modules.loss import OCE
    MIXED_KINDS = ["scaled", "criterion:Naked", "cast+prev_hedge", "criterion:BlackScholes", "scaled+prev_hedge", "cast", "criterion:WhalleyWilmott",
                   "cast-noback+prev_hedge", "cast-noback"]

    def mixed_hedger(kind, d_, pdt, gg, bs_ok=True, weights=None):
        """-> (hedger, feature names, weights): a hedger of the given kind for the derivative with its parameters in dtype `pdt`.  `weights` (returned by an
        earlier call) rebuilds a hedger with the same parameter VALUES"""
        if kind.startswith("criterion:"):
            crit_ = OCE(lambda x: 1.0 - torch.exp(-x)).to(pdt)
            mname = kind.split(":")[1]
            if mname == "Naked" or not bs_ok:
                return Hedger(nn.Naked(), ["moneyness"], criterion=crit_), ["moneyness"], None
            m_ = getattr(nn, mname)(d_)
            return Hedger(m_, m_.inputs(), criterion=crit_), [str(f_) for f_ in m_.inputs()], None
        names_ = ["log_moneyness", "time_to_maturity", "volatility"] + (["prev_hedge"] if kind.endswith("+prev_hedge") else [])
        if kind.startswith("scaled"):
            weights = weights if weights is not None else gg.choice([0.25, 0.5, -0.75, 0.3])
            return Hedger(ScaledFirst(weights, pdt), names_), names_, weights
        weights = weights if weights is not None else gen_linear(gg, len(names_), 1, relu=False)
        return Hedger(CastIn(model_obj(torch, weights, dtype=pdt), "noback" not in kind), names_), names_, weights

    MODEL_KINDS = ["mlp", "band:LeakyClamp", "band:Clamp"]

    MODE_BUDGET = 3          # per history: that many computations in evaluation mode are also compared with a fresh hedger in training mode

    def fresh_hedgers(used, build, budget):
        """the fresh hedgers a used one is compared with: `build()` constructs a new hedger holding copies of the used one's parameters and criterion.
        ("same-mode", in the used one's training / evaluation mode) and - if the history left the used hedger in evaluation mode (fit with validation,
        eval()) - also ("train-mode", as constructed): every module of every model here is documented as independent of the mode.  `budget` = [n]: the
        train-mode comparison is made for the first n evaluation-mode computations of a history (cost)"""
        out = [("same-mode", build().train(used.training))]
        if not used.training and budget[0] > 0:
            budget[0] -= 1
            out.append(("train-mode", build().train()))
        return out

    # ---- every public functional of pfhedge.nn.functional on caller-owned tensors of several memory layouts: the arguments are built
    # from the signature (parameter name -> role), so a functional added later is swept too (or reported as unmapped)
    FN_PUBLIC = sorted(nm for nm, f_ in vars(fnl).items() if inspect.isfunction(f_) and f_.__module__ == fnl.__name__ and not nm.startswith("_"))
    LAYOUTS = ["contiguous", "view_of_larger", "transposed", "row_view"]
    unmapped = set()

    def lay(t, kind):
        """the values of `t` as a caller tensor of the given memory layout -> (tensor, the tensors whose storage it lives in)"""
        if kind == "view_of_larger":
            big = torch.stack([t, t + 1.0], dim=-1)
            return big[..., 0], [big]
        if kind == "transposed":
            b = t.transpose(0, -1).contiguous()
            return b.transpose(0, -1), [b]
        if kind == "row_view" and t.dim() >= 2:
            b = t.clone()
            return b[0], [b]
        return t.clone(), []

    def functional_sweep(mk, case):
        x = torch.tensor([[float(v) for v in r] for r in mk["spot"]], dtype=dt)       # (N, T), positive, mean far from zero
        ones = torch.ones_like(x)
        role = {"log_moneyness": x.log(), "max_log_moneyness": x.log().cummax(-1).values, "time_to_maturity": ones * 0.5, "volatility": ones * 0.25,
                "sigma": ones * 0.25, "strike": ones * 1.5, "min": ones * 0.75, "max": ones * 2, "weight1": ones * 0.25, "weight2": ones * 0.75,
                "a": ones * 0.5, "b": ones * 0.25, "rho": ones * -0.5, "m": ones * 0.125, "dt": ones[:, 0] / 64, "cost": ones / 256,
                "input1": x / 8, "input2": x / 16, "input3": x / 4, "input4": x / 2, "unit": ones * 0.5, "payoff": x[:, 0].clone()}
        for fname in FN_PUBLIC:
            fn_ = getattr(fnl, fname)
            hedging = fname in ("pl", "terminal_value")          # (N, H, T) prices and units, (N) payoff
            kind = g.choice(LAYOUTS[:3] if hedging else LAYOUTS)
            kw, bases, canon, ok = {}, [], {}, True
            for pname, par in inspect.signature(fn_).parameters.items():
                ann = str(par.annotation)
                if "List[float]" in ann:
                    val = [float(g.choice([0, 1, 4])) / 256]
                elif "Tensor" in ann and not ("float" in ann and g.chance(0.5)):
                    t_ = role.get(pname, x)
                    if hedging and pname != "payoff":
                        t_ = t_.unsqueeze(1)
                    val, bs_ = lay(t_, kind)
                    bases += bs_
                elif pname == "dim":
                    nd = 1 if kind == "row_view" else 2
                    val = g.choice([None, None, 0, -1] + ([1] if nd == 2 else []))
                elif pname in ("call", "largest", "deduct_first_cost"):      # deduct_final_cost=True is documented as unsupported
                    val = g.chance(0.5)
                elif pname in SCALAR_ROLE:
                    val = g.choice(SCALAR_ROLE[pname])
                elif par.default is not inspect.Parameter.empty:
                    continue
                else:
                    ok = False
                    break
                kw[pname] = val
                canon[pname] = val if not isinstance(val, torch.Tensor) else "tensor"
            if not ok:
                unmapped.add(fname)
                continue
            st, _ = monitored(f"functional.{fname}[{kind}]", fn_, watch=[("storage", bases)], case=case | {"functional": fname, "layout": kind, "args": canon}, **kw)
            ctx.stats[f"functional_sweep:{st}"] += 1

    SCALAR_ROLE = {"strike": [0.5, 1.0, 1.5], "a": [0.5, 1.0], "p": [0.25, 0.5, 1.0], "lam": [1.0, 2.0, 10.0], "clamped_slope": [0.01], "inverted_output": ["mean", "max"],
                   "dt": [1 / 64], "cost": [1 / 256], "start_index": [0], "end_index": [-1], "epsilon": [1e-10], "b": [0.25], "rho": [-0.5], "m": [0.125],
                   "sigma": [0.25], "weight1": [0.25], "weight2": [0.75], "log_moneyness": [0.125], "time_to_maturity": [0.5], "volatility": [0.25], "input": [0.25]}

    n = 120 if ctx.tier == "quick" else 2000
    for it in range(n):
        mk = gen_market(g)
        d, u = build_derivative(torch, mk)
        view_pricer = g.chance(0.5)
        if view_pricer:          # a pricer returning a VIEW of the underlier's buffer
            d.list(lambda dd: dd.ul().spot[:, :], cost=0.0)
        T, N = mk["T"], mk["N"]
        thr = g.choice([x for p in mk["spot"] for x in p])
        case = {"option": mk["option"], "primary": mk["primary"], "T": T, "N": N, "view_pricer": view_pricer, "spot": enc_rat(mk["spot"])}
        watch = [("derivative", d)]
        ctx.case(case, True, tag="mutation_sweep")
        ctx.traces += 1
        with torch.no_grad():
            for name in BASE_FEATURES:
                f = get_feature(feature_obj(torch, name, mk, thr)).of(d, None)
                monitored(f"feature.{name}.get(None)", f.get, None, watch=watch, case=case, prog=feat_prog(name, None))
                monitored(f"feature.{name}.get(i)", f.get, g.randint(0, T - 1), watch=watch, case=case, prog=feat_prog(name, 0))
                # the hedger with this single input and a model that returns / overwrites its input: compute_hedge then writes
                # the last time step in place into whatever the model returned
                for mname, mod, prog in (("Identity", torch.nn.Identity(), "hedge_batched_identity"), ("InplaceFirst", InplaceFirst(), "hedge_batched_inplace_model")):
                    h1 = Hedger(mod, [feature_obj(torch, name, mk, thr)])
                    monitored(f"Hedger({mname},[{name}]).get_input", h1.get_input, d, None, watch=watch, case=case, prog="get_input")
                    monitored(f"Hedger({mname},[{name}]).compute_hedge", h1.compute_hedge, d, watch=watch, case=case, prog=prog)
            mo = nn_module_output(torch, mk, thr, g)
            f = mo.of(d, None)
            monitored("feature.module_output.get(None)", f.get, None, watch=watch, case=case, prog="moneyness")
            monitored("derivative.payoff", d.payoff, watch=watch, case=case, prog="payoff")
            monitored("derivative.spot(listed)", lambda: d.spot, watch=watch, case=case)
            monitored("derivative.moneyness", d.moneyness, None, watch=watch, case=case)
            monitored("derivative.max_log_moneyness", d.max_log_moneyness, None, watch=watch, case=case)
            names = [g.choice(BASE_FEATURES[:-1]) for _ in range(2)] + ["log_spot", "underlier_log_spot"]
            feats = [feature_obj(torch, nm, mk, thr) for nm in names]
            ms = gen_linear(g, len(names), 1)
            hedger = Hedger(model_obj(torch, ms), feats)
            hedger2 = Hedger(model_obj(torch, gen_linear(g, len(names) + 1, 1)), feats + ["prev_hedge"])
            for hname, hh in (("batched", hedger), ("stepwise", hedger2)):
                monitored(f"Hedger.compute_hedge[{hname}]", hh.compute_hedge, d, watch=watch, case=case, prog="hedge_batched" if hname == "batched" else "hedge_step")
                monitored(f"Hedger.compute_pl[{hname}]", hh.compute_pl, d, watch=watch, case=case, prog="pl")
                monitored(f"Hedger.compute_portfolio[{hname}]", hh.compute_portfolio, d, watch=watch, case=case)
                monitored(f"Hedger.get_input[{hname}]", hh.get_input, d, 0, watch=watch, case=case)
            if mk["option"] in ("EuropeanOption",) or True:
                volpos = all(v > 0 for r in mk["vol"] for v in r)
                if volpos and not (mk["option"] in ("LookbackOption", "AmericanBinaryOption") and not mk["call"]):
                    bs = BlackScholes(d)
                    monitored("BlackScholes.price", bs.price, watch=watch, case=case)
                    monitored("BlackScholes.delta", bs.delta, watch=watch, case=case)
                    hb = Hedger(bs, bs.inputs())
                    monitored("Hedger(BlackScholes).compute_pl", hb.compute_pl, d, watch=watch, case=case)
                    ww = WhalleyWilmott(d)
                    hw = Hedger(ww, ww.inputs())
                    monitored("Hedger(WhalleyWilmott).compute_hedge", hw.compute_hedge, d, watch=watch, case=case)
            # parameters of the hedger (model or criterion) in ANOTHER dtype than the series, both ways round (double series / single parameters and
            # single series / double parameters); the kind rotates with the index of the market, so every kind occurs for every seed.  Also with an
            # explicit `hedge=` instrument.  Monitor + registry: the series stay the tensors (dtype, values, objects) they were.
            mixed_kind = MIXED_KINDS[it % len(MIXED_KINDS)]
            bs_ok = volpos and not (mk["option"] in ("LookbackOption", "AmericanBinaryOption") and not mk["call"])
            for idt, pdt in ((dt, f32), (f32, dt)):
                dm = d if idt == dt else build_derivative(torch, mk, dtype=idt)[0]
                hm, names_m, _ = mixed_hedger(mixed_kind, dm, pdt, g, bs_ok)
                other = extra_hedges(torch, g, mk, 1, dtype=idt)
                wm = [("derivative", dm), ("hedge", other)]
                mcase = case | {"hedger": mixed_kind, "inputs": names_m, "series_dtype": str(idt), "parameter_dtype": str(pdt)}
                ctx.case(mcase, True, tag="mixed_dtype_sweep")
                ctx.stats[f"mixed_dtype_sweep:{mixed_kind}"] += 1
                tagm = "[parameters in another dtype than the series]"
                stepwise = "prev_hedge" in names_m
                monitored(f"Hedger.get_input{tagm}", hm.get_input, dm, None if not stepwise else 0, watch=wm, case=mcase, prog=None if stepwise else "get_input")
                monitored(f"Hedger.compute_hedge{tagm}", hm.compute_hedge, dm, watch=wm, case=mcase,
                          prog=None if mixed_kind.startswith("criterion") else "hedge_step" if stepwise else "hedge_batched")
                monitored(f"Hedger.compute_pl{tagm}", hm.compute_pl, dm, watch=wm, case=mcase, prog="pl")
                monitored(f"Hedger.compute_portfolio{tagm}", hm.compute_portfolio, dm, watch=wm, case=mcase)
                monitored(f"Hedger.compute_pl[hedge=other instrument]{tagm}", hm.compute_pl, dm, hedge=other, watch=wm, case=mcase, prog="pl")
                monitored(f"Hedger.compute_hedge[hedge=other instrument]{tagm}", hm.compute_hedge, dm, hedge=other, watch=wm, case=mcase)
            # criteria and functional forms on caller tensors
            x = torch.tensor([[float(v) for v in r] for r in mk["spot"]], dtype=dt).t().contiguous()
            tg = torch.ones_like(x) * 0.5
            for cname, crit in (("EntropicRiskMeasure", nn.EntropicRiskMeasure()), ("ExpectedShortfall", nn.ExpectedShortfall(0.5)),
                                ("QuadraticCVaR", nn.QuadraticCVaR(2.0)), ("EntropicLoss", nn.EntropicLoss()), ("IsoelasticLoss", nn.IsoelasticLoss(0.5))):
                monitored(f"{cname}.forward", crit, x, tg, case=case, prog="loss")
                monitored(f"{cname}.cash", crit.cash, x, tg, case=case)
            sp = torch.tensor([[[float(v) for v in r]] for r in mk["spot"]], dtype=dt)
            un = torch.ones_like(sp) * 0.5
            pay = torch.ones(N, dtype=dt)
            monitored("functional.pl", fnl.pl, sp, un, cost=[0.01], payoff=pay, case=case, prog="pl")
            lo_b, hi_b = torch.zeros(N, T, dtype=dt), torch.ones(N, T, dtype=dt) * 2
            xs = torch.tensor([[float(v) for v in r] for r in mk["spot"]], dtype=dt)
            monitored("functional.leaky_clamp", fnl.leaky_clamp, xs, lo_b, hi_b, case=case, prog="clamp")
            monitored("functional.clamp", fnl.clamp, xs, lo_b, hi_b, case=case, prog="clamp")
            monitored("functional.clamp[max]", fnl.clamp, xs, lo_b, hi_b, inverted_output="max", case=case)
            monitored("functional.european_payoff", fnl.european_payoff, xs, case=case)
            monitored("functional.lookback_payoff", fnl.lookback_payoff, xs, case=case)
            monitored("functional.realized_volatility", fnl.realized_volatility, xs, 0.01, case=case)
            monitored("functional.expected_shortfall", fnl.expected_shortfall, x, 0.5, dim=0, case=case)
            monitored("functional.value_at_risk", fnl.value_at_risk, x, 0.5, dim=0, case=case)
            monitored("functional.topp", fnl.topp, x[:, 0], 0.5, case=case)
            tgt_b = torch.tensor([0.3] * N, dtype=dt)
            monitored("bisect", bisect, lambda z: z * 2.0, tgt_b, torch.zeros(N, dtype=dt), torch.ones(N, dtype=dt), case=case)
            sS, tT, vV = xs.log(), torch.ones_like(xs), torch.ones_like(xs) * 0.2
            monitored("functional.bs_european_price", fnl.bs_european_price, sS, tT, vV, case=case)
            monitored("functional.bs_lookback_price", fnl.bs_lookback_price, sS, sS.cummax(-1).values, tT, vV, 1.0, case=case)
            monitored("functional.bs_american_binary_price", fnl.bs_american_binary_price, sS, sS.cummax(-1).values, tT, vV, case=case)
        functional_sweep(mk, case)
        # automatic Greeks of a user pricer under every parameterisation, on caller tensors (negative variances included: they are
        # clamped, which must not happen in the caller's tensor); Greeks of the BS modules on caller tensors
        import pfhedge.autogreek as ag
        with torch.enable_grad():
            xs_pos = torch.tensor([[float(v) for v in r] for r in mk["spot"]], dtype=dt)
            var_t = (torch.ones_like(xs_pos) * 0.04)
            var_t[0, 0] = -0.01
            ttm_t = torch.ones_like(xs_pos) * 0.5
            pr_spot = lambda spot, volatility, time_to_maturity: spot * spot * volatility + time_to_maturity * spot
            pr_mon = lambda moneyness, variance, time_to_maturity: moneyness * (1.0 + variance) + time_to_maturity
            pr_lm = lambda log_moneyness, volatility, time_to_maturity: log_moneyness.exp() * volatility + time_to_maturity
            for gname in ("delta", "gamma", "vega", "theta"):
                gf = getattr(ag, gname)
                monitored(f"autogreek.{gname}[spot,variance]", gf, pr_spot, spot=xs_pos, variance=var_t, time_to_maturity=ttm_t, case=case)
                monitored(f"autogreek.{gname}[moneyness,variance]", gf, pr_mon, moneyness=xs_pos, strike=2.0, variance=var_t, time_to_maturity=ttm_t, case=case)
                monitored(f"autogreek.{gname}[log_moneyness,volatility]", gf, pr_lm, log_moneyness=xs_pos.log(), strike=2.0,
                          volatility=var_t.abs().sqrt(), time_to_maturity=ttm_t, case=case)
            from pfhedge.nn import BSEuropeanOption, BSLookbackOption, BSAmericanBinaryOption, BSEuropeanBinaryOption
            lmx = xs_pos.log()
            for mname, mod_, pd_ in (("BSEuropeanOption", BSEuropeanOption(strike=1.5), False), ("BSEuropeanBinaryOption", BSEuropeanBinaryOption(strike=1.5), False),
                                     ("BSLookbackOption", BSLookbackOption(strike=1.5), True), ("BSAmericanBinaryOption", BSAmericanBinaryOption(strike=1.5), True)):
                args_ = (lmx, lmx.cummax(-1).values, ttm_t, var_t.abs().sqrt()) if pd_ else (lmx, ttm_t, var_t.abs().sqrt())
                for gname in ("price", "delta", "gamma", "vega", "theta"):
                    monitored(f"{mname}.{gname}", getattr(mod_, gname), *args_, case=case)
        # simulation with caller-provided initial states / re-simulation leaves caller tensors alone
        init = (torch.tensor(1.5, dtype=dt),)
        monitored("BrownianStock.simulate(init_state tensor)", u.simulate if mk["primary"] == "BrownianStock" else I.BrownianStock(dtype=dt).simulate,
                  n_paths=3, init_state=init, case=case, simulates=True)
    ctx.extra["monitored_calls"] = calls
    ctx.extra["functionals_swept"] = len(FN_PUBLIC) - len(unmapped)
    ctx.extra["functionals_unmapped"] = sorted(unmapped)
    # ------------------------------------------------------------------ history independence
    # one hedger, several derivatives; besides the computations the history contains what changes the hedger's OTHER state: a backward pass through
    # its loss (gradient inspection, a hand-written training step: leaves .grad on the parameters), eval() / train(), fit with validation (leaves the
    # hedger in evaluation mode).  Every computation is compared with fresh hedgers holding the same parameters (in the same mode; after a history that
    # ends in evaluation mode also in the mode a hedger is constructed in), every fit (Adam, 2 epochs) with the fit of a fresh hedger under the same seed.
    # The first histories have fixed beginnings (model kind x beginning), so that each of these classes occurs for every seed
    HIST_BEGIN = [["loss_backward", "fit", "compute_pl"], ["eval", "compute_hedge", "compute_pl", "price"], ["fit_val", "compute_hedge", "compute_loss"], []]
    nh = 25 if ctx.tier == "quick" else 400
    for it in range(nh):
        torch.manual_seed(g.randint(0, 10 ** 6))
        stateful = g.chance(0.6)
        kind = g.choice(MODEL_KINDS)
        if it < 12:
            kind = MODEL_KINDS[(it // 4) % 3]
        feats = ["moneyness", "time_to_maturity", "volatility"] + (["prev_hedge"] if stateful else [])
        if kind == "mlp":
            base = torch.nn.Sequential(torch.nn.Linear(len(feats), 4, dtype=dt), torch.nn.ReLU(), torch.nn.Linear(4, 1, dtype=dt))
        else:
            base = BandNet(len(feats), kind == "band:LeakyClamp", stateful, dt)
        crit = g.choice([nn.EntropicRiskMeasure(), nn.ExpectedShortfall(0.3)])
        hedger = Hedger(base, feats, criterion=crit)
        derivs = []
        for _ in range(g.choice([2, 3])):
            stock = g.choice([lambda: I.BrownianStock(cost=1e-3, dtype=dt), lambda: I.HestonStock(dtype=dt), lambda: I.MertonJumpStock(dtype=dt)])()
            derivs.append(g.choice([I.EuropeanOption, I.LookbackOption, I.EuropeanBinaryOption])(stock, maturity=g.choice([3 / 250, 6 / 250])))
        ops = []
        for d_ in derivs:
            d_.simulate(n_paths=g.choice([1, 3, 8]))
        L = g.randint(3, 10 if ctx.tier == "quick" else 25)
        begin = HIST_BEGIN[it % 4] if it < 12 else []
        names_ = begin + [g.choice(["simulate", "compute_hedge", "compute_pl", "compute_loss", "price", "fit", "compute_hedge", "compute_pl",
                                                                    "loss_backward", "fit_val", "eval", "train"]) for _ in range(max(L - len(begin), 1))]
        for nm_ in names_:
            ops.append((nm_, g.randint(0, len(derivs) - 1), g.choice([1, 2, 5, 8]), g.randint(0, 10 ** 6)))
        case = {"stateful": stateful, "model": kind, "ops": [(o[0], o[1], o[2]) for o in ops], "n_derivatives": len(derivs)}
        ctx.case(case, nontrivial=True, tag="history")
        ctx.traces += 1
        ctx.stats[f"hist:model={kind}"] += 1
        mk_fresh = lambda: Hedger(copy.deepcopy(hedger.model), feats, criterion=copy.deepcopy(crit))
        budget = [MODE_BUDGET]
        eq = lambda v1, v2: v1.shape == v2.shape and bool(((v1 == v2) | (v1.isnan() & v2.isnan())).all())
        for i, (op, di, npaths, seed) in enumerate(ops):
            d_ = derivs[di]
            ctx.stats[f"hist:{op}"] += 1
            if op == "simulate":
                torch.manual_seed(seed)
                d_.simulate(n_paths=npaths)
                continue
            if op in ("eval", "train"):
                hedger.train(op == "train")
                continue
            if op == "loss_backward":
                torch.manual_seed(seed)
                hedger.compute_loss(d_, n_paths=npaths).backward()          # leaves .grad on the parameters; changes no parameter
                continue
            if op in ("fit", "fit_val"):
                fresh = mk_fresh().train(hedger.training)
                stale = any(p_.grad is not None and bool((p_.grad != 0).any()) for p_ in hedger.model.parameters())
                outs = []
                for hh in (hedger, fresh):
                    torch.manual_seed(seed)
                    st, v, _ = call_held("Hedger.fit", case | {"step": i}, hh.fit, d_, n_epochs=2, n_paths=npaths, verbose=False, validation=op == "fit_val", simulates=True)
                    outs.append((st, v, [p_.detach().clone() for p_ in hh.model.parameters()]))
                (s1, v1, p1), (s2, v2, p2) = outs
                ctx.stats[f"hist:fit:stale_grad={stale}"] += 1
                if s1 != s2 or (s1 == "ok" and (any(not eq(a_, b_) for a_, b_ in zip(p1, p2)) or str(v1) != str(v2))):
                    ctx.fail("the result of fit (parameters, returned validation losses) depends on what the hedger was used for before - a backward pass through its "
                             "loss that left gradients on the parameters, its mode, earlier fits - : it differs from the fit of a fresh hedger with the same "
                             "parameters and criterion under the same seed", case | {"step": i, "op": op, "gradients_present_before_fit": stale},
                             key="history:fit" + (":stale-grad" if stale else ""),
                             detail={"used": str(v1)[:100], "fresh": str(v2)[:100],
                                     "max_abs_parameter_diff": max(float((a_ - b_).abs().max()) for a_, b_ in zip(p1, p2)) if s1 == s2 == "ok" else None})
                    break
                continue
            failed = False
            for label, fresh in [("used", hedger)] + fresh_hedgers(hedger, mk_fresh, budget):
                torch.manual_seed(seed)
                with torch.no_grad():
                    if op == "compute_hedge":
                        st, v, mut = call_held("Hedger.compute_hedge", case | {"step": i}, fresh.compute_hedge, d_, watch=[("derivative", d_)])
                    elif op == "compute_pl":
                        st, v, mut = call_held("Hedger.compute_pl", case | {"step": i}, fresh.compute_pl, d_, watch=[("derivative", d_)])
                    elif op == "compute_loss":
                        st, v, mut = call_held("Hedger.compute_loss", case | {"step": i}, fresh.compute_loss, d_, n_paths=npaths, simulates=True)
                    else:
                        st, v, mut = call_held("Hedger.price", case | {"step": i}, fresh.price, d_, n_paths=npaths, simulates=True)
                if mut and op in ("compute_hedge", "compute_pl"):
                    ctx.fail(f"Hedger.{op} modified market data in place", case | {"step": i}, key=f"mutation:Hedger.{op}", detail=mut)
                if label == "used":
                    s1, v1 = st, v
                    continue
                s2, v2 = st, v
                same = s1 == s2 and (s1 != "ok" or eq(v1, v2))
                ctx.stats[f"hist:compared:{label}"] += 1
                if not same:
                    if label == "same-mode":
                        ctx.fail("the result of a hedging operation depends on what the hedger was used with before (differs from a fresh hedger with the same parameters)",
                                 case | {"step": i, "op": op}, key=f"history:{op}",
                                 detail={"used": str(v1)[:200], "fresh": str(v2)[:200]})
                    else:
                        ctx.fail("the result of a hedging operation depends on the history having left the hedger in evaluation mode (fit with validation / eval()): it "
                                 "differs from a fresh hedger with the same parameters as constructed (training mode), although no module of the model is documented "
                                 "to depend on the mode", case | {"step": i, "op": op}, key=f"history:mode:{op}",
                                 detail={"used(eval)": str(v1)[:200], "fresh(train)": str(v2)[:200]})
                    failed = True
                    break
            if failed:
                break
    def same_result(a, b):
        (s1, v1), (s2, v2) = a, b
        if s1 != s2:
            return False
        if s1 != "ok" or not isinstance(v1, torch.Tensor):
            return v1 == v2 if s1 != "ok" else True
        return v1.dtype == v2.dtype and v1.shape == v2.shape and bool(((v1 == v2) | (v1.isnan() & v2.isnan())).all())

    # ------------------------------------------------------------------ the random stream after a computation
    # inside ONE seeded run: a computation on an already simulated derivative (every feature both ways of reading incl. empty / zeros / ones / ModuleOutput, payoff, listed
    # price, get_input / compute_hedge / compute_portfolio / compute_pl of hedgers with `empty` / `zeros` / a ModuleOutput among the inputs, of BS / WW hedgers, criteria,
    # BS module price / delta, an automatic Greek) followed by something that simulates (derivative.simulate, stock.simulate, Hedger.price / compute_loss / fit) - vs the
    # same seeded run without the computation, on newly built objects of the same construction: the series simulated afterwards (every buffer of the underlier) and
    # the answer (price, loss, parameters + losses of fit) are bitwise the same.  All objects are built BEFORE the seed is set (constructors of torch layers draw
    # from the stream); the follow-up hedgers have inputs whose values are defined (or a model that ignores its input: Naked on `empty`).  Fixed corpus
    # (computation x follow-up by index): every class occurs for every seed and on every tier.
    import pfhedge.autogreek as ag_s
    STREAM_FOLLOW = ["derivative.simulate", "Hedger.price", "Hedger.compute_loss", "Hedger.fit", "stock.simulate", "Hedger(Naked,[empty]).price"]

    def stream_computations(mk, d, thr):
        """-> [(name, thunk)] of computations that do not simulate; every object is constructed here, the thunks only compute"""
        T = mk["T"]
        out = []
        for name in BASE_FEATURES:
            f = get_feature(feature_obj(torch, name, mk, thr)).of(d, None)
            out.append((f"feature.{name}.get(None)", lambda f=f: f.get(None)))
            out.append((f"feature.{name}.get(i)", lambda f=f, i=g.randint(0, T - 1): f.get(i)))
        mo = nn_module_output(torch, mk, thr, g).of(d, None)
        out.append(("feature.module_output.get(None)", lambda: mo.get(None)))
        out.append(("derivative.payoff", d.payoff))
        out.append(("derivative.spot(listed)", lambda: d.spot))
        out.append(("derivative.moneyness", lambda: d.moneyness(None)))
        hedgers = [("Naked,[empty]", Hedger(nn.Naked(), ["empty"])),
                   ("linear,[empty,zeros,module_output]", Hedger(model_obj(torch, gen_linear(g, 4, 1)), ["empty", "zeros", nn_module_output(torch, mk, thr, g)])),
                   ("linear,[log_moneyness,empty,prev_hedge]", Hedger(model_obj(torch, gen_linear(g, 3, 1)), ["log_moneyness", "empty", "prev_hedge"]))]
        volpos = all(v > 0 for r in mk["vol"] for v in r)
        if volpos and not (mk["option"] in ("LookbackOption", "AmericanBinaryOption") and not mk["call"]):
            bs, ww = BlackScholes(d), WhalleyWilmott(d)
            hedgers += [("BlackScholes", Hedger(bs, bs.inputs())), ("WhalleyWilmott", Hedger(ww, ww.inputs()))]
            out.append(("BlackScholes.price", bs.price))
            out.append(("BlackScholes.delta", bs.delta))
        for hname, hh in hedgers:
            for op in ("get_input", "compute_hedge", "compute_portfolio", "compute_pl"):
                if op == "get_input" and "prev_hedge" in hname:
                    continue
                out.append((f"Hedger({hname}).{op}", (lambda hh=hh: hh.get_input(d, None)) if op == "get_input" else (lambda hh=hh, op=op: getattr(hh, op)(d))))
        x = torch.tensor([[float(v) for v in r] for r in mk["spot"]], dtype=dt).t().contiguous()
        tg = torch.ones_like(x) * 0.5
        for cname, crit in (("EntropicRiskMeasure", nn.EntropicRiskMeasure()), ("ExpectedShortfall", nn.ExpectedShortfall(0.5)), ("QuadraticCVaR", nn.QuadraticCVaR(2.0))):
            out.append((f"{cname}.forward", lambda crit=crit: crit(x, tg)))
            out.append((f"{cname}.cash", lambda crit=crit: crit.cash(x, tg)))
        xs_pos = x.t().contiguous()
        out.append(("autogreek.delta[spot,volatility]", lambda: ag_s.delta(lambda spot, volatility, time_to_maturity: spot * spot * volatility + time_to_maturity * spot,
                                                                           spot=xs_pos, volatility=torch.ones_like(xs_pos) * 0.2, time_to_maturity=torch.ones_like(xs_pos) * 0.5)))
        return out

    def stream_follow(kind, spec):
        """newly built objects for what simulates afterwards -> thunk returning (answer, the series the underlier holds afterwards)"""
        prim, cost, step, opt, strike, npaths, ms, g_val = spec
        u_ = getattr(I, prim)(cost=cost, dt=step, dtype=dt)
        d_ = getattr(I, opt)(u_, strike=strike, maturity=4 * step)
        if kind == "Hedger(Naked,[empty]).price":
            h_ = Hedger(nn.Naked(), ["empty"])
        else:
            h_ = Hedger(model_obj(torch, ms), ["log_moneyness", "time_to_maturity"])

        def run():
            if kind == "derivative.simulate":
                ans = d_.simulate(n_paths=npaths)
            elif kind == "stock.simulate":
                ans = u_.simulate(n_paths=npaths, time_horizon=4 * step)
            elif kind == "Hedger.fit":
                with torch.enable_grad():
                    ans = h_.fit(d_, n_epochs=2, n_paths=npaths, n_times=1, optimizer=torch.optim.Adam, verbose=False, validation=g_val)
                ans = torch.cat([p_.detach().double().reshape(-1) for p_ in h_.parameters()] + [torch.tensor(ans if ans is not None else [], dtype=dt).reshape(-1)])
            else:
                with torch.no_grad():
                    ans = getattr(h_, kind.split(".")[1])(d_, n_paths=npaths)
            return ans, {bn: b_.detach().clone() for bn, b_ in u_.named_buffers()}
        return run

    n_stream = 1 if ctx.tier == "quick" else 8
    sidx = 0
    for it in range(n_stream):
        mk = gen_market(g)
        d, u = build_derivative(torch, mk)
        thr = g.choice([x for p in mk["spot"] for x in p])
        comps = stream_computations(mk, d, thr)
        for cname, thunk in comps:
            kind = STREAM_FOLLOW[sidx % len(STREAM_FOLLOW)]
            sidx += 1
            spec = (g.choice(["BrownianStock", "HestonStock", "MertonJumpStock"]), g.choice([0.0, 1e-3]), g.choice([1 / 250, 1 / 100]),
                    g.choice(["EuropeanOption", "LookbackOption"]), g.choice([0.9, 1.0, 1.1]), g.choice([4, 7, 16]), gen_linear(g, 2, 1, relu=False), g.chance(0.5))
            seed = g.randint(0, 10 ** 6)
            case = {"computation": cname, "then": kind, "seed": seed, "follow_up": [str(x_) for x_ in spec[:6]], "option": mk["option"], "primary": mk["primary"],
                    "T": mk["T"], "N": mk["N"], "spot": enc_rat(mk["spot"])}
            ctx.case(case, True, tag="rng_stream")
            ctx.traces += 1
            runs = []
            for with_history in (True, False):
                follow = stream_follow(kind, spec)
                torch.manual_seed(seed)
                if with_history:
                    rng0 = torch.get_rng_state()
                    st_c = call_impl(thunk, watch=[("derivative", d)])[0]
                    ctx.stats[f"rng_stream:computation:{st_c}"] += 1
                    rng_check(cname, rng0, case)
                st, v, _ = call_impl(follow)
                runs.append((st, v))
            ctx.stats[f"rng_stream:{kind}:{runs[0][0]}"] += 1
            (s1, v1), (s2, v2) = runs
            same = s1 == s2 and (s1 != "ok" or (same_result(("ok", v1[0]), ("ok", v2[0])) and v1[1].keys() == v2[1].keys()
                                                and all(same_result(("ok", v1[1][k_]), ("ok", v2[1][k_])) for k_ in v1[1])))
            if not same:
                ctx.fail(f"inside one seeded run, what {kind} simulates / answers after {cname} on another (already simulated) derivative differs from the same run without "
                         "that computation: the series simulated afterwards depend on which computations ran before", case, key=f"rng_stream:{cname}",
                         detail={"with_computation": str(v1)[:300], "without": str(v2)[:300]})
    # ------------------------------------------------------------------ history independence II: the INSTRUMENT objects are reused
    # one underlier object (with one or two derivatives on it) lives through dtype changes (to(float32) / to(float64)), re-simulations
    # with other path counts and hedging by long-lived hedgers; every hedging result is compared with that of a NEWLY constructed
    # underlier + derivative + hedger of the same parameters and dtype holding bit-identical copies of the current buffers
    f32, f64 = torch.float32, torch.float64
    nr = 14 if ctx.tier == "quick" else 200
    for it in range(nr):
        prim = g.choice(["BrownianStock", "HestonStock", "MertonJumpStock"])
        step = g.choice([1 / 250, 1 / 100])
        pkw = {"cost": g.choice([0.0, 1e-3]), "dt": step}
        if prim != "HestonStock":
            pkw["sigma"] = g.choice([0.2, 0.3])
        mk_u = lambda dtype_: getattr(I, prim)(dtype=dtype_, **pkw)
        dspecs = []
        for _ in range(g.choice([1, 1, 2])):
            oname = g.choice(OPTION_TYPES)
            dkw = {"call": True if oname in ("LookbackOption", "AmericanBinaryOption") else g.chance(0.6), "strike": g.choice([0.95, 1.0, 1.05]),
                   "maturity": g.choice([3, 5, 8]) * step}
            listed = g.choice([None, None, (2.0, 0.25)])
            model_kind = g.choice(["BlackScholes", "WhalleyWilmott", "linear", "linear+prev_hedge", "band:LeakyClamp", "band:LeakyClamp+prev_hedge", "band:Clamp+prev_hedge"])
            if it < 4:          # for every seed: the clamp modules (and the BS module) through a history that leaves the hedger in evaluation mode
                model_kind = ["band:LeakyClamp+prev_hedge", "band:LeakyClamp", "band:Clamp+prev_hedge", "WhalleyWilmott"][it]
            dspecs.append((oname, dkw, listed, model_kind))

        def mk_d(u_, spec):
            oname, dkw, listed, _ = spec
            d_ = getattr(I, oname)(u_, **dkw)
            if listed:
                d_.list(lambda dd, a_=listed[0], b_=listed[1]: dd.ul().spot * a_ + b_, cost=1e-4)
            return d_

        def mk_h(d_, spec, model=None):
            kind = spec[3]
            if kind in ("BlackScholes", "WhalleyWilmott"):
                m_ = getattr(nn, kind)(d_)
                return Hedger(m_, m_.inputs())
            feats_ = ["log_moneyness", "time_to_maturity", "volatility"] + (["prev_hedge"] if kind.endswith("prev_hedge") else [])
            return Hedger(model, feats_)

        cur = g.choice([f32, f64])
        u_used = mk_u(cur)
        d_used = [mk_d(u_used, sp) for sp in dspecs]
        h_used = []
        for d_, sp in zip(d_used, dspecs):
            torch.manual_seed(g.randint(0, 10 ** 6))
            nin = 4 if sp[3].endswith("prev_hedge") else 3
            h_used.append(mk_h(d_, sp, model=BandNet(nin, "LeakyClamp" in sp[3], sp[3].endswith("prev_hedge"), cur) if sp[3].startswith("band") else
                               torch.nn.Sequential(torch.nn.Linear(nin, 3, dtype=cur), torch.nn.Tanh(), torch.nn.Linear(3, 1, dtype=cur))))
        hops = ["compute_hedge", "compute_pl", "compute_hedge", "compute_pl", "compute_loss"]
        di0 = g.randint(0, len(dspecs) - 1)
        # every history starts with: simulate, hedge, change of dtype; then a random tail.  op = (name, derivative, n_paths | dtype, seed)
        ops = [("simulate", di0, g.choice([1, 3, 8]), g.randint(0, 10 ** 6)), (g.choice(hops[:2]), di0, 2, g.randint(0, 10 ** 6)),
               ("to", 0, "float64" if cur == f32 else "float32", 0)]
        if it < 8:          # eval() of the long-lived hedgers, then hedging
            ops += [("eval", 0, None, 0), (g.choice(hops[:2]), di0, 2, g.randint(0, 10 ** 6))]
        for _ in range(g.randint(3, 7 if ctx.tier == "quick" else 20)):
            op = g.choice(["simulate", "to", "to", "eval", "train"] + hops)
            if op in ("eval", "train"):
                ops.append((op, 0, None, 0))
                continue
            if op == "to":
                ops.append((op, 0, g.choice(["float32", "float64"]), 0))
            else:
                ops.append((op, g.randint(0, len(dspecs) - 1), g.choice([1, 2, 5, 8]), g.randint(0, 10 ** 6)))
        case = {"primary": prim, "params": pkw, "derivatives": [(sp[0], sp[1], bool(sp[2]), sp[3]) for sp in dspecs], "dtype0": str(cur),
                "ops": [o[:3] for o in ops]}
        ctx.case(case, nontrivial=True, tag="instrument_reuse")
        ctx.traces += 1
        budget = [MODE_BUDGET]
        for i, (op, di, arg, seed) in enumerate(ops):
            ctx.stats[f"reuse:{op}"] += 1
            if op == "simulate":
                torch.manual_seed(seed)
                d_used[di].simulate(n_paths=arg)
                continue
            if op == "to":
                cur = f32 if arg == "float32" else f64
                d_used[di].to(cur)
                for h_ in h_used:
                    h_.to(cur)
                continue
            if op in ("eval", "train"):
                for h_ in h_used:
                    h_.train(op == "train")
                continue
            # newly constructed instruments holding bit-identical copies of the current buffers
            u_new = mk_u(cur)
            for bname, buf in list(u_used.named_buffers()):
                u_new.register_buffer(bname, buf.detach().clone())
            d_new = mk_d(u_new, dspecs[di])
            # (new hedgers: in the mode of the used one, and - if that is evaluation mode - also as constructed)
            h_news = fresh_hedgers(h_used[di], lambda: mk_h(d_new, dspecs[di], model=copy.deepcopy(h_used[di].model)), budget)
            outs = []
            for hh, dd in [(h_used[di], d_used[di])] + [(h_, d_new) for _, h_ in h_news]:
                torch.manual_seed(seed)
                if op == "compute_loss":
                    st, v, mut = call_held("Hedger.compute_loss", case | {"step": i}, hh.compute_loss, dd, n_paths=arg, simulates=True)
                else:
                    st, v, mut = call_held(f"Hedger.{op}", case | {"step": i}, getattr(hh, op), dd, watch=[("derivative", dd)])
                    if mut:
                        ctx.fail(f"Hedger.{op} modified market data in place", case | {"step": i}, key=f"mutation:Hedger.{op}", detail=mut)
                outs.append((st, v.detach() if isinstance(v, torch.Tensor) else v))
            ctx.stats[f"reuse-result:{outs[0][0]}"] += 1
            if not same_result(*outs[:2]):
                v1, v2 = outs[0][1], outs[1][1]
                ctx.fail("the result of a hedging operation depends on what the derivative / underlier OBJECTS were used with before (differs from newly "
                         "constructed instruments of the same parameters and dtype holding bit-identical buffers)",
                         case | {"step": i, "op": op, "dtype": str(cur)}, key=f"instrument_history:{op}",
                         detail={"reused": f"{getattr(v1, 'dtype', '')} {str(v1)[:200]}", "fresh": f"{getattr(v2, 'dtype', '')} {str(v2)[:200]}"})
                break
            if len(outs) == 3:
                ctx.stats["reuse:compared_with_train_mode"] += 1
                if not same_result(outs[0], outs[2]):
                    v1, v2 = outs[0][1], outs[2][1]
                    ctx.fail("the result of a hedging operation depends on the history having left the hedger in evaluation mode (eval()): it differs from a newly "
                             "constructed hedger (training mode) with the same parameters on newly constructed instruments holding bit-identical buffers, although "
                             "no module of the model is documented to depend on the mode",
                             case | {"step": i, "op": op, "dtype": str(cur), "model": dspecs[di][3]}, key=f"instrument_history:mode:{op}",
                             detail={"reused(eval)": f"{getattr(v1, 'dtype', '')} {str(v1)[:200]}", "fresh(train)": f"{getattr(v2, 'dtype', '')} {str(v2)[:200]}"})
                    break
    # ------------------------------------------------------------------ history independence III: feature OBJECTS (not names) are shared
    from pfhedge.features import FeatureList, ModuleOutput
    VAL_FEATS = [f_ for f_ in BASE_FEATURES if f_ != "empty"]        # "empty" is uninitialised memory: no value to compare
    ALL_FEATS = VAL_FEATS + ["prev_hedge"]
    ns = 30 if ctx.tier == "quick" else 400
    for it in range(ns):
        mks = [gen_market(g), gen_market(g)]
        ders = [build_derivative(torch, mk_)[0] for mk_ in mks]
        thr = g.choice([x for p in mks[0]["spot"] for x in p])
        Tmin = min(mk_["T"] for mk_ in mks)
        # (a) ONE feature object bound to two (derivative, hedger) pairs: each binding keeps giving the values of ITS derivative / hedger,
        # i.e. what a feature object of its own gives.  (ModuleOutput is not included here: its `of` is documented and modelled as a
        # re-binding of the module itself - it is shared through the hedgers of part (b), where every operation re-binds first.)
        hs = []
        with torch.no_grad():
            for d_ in ders:
                h_ = Hedger(model_obj(torch, gen_linear(g, 2, 1)), ["moneyness", "prev_hedge"])
                h_.compute_hedge(d_)                       # leaves this hedger's own prev_output
                hs.append(h_)
            fl_names = [g.choice(ALL_FEATS) for _ in range(3)]
            ts = g.choice([None, g.randint(0, Tmin - 1), g.randint(0, Tmin - 1)])
            case = {"markets": [{k: (enc_rat(v) if k in ("spot", "vol", "var") else str(v)) for k, v in mk_.items()} for mk_ in mks], "time_step": ts,
                    "threshold": str(thr), "list": fl_names}
            ctx.case(case, True, tag="shared_feature_object")
            ctx.traces += 1
            mkf = lambda nm: FeatureList([feature_obj(torch, n_, mks[0], thr) for n_ in fl_names]) if nm == "FeatureList" else get_feature(feature_obj(torch, nm, mks[0], thr))
            for name in ALL_FEATS + ["FeatureList"]:
                fo = mkf(name)
                order = g.choice([(0, 1), (1, 0)])
                b_first = fo.of(ders[order[0]], hs[order[0]])
                early = call_impl(b_first.get, ts)[:2]
                b_second = fo.of(ders[order[1]], hs[order[1]])
                for which, bound, k in (("first", b_first, order[0]), ("second", b_second, order[1])):
                    got = call_impl(bound.get, ts)[:2]
                    want = call_impl(mkf(name).of(ders[k], hs[k]).get, ts)[:2]
                    ctx.stats[f"shared_feature:{got[0]}"] += 1
                    if not same_result(got, want) or (which == "first" and not same_result(early, want)):
                        ctx.fail(f"feature object {name}: the binding obtained from .of(derivative {k}) gives other values than a feature object of its own "
                                 f"after the same object was bound to another derivative / hedger", case | {"feature": name, "binding": which, "order": order},
                                 key=f"feature_rebind:{name}", detail={"got": str(got[1])[:200], "own_object": str(want[1])[:200]})
                        break
        # (b) two hedgers built from the SAME list of feature objects (incl. a shared PrevHedge / ModuleOutput object), used alternately on
        # different derivatives, vs hedgers with feature objects of their own
        names = [g.choice(VAL_FEATS) for _ in range(2)] + g.choice([[], ["prev_hedge"], ["module_output"], ["prev_hedge", "module_output"]])
        mo_ms = gen_linear(g, 2, 1)
        def objs():
            return [ModuleOutput(model_obj(torch, mo_ms), [feature_obj(torch, "log_moneyness", mks[0], thr), feature_obj(torch, "time_to_maturity", mks[0], thr)])
                    if nm == "module_output" else get_feature(feature_obj(torch, nm, mks[0], thr)) for nm in names]
        shared = objs()
        mss = [gen_linear(g, len(names), 1) for _ in range(2)]
        h_shared = [Hedger(model_obj(torch, ms_), shared) for ms_ in mss]
        h_own = [Hedger(model_obj(torch, ms_), objs()) for ms_ in mss]
        seq = [(g.randint(0, 1), g.randint(0, 1), g.choice(["compute_hedge", "compute_pl", "compute_portfolio"] + ([] if "prev_hedge" in names else ["get_input"])))
               for _ in range(g.randint(4, 8))]           # get_input binds without a hedger: not defined with prev_hedge
        case = {"features": names, "sequence": seq, "markets": [{k: (enc_rat(v) if k in ("spot", "vol", "var") else str(v)) for k, v in mk_.items()} for mk_ in mks]}
        ctx.case(case, True, tag="shared_feature_list")
        with torch.no_grad():
            for i, (hi, di, op) in enumerate(seq):
                args_ = (ders[di], g.choice([None, 0])) if op == "get_input" else (ders[di],)
                outs = []
                for hh in (h_shared[hi], h_own[hi]):
                    st, v, mut = call_held(f"Hedger.{op}", case | {"step": i}, getattr(hh, op), *args_, watch=[("derivative", ders[di])])
                    if mut:
                        ctx.fail(f"Hedger.{op} modified market data in place", case | {"step": i}, key=f"mutation:Hedger.{op}", detail=mut)
                    outs.append((st, v))
                ctx.stats[f"shared_list:{op}:{outs[0][0]}"] += 1
                if not same_result(*outs):
                    ctx.fail("the result of a hedging operation depends on which other hedger / derivative the same feature objects were used with before "
                             "(differs from a hedger with feature objects of its own)", case | {"step": i, "op": op}, key=f"shared_features:{op}",
                             detail={"shared": str(outs[0][1])[:200], "own": str(outs[1][1])[:200]})
                    break
    # ------------------------------------------------------------------ history independence III (c): what a feature OBJECT was asked before
    # A bound feature object is read at some time steps (a run of consecutive steps 0 .. k as the hedging loop makes it, or any steps / the whole series),
    # then the series it reads CHANGE -- the underlier gets a new series of the same shape (what a re-simulation with the same path count does); the used
    # object is bound to another derivative / hedger (`used.of(other)`); a deep copy of the used object gets a new series; the used object is handed to
    # a Hedger as an input feature -- and it is read again at the next step k + 1, at other steps and as a whole.  Every value must be the one a NEWLY
    # constructed feature object gives on the current series, bitwise (same code on the same tensors).  Every feature (log variants, barrier, prev_hedge,
    # FeatureList, ModuleOutput).  The first scenarios are fixed (series that hit a barrier before the change and stay away from it afterwards, and the
    # other way round); own generator: the cases of the other parts do not move.
    gc = Gen(f"{ctx.seed}:feature_history")
    CHANGES = ["resimulate", "rebind", "deepcopy+resimulate", "hedger"]
    FH_CORPUS = []
    for up_, a_, b_ in ((True, [1, 2, 3, 3, 1, 1], [1, 1, 1, 1, 1, 3]), (False, [3, 1, 1, 1, 3, 3], [3, 3, 3, 3, 3, 1]),
                        (True, [1, 1, 1, 1, 1, 1], [1, 3, 3, 1, 1, 1]), (False, [3, 3, 3, 3, 3, 3], [3, 1, 1, 3, 3, 3])):
        for ch_ in CHANGES:
            FH_CORPUS.append((up_, a_, b_, ch_))
    nc = len(FH_CORPUS) + (24 if ctx.tier == "quick" else 300)
    for it in range(nc):
        corpus = it < len(FH_CORPUS)
        mk_a = gen_market(gc, N=1, T=6, primary=gc.choice(["BrownianStock", "HestonStock"])) if corpus else gen_market(gc)
        mk_o = gen_market(gc, N=1, T=6, primary=mk_a["primary"]) if corpus else gen_market(gc)
        nxt = gen_market(gc, N=mk_a["N"], T=mk_a["T"], primary=mk_a["primary"])
        mk_b = dict(mk_a, spot=nxt["spot"], vol=nxt["vol"], var=nxt["var"])          # the same derivative, another series of the same shape
        if corpus:
            up_, a_, b_, change = FH_CORPUS[it]
            mk_a["spot"], mk_b["spot"], mk_o["spot"], thr = [[F(x) for x in a_]], [[F(x) for x in b_]], [[F(x) for x in b_]], F(2)
            pre = [0, 1, 2]
        else:
            change = gc.choice(CHANGES)
            thr = gc.choice([x for p in mk_a["spot"] + mk_b["spot"] + mk_o["spot"] for x in p])
            Ta = mk_a["T"]
            pre = list(range(gc.randint(0, Ta - 1) + 1)) if gc.chance(0.6) else [gc.choice([None] + list(range(Ta))) for _ in range(gc.randint(1, 3))]
        T_after = mk_o["T"] if change == "rebind" else mk_a["T"]
        last = next((t_ for t_ in reversed(pre) if t_ is not None), None)
        post = ([last + 1] if last is not None and last + 1 < T_after else []) + [gc.randint(0, T_after - 1), gc.choice([None, gc.randint(0, T_after - 1)])]
        fl_names = [gc.choice(ALL_FEATS) for _ in range(2)] + [gc.choice(["barrier_up", "barrier_down"])]
        mo_ms = gen_linear(gc, 2, 1)
        hms = [gen_linear(gc, 2, 1) for _ in range(3)] + [gen_linear(gc, 4, 1)]
        enc_mk = lambda mk_: {k: (enc_rat(v) if k in ("spot", "vol", "var") else str(v)) for k, v in mk_.items()}
        case = {"series_first": enc_mk(mk_a), "series_after_the_change": enc_rat(mk_b["spot"]) if change != "rebind" else None,
                "other_derivative": enc_mk(mk_o) if change in ("rebind", "hedger") else None, "threshold": str(thr), "read_before": pre, "change": change,
                "read_after": post, "list": fl_names}
        ctx.case(case, True, tag="feature_object_history")
        ctx.stats[f"feature_history:{change}"] += 1
        ctx.traces += 1

        def mkf_c(nm):
            if nm == "FeatureList":
                return FeatureList([feature_obj(torch, n_, mk_a, thr) for n_ in fl_names])
            if nm == "module_output":
                return ModuleOutput(model_obj(torch, mo_ms), [get_feature(feature_obj(torch, "barrier_up", mk_a, thr)), get_feature(feature_obj(torch, "max_moneyness", mk_a, thr))])
            return get_feature(feature_obj(torch, nm, mk_a, thr))

        def hedged(d_, ms_):
            h_ = Hedger(model_obj(torch, ms_), ["moneyness", "prev_hedge"])
            h_.compute_hedge(d_)                           # leaves this hedger's own prev_output
            return h_
        with torch.no_grad():
            for name in ALL_FEATS + ["FeatureList", "module_output"]:
                d_a, u_a = build_derivative(torch, mk_a)
                h_a = hedged(d_a, hms[0])
                used = mkf_c(name).of(d_a, h_a)
                for t_ in pre:
                    got, want = call_impl(used.get, t_)[:2], call_impl(mkf_c(name).of(d_a, h_a).get, t_)[:2]
                    if not same_result(got, want):
                        ctx.fail(f"feature object {name}: read at time step {t_} after the same object was read at other steps, it gives another value than a newly "
                                 "constructed feature object on the same series", case | {"feature": name, "step": t_}, key=f"feature_history:reread:{name}",
                                 detail={"got": str(got[1])[:200], "new_object": str(want[1])[:200]})
                        break
                if change == "hedger":
                    # the used object as an input feature of a hedger, which hedges the derivative after its series changed / another derivative
                    d_o = build_derivative(torch, mk_o)[0]
                    inject(torch, u_a, mk_b)
                    for tgt, d_t, stateful in [(tg_, dd_, sf_) for tg_, dd_ in (("same derivative, series renewed", d_a), ("another derivative", d_o)) for sf_ in ((False, True) if corpus else (gc.chance(0.4),))]:
                        mk_hs = lambda fo: Hedger(model_obj(torch, hms[3 if name == "FeatureList" else 1]),
                                                  (list(fo.features) if name == "FeatureList" else [fo]) + (["prev_hedge"] if stateful else ["zeros"]))
                        h_u, h_n = mk_hs(used), mk_hs(mkf_c(name))
                        T_t = d_t.ul().spot.size(1)
                        steps = ([last + 1] if last is not None and last + 1 < T_t else []) + [gc.randint(0, T_t - 1)]
                        for op, args_ in [("compute_hedge", (d_t,)), ("compute_pl", (d_t,))] + ([] if stateful else [("get_input", (d_t, t_)) for t_ in steps + [None]]):
                            outs = []
                            for hh in (h_u, h_n):
                                st, v, mut = call_held(f"Hedger.{op}", case | {"feature": name}, getattr(hh, op), *args_, watch=[("derivative", d_t)])
                                if mut:
                                    ctx.fail(f"Hedger.{op} modified market data in place", case | {"feature": name}, key=f"mutation:Hedger.{op}", detail=mut)
                                outs.append((st, v))
                            ctx.stats[f"feature_history:hedger:{op}:{outs[0][0]}"] += 1
                            if not same_result(*outs):
                                ctx.fail(f"the result of Hedger.{op} depends on what the feature OBJECT {name} among the hedger's inputs was asked before (it differs from "
                                         "a hedger holding a newly constructed feature object)", case | {"feature": name, "hedged": tgt, "prev_hedge_among_inputs": stateful,
                                                                                                       "args": [str(a_) for a_ in args_[1:]]},
                                         key=f"feature_history:hedger:{op}", detail={"used_object": str(outs[0][1])[:200], "new_object": str(outs[1][1])[:200]})
                                break
                    continue
                if change == "resimulate":
                    inject(torch, u_a, mk_b)
                    target, d_t, h_t = used, d_a, h_a
                elif change == "rebind":
                    d_t = build_derivative(torch, mk_o)[0]
                    h_t = hedged(d_t, hms[2])
                    target = used.of(d_t, h_t)
                else:
                    target = copy.deepcopy(used)          # (holds copies of the derivative and of the hedger it is bound to)
                    members = target.inputs.features if name == "module_output" else target.features if name == "FeatureList" else [target]
                    d_t = members[0].derivative
                    h_t = next((f_.hedger for f_ in members if getattr(f_, "hedger", None) is not None), None)
                    inject(torch, d_t.ul(), mk_b)
                for t_ in post:
                    got = call_impl(target.get, t_)[:2]
                    want = call_impl(mkf_c(name).of(d_t, h_t).get, t_)[:2]
                    ctx.stats[f"feature_history:{got[0]}"] += 1
                    if not same_result(got, want):
                        ctx.fail(f"feature object {name}: after it was read at time steps {pre} and the series changed ({change}), the same object read at step {t_} gives "
                                 "another value than a newly constructed feature object on the current series: the feature depends on what the object was asked before",
                                 case | {"feature": name, "step": t_}, key=f"feature_history:{change}:{name}",
                                 detail={"got": str(got[1])[:200], "new_object": str(want[1])[:200]})
                        break
    # ------------------------------------------------------------------ history independence III (d): shared feature OBJECTS with STATE-DEPENDENT members
    # The feature objects of (b) / (c) that are bound in place (ModuleOutput) had state-independent inputs only.  Here the shared objects read the HEDGER
    # (prev_hedge): a ModuleOutput over prev_hedge, a ModuleOutput over such a ModuleOutput, a plain PrevHedge instance, the members of a FeatureList, a
    # state-independent ModuleOutput next to prev_hedge.  ONE list of such objects is handed to two hedgers (same or different parameters); before their first
    # use the objects may have a history of their own: bound by the caller (`.of(derivative)`, `.of(derivative, another hedger)`, `.of(another derivative)`),
    # read through Hedger.get_input (binds without a hedger), used by a third hedger on the same / on another derivative.  Then the two hedgers are used in
    # turn on the same and on another derivative (compute_hedge / compute_pl / compute_portfolio / get_input / compute_loss / price).  Every answer is the one of
    # a FRESH hedger (copy of the parameters) holding NEWLY built feature objects on the same series (same seed for the operations that simulate), bitwise.
    # Fixed corpus (every object kind x every earlier use, prev_hedge weights non-zero) for every seed and tier, then random ones; own generator.
    gd = Gen(f"{ctx.seed}:shared_stateful_feature")
    SD_KINDS = ["module_output[prev_hedge]", "module_output[module_output[prev_hedge]]", "prev_hedge", "feature_list_members", "module_output[state-independent]+prev_hedge"]
    SD_BEFORE = ["none", "of(derivative)", "of(derivative, another hedger)", "of(another derivative)", "get_input", "a third hedger hedged the same derivative",
                 "a third hedger hedged another derivative"]
    SD_COMP = ["compute_hedge", "compute_pl", "compute_portfolio"]
    SD_FIXED = dict(kind="linear", w=[[F(1, 2), F(3, 4)]], b=[F(1, 4)], relu=False)
    SD_CORPUS = [(k_, b_) for k_ in SD_KINDS for b_ in SD_BEFORE]
    nd = len(SD_CORPUS) + (12 if ctx.tier == "quick" else 300)
    for it in range(nd):
        corpus = it < len(SD_CORPUS)
        sd_kind, sd_before = SD_CORPUS[it] if corpus else (gd.choice(SD_KINDS), gd.choice(SD_BEFORE))
        sd_mks = [gen_market(gd), gen_market(gd)]
        sd_ders = [build_derivative(torch, mk_)[0] for mk_ in sd_mks]
        inner_ms = [SD_FIXED if corpus else gen_linear(gd, 2, 1) for _ in range(2)]
        same_par = (it % 2 == 0) if corpus else gd.chance(0.5)
        h_ms = [SD_FIXED if corpus else gen_linear(gd, 2, 1)]
        h_ms.append(h_ms[0] if same_par else dict(SD_FIXED, b=[F(-1, 4)]) if corpus else gen_linear(gd, 2, 1))
        third_ms = SD_FIXED if corpus else gen_linear(gd, 2, 1)

        def sd_objs():
            """newly built feature objects: the inputs of a hedger (two columns)"""
            if sd_kind == "prev_hedge":
                return [get_feature("log_moneyness"), get_feature("prev_hedge")]
            if sd_kind == "feature_list_members":
                return list(FeatureList(["log_moneyness", "prev_hedge"]).features)
            if sd_kind.startswith("module_output[state-independent]"):
                return [ModuleOutput(model_obj(torch, inner_ms[0]), ["log_moneyness", "time_to_maturity"]), get_feature("prev_hedge")]
            mo_ = ModuleOutput(model_obj(torch, inner_ms[0]), [get_feature("log_moneyness"), "prev_hedge"])
            if sd_kind == "module_output[prev_hedge]":
                return [get_feature("log_moneyness"), mo_]
            return [ModuleOutput(model_obj(torch, inner_ms[1]), ["time_to_maturity", mo_]), get_feature("log_moneyness")]
        if corpus:
            seq = [(0, 0, "compute_hedge"), (0, 0, "compute_pl"), (1, 0, "compute_hedge"), (1, 0, "compute_pl"), (0, 0, "compute_pl"), (1, 1, "compute_portfolio"),
                   (0, 1, "compute_hedge"), (1, 0, "get_input"), (1, 0, "compute_portfolio"), (0, 0, ["price", "compute_loss"][it % 2]), (1, 0, "compute_pl")]
        else:
            seq = [(gd.randint(0, 1), gd.choice([0, 0, 1]), gd.choice(SD_COMP + SD_COMP + ["get_input", "compute_loss", "price"])) for _ in range(gd.randint(3, 8))]
        seq = [(hi, di, op, gd.choice([0, None]) if op == "get_input" else gd.choice([2, 3]), gd.randint(0, 10 ** 6)) for hi, di, op in seq]
        case = {"shared_objects": sd_kind, "used_before": sd_before, "hedger_models": [str(m_) for m_ in h_ms], "feature_modules": [str(m_) for m_ in inner_ms],
                "sequence": [s_[:4] for s_ in seq], "markets": [{k: (enc_rat(v) if k in ("spot", "vol", "var") else str(v)) for k, v in mk_.items()} for mk_ in sd_mks]}
        ctx.case(case, True, tag="shared_stateful_feature")
        ctx.stats[f"shared_stateful:{sd_kind}"] += 1
        ctx.stats[f"shared_stateful:before={sd_before}"] += 1
        ctx.traces += 1
        shared = sd_objs()
        h_sh = [Hedger(model_obj(torch, ms_), shared) for ms_ in h_ms]
        with torch.no_grad():
            # what the shared objects were used for before the two hedgers get to work
            if sd_before.startswith("of("):
                other = None
                if "another hedger" in sd_before:
                    other = Hedger(model_obj(torch, third_ms), sd_objs())
                    other.compute_hedge(sd_ders[0])                       # leaves this hedger's own prev_output
                for fo in shared:
                    fo.of(sd_ders[1 if "another derivative" in sd_before else 0], other)
            elif sd_before == "get_input":
                call_impl(h_sh[0].get_input, sd_ders[0], 0)
            elif sd_before.startswith("a third hedger"):
                call_impl(Hedger(model_obj(torch, third_ms), shared).compute_pl, sd_ders[1 if "another" in sd_before else 0])
        for i, (hi, di, op, arg, seed) in enumerate(seq):
            sim = op in ("compute_loss", "price")
            args_, kw_ = ((sd_ders[di], arg), {}) if op == "get_input" else ((sd_ders[di],), {"n_paths": arg} if sim else {})
            fresh = Hedger(copy.deepcopy(h_sh[hi].model), sd_objs())
            outs = []
            for hh in (h_sh[hi], fresh):
                torch.manual_seed(seed)
                with torch.no_grad():
                    st, v, mut = call_held(f"Hedger.{op}", case | {"step": i}, getattr(hh, op), *args_, watch=[("derivative", sd_ders[di])], simulates=sim, **kw_)
                if mut and not sim:
                    ctx.fail(f"Hedger.{op} modified market data in place", case | {"step": i}, key=f"mutation:Hedger.{op}", detail=mut)
                outs.append((st, v))
            ctx.stats[f"shared_stateful:{op}:{outs[0][0]}"] += 1
            if not same_result(*outs):
                ctx.fail("the result of a hedging operation depends on what the feature OBJECTS among the hedger's inputs (reading the hedger: prev_hedge inside) were "
                         "bound to / used by before - another hedger sharing them, the caller's .of(...), get_input -: it differs from a fresh hedger with the same "
                         "parameters holding newly built feature objects on the same series", case | {"step": i, "hedger": hi, "derivative": di, "op": op},
                         key=f"shared_stateful_feature:{op}", detail={"shared_objects": str(outs[0][1])[:200], "fresh_hedger_new_objects": str(outs[1][1])[:200]})
                break
    # ------------------------------------------------------------------ history independence IV: the `hedge=` argument has a history too
    # ONE hedger lives through calls with DIFFERENT hedging instruments (default, the underlier passed explicitly, listed derivatives written
    # on the derivative's underlier), including fit(hedge=...) followed by calls with the default; the listed instruments live through
    # re-simulations and dtype changes of their underlier made by ANOTHER owner (the hedged derivative's simulate() -- what compute_loss / price /
    # fit do at every iteration --, the stock's own simulate(), to() of the stock / of another derivative).  Every result is compared with
    # that of a NEW world: a newly constructed underlier holding bit-identical buffers, new derivatives, newly listed instruments and a fresh
    # hedger with the same parameters, called with the corresponding `hedge=` argument under the same random seed.  Calls with the default
    # are also compared with the same hedger called with hedge=[underlier] (the documented meaning of the default), and the price of a
    # listed instrument with that of the newly listed one on the same series.  Own generator: the cases of the other parts do not move.
    g4 = Gen(f"{ctx.seed}:hedge_history")
    n4 = 16 if ctx.tier == "quick" else 160
    HOPS = ["compute_hedge", "compute_pl", "compute_portfolio", "compute_loss", "price"]
    HEAP_PROG = {"compute_pl": "pl"}
    # ---- the same histories inside the Lean model (Model/HedgerSession.lean, op "hedger_session": one hedger state -- parameters, prev_output buffer,
    # optimiser instance -- and one world, `step` per operation).  Model-compared histories (`modelable`) are restricted to what the model has:
    # float64 throughout (casts are casts to float64), a Linear(-ReLU-Linear) module, affine pricers (a pricer returning a view is `spot * 1 + 0`),
    # entropic risk / entropic loss / expected shortfall (with ONE path count for compute_loss / price / fit: `CritH.es k` is one k); fit takes an
    # Optimizer subclass (a new optimiser per call) or ONE optimiser instance reused by every fit of the history (SGD with momentum / Adam: its
    # state is part of the session).  They run through the bitwise comparison with a new world below like all others, and every operation is also
    # sent to the model: the series are read off the real instruments after each (re)simulation; for compute_loss / price / fit, which simulate
    # inside, the draws are re-created under the operation's seed (as harness/c06.py hedger_price_section, harness/c15.py check_fit_num do).
    SESSION_FEATS = {"log_moneyness": ["moneyness", True], "time_to_maturity": ["time_to_maturity"], "volatility": ["volatility"], "prev_hedge": ["prev_hedge"]}
    SESSION_PAYOFF = {"EuropeanOption": "european", "LookbackOption": "lookback", "EuropeanBinaryOption": "european_binary"}

    def series_json(u_):
        enc = lambda t: enc_flt([[float(x) for x in r] for r in t.detach().to(f64).tolist()])
        return {"spot": enc(u_.spot), "variance": enc(u_.variance), "volatility": enc(u_.volatility)}

    def hedge_history(g4, modelable, idx):
        prim = g4.choice(["BrownianStock", "BrownianStock", "HestonStock", "MertonJumpStock"])
        step = g4.choice([1 / 250, 1 / 100])
        # (model-compared histories: cost rates exactly representable in single precision -- pl() builds torch.tensor(cost) (float32) before casting
        # to the spot's dtype, a 6e-8 relative rounding of the rate that is not this property's subject; see harness/c15.py)
        pkw = {"cost": g4.choice([0.0, 1e-3] if not modelable else [0.0, 2.0 ** -10]), "dt": step}
        if prim != "HestonStock":
            pkw["sigma"] = g4.choice([0.2, 0.3])
        mk_u = lambda dtype_: getattr(I, prim)(dtype=dtype_, **pkw)
        nT = g4.choice([3, 5, 6])
        # hedged derivatives and listed instruments, all on the one underlier
        dspecs = [(g4.choice(["EuropeanOption", "LookbackOption", "EuropeanBinaryOption"]), {"strike": g4.choice([0.95, 1.0, 1.05]), "maturity": nT * step})
                  for _ in range(g4.choice([1, 2]) if not modelable else 2)]
        lspecs = []
        for _ in range(g4.choice([1, 2])):
            pk = g4.choice(["affine", "affine", "view", "square+ttm"] if not modelable else ["affine", "affine", "view"])
            lspecs.append(("EuropeanOption", {"call": g4.chance(0.7), "strike": g4.choice([0.9, 1.0, 1.1]), "maturity": g4.choice([nT, nT, nT + 2]) * step},
                           pk, g4.choice([2.0, 0.5, 1.5]), g4.choice([0.25, -0.125, 1.0]), g4.choice([0.0, 1e-3, 1e-2] if not modelable else [0.0, 2.0 ** -10, 2.0 ** -7])))

        def mk_l(u_, spec):
            oname, okw, pk, a_, b_, c_ = spec
            o_ = getattr(I, oname)(u_, **okw)
            if pk == "affine":
                o_.list(lambda dd, a_=a_, b_=b_: dd.ul().spot * a_ + b_, cost=c_)
            elif pk == "view":          # a pricer returning a VIEW of the underlier's buffer
                o_.list(lambda dd: dd.ul().spot[:, :], cost=c_)
            else:
                o_.list(lambda dd, a_=a_: dd.ul().spot.square() * a_ + dd.time_to_maturity(), cost=c_)
            return o_
        stateful = g4.chance(0.5)
        feats4 = ["log_moneyness", "time_to_maturity", "volatility"] + (["prev_hedge"] if stateful else [])
        cur = g4.choice([f64, f64, f32]) if not modelable else f64
        torch.manual_seed(g4.randint(0, 10 ** 6))
        opt_used = None
        # the history also contains what changes the hedger's OTHER state (see history independence I): a backward pass through its loss ("loss_backward":
        # the loss is an answer like compute_loss's, and .grad stays on the parameters), eval() / train(), fit with validation ("fit_val": leaves the hedger in
        # evaluation mode).  The model kinds / beginnings rotate with the index of the history, so that every combination occurs for every seed
        kind4 = MODEL_KINDS[idx % 3] if not modelable else "mlp"
        if not modelable:
            model4 = (BandNet(len(feats4), kind4 == "band:LeakyClamp", stateful, cur) if kind4 != "mlp" else
                      torch.nn.Sequential(torch.nn.Linear(len(feats4), 3, dtype=cur), torch.nn.Tanh(), torch.nn.Linear(3, 1, dtype=cur)))
            crit4 = g4.choice([nn.EntropicRiskMeasure(), nn.ExpectedShortfall(0.3), nn.EntropicLoss()])
            fit_kw = lambda hh, used: {}
        else:
            hid = g4.choice([0, 2, 3])
            model4 = (torch.nn.Sequential(torch.nn.Linear(len(feats4), hid, dtype=cur), torch.nn.ReLU(), torch.nn.Linear(hid, 1, dtype=cur)) if hid
                      else torch.nn.Sequential(torch.nn.Linear(len(feats4), 1, dtype=cur)))
            crit_name, crit_a = g4.choice(["erm", "erm", "eloss", "es"]), g4.choice([1.0, 0.5, 2.0])
            crit4 = {"erm": lambda: nn.EntropicRiskMeasure(crit_a), "eloss": lambda: nn.EntropicLoss(crit_a), "es": lambda: nn.ExpectedShortfall(0.3)}[crit_name]()
            np_crit = g4.choice([2, 5, 8])          # the path count of every compute_loss / price / fit of this history
            optname, opt_inst = g4.choice([("SGD", False), ("SGD", True), ("SGD", True), ("Adam", False), ("Adam", True)])
            okw = dict(lr=g4.choice([0.01, 0.1]), momentum=g4.choice([0.0, 0.9, 0.5])) if optname == "SGD" else dict(lr=g4.choice([0.001, 0.01]))
            opt_spec = (["sgd", float_bits(okw["lr"]), float_bits(okw["momentum"]), float_bits(0.0)] if optname == "SGD"
                        else ["adam", float_bits(okw["lr"]), float_bits(0.9), float_bits(0.999), float_bits(1e-8), float_bits(0.0)])
            seen_grads = []

            class TheOpt(getattr(torch.optim, optname)):          # fit() accepts an Optimizer SUBCLASS or an instance
                def __init__(self, params):
                    super().__init__(params, **okw)

                def step(self, *a_, **kw_):
                    if self.param_groups[0]["params"][0] is next(iter(model4.parameters())):
                        seen_grads.append([p_.grad.detach().clone() for p_ in self.param_groups[0]["params"] if p_.grad is not None])
                    return super().step(*a_, **kw_)
            opt_before = [None]
            if opt_inst:
                opt_used = TheOpt(model4.parameters())

            def fit_kw(hh, used):
                if not opt_inst:
                    return {"optimizer": TheOpt}
                if used:
                    return {"optimizer": opt_used}
                o_ = TheOpt(hh.model.parameters())          # the fresh hedger's own instance, in the state the used one was in before this call
                o_.load_state_dict(copy.deepcopy(opt_before[0]))
                return {"optimizer": o_}
            theta0 = [p_.detach().clone() for p_ in model4.parameters()]
        h_used = Hedger(model4, feats4, criterion=crit4)
        u_used = mk_u(cur)
        d_used = [getattr(I, sp[0])(u_used, **sp[1]) for sp in dspecs]
        l_used = [mk_l(u_used, sp) for sp in lspecs]
        KINDS = ["default", "default", "underlier"] + [f"listed{j}" for j in range(len(lspecs))] * 2

        def hedge_arg(kind, u_, ls_):
            return None if kind == "default" else [u_] if kind == "underlier" else [ls_[int(kind[6:])]]

        def rnd_op():
            op = g4.choice(["simulate", "simulate_stock", "to", "read_listed", "fit", "fit_val", "loss_backward", "eval", "train"] + HOPS + HOPS)
            di = g4.randint(0, len(dspecs) - 1)
            if op in ("eval", "train"):
                return (op, 0, None, 0, 0)
            if op == "to":
                return (op, g4.choice(["stock", "derivative", "listed"]), g4.choice(["float32", "float64"]) if not modelable else "float64", 0, 0)
            if op == "read_listed":
                return (op, g4.randint(0, len(lspecs) - 1), None, 0, 0)
            if op == "simulate_stock":
                return (op, di, None, g4.choice([1, 2, 5, 8]), g4.randint(0, 10 ** 6))
            return (op, di, g4.choice(KINDS) if op != "simulate" else None, g4.choice([1, 2, 5, 8]), g4.randint(0, 10 ** 6))
        # every history starts with: simulate, hedge with a listed instrument (its price is read), re-simulation through the hedged derivative, the
        # listed price, fit with the listed instrument, re-simulation, calls with the default, the listed price; then a random tail.  op = (name, derivative | owner, hedge kind | dtype, n_paths, seed)
        np0 = g4.choice([2, 5, 8])
        ops = [("simulate", 0, None, np0, g4.randint(0, 10 ** 6)), (g4.choice(HOPS[:3]), 0, "listed0", np0, g4.randint(0, 10 ** 6)),
               ("simulate", 0, None, np0, g4.randint(0, 10 ** 6)), ("read_listed", 0, None, 0, 0), ("loss_backward", 0, g4.choice(KINDS), g4.choice([2, 5]), g4.randint(0, 10 ** 6)),
               ("fit" if idx % 2 == 0 else "fit_val", 0, "listed0", g4.choice([2, 5]), g4.randint(0, 10 ** 6)), ("simulate", g4.randint(0, len(dspecs) - 1), None, np0, g4.randint(0, 10 ** 6)),
               (g4.choice(HOPS[:3]), 0, "default", np0, g4.randint(0, 10 ** 6)), ("read_listed", 0, None, 0, 0),
               (g4.choice(HOPS[3:]), 0, "default", g4.choice([2, 5]), g4.randint(0, 10 ** 6))]
        for _ in range(g4.randint(3, 6 if ctx.tier == "quick" else 16)):
            ops.append(rnd_op())
        if modelable:
            # the second derivative shares the underlier: hedge it after the fit on the first one, then the first one again
            ops[7:7] = [(g4.choice(HOPS[:3]), 1, g4.choice(KINDS), np0, g4.randint(0, 10 ** 6))]
            ops = [(o[0], o[1], o[2], np_crit if o[0] in ("compute_loss", "price", "fit", "fit_val", "loss_backward") else o[3], o[4]) for o in ops]
        case = {"primary": prim, "params": pkw, "derivatives": dspecs, "listed": lspecs, "stateful": stateful, "dtype0": str(cur),
                "criterion": type(crit4).__name__, "ops": [o[:4] for o in ops]} | ({"model": kind4} if not modelable else {})
        if modelable:
            case |= {"model": "linear" if not hid else f"linear-relu({hid})-linear", "criterion_param": crit_a if crit_name != "es" else 0.3,
                     "optimizer": [optname, okw, "instance" if opt_inst else "class"]}
        ctx.case(case, nontrivial=True, tag="hedge_history" if not modelable else "hedger_session")
        ctx.traces += 1
        budget = [MODE_BUDGET]
        sops, sexp, model_ok = [], [], modelable          # the history for the model: its operations and what the implementation answered
        href = lambda kind: None if kind == "default" else [["primary", 0]] if kind == "underlier" else [["listed", int(kind[6:])]]

        def observed():
            po = getattr(h_used, "prev_output", None)
            return {"prev": None if po is None or not stateful else [[float(x) for x in r] for r in po.detach()[:, -1, :].tolist()],
                    "theta": [float(x) for p_ in h_used.model.parameters() for x in p_.detach().reshape(-1).tolist()]}
        for i, (op, di, arg, npaths, seed) in enumerate(ops):
            ctx.stats[f"hedge_hist:{op}"] += 1
            if op == "simulate":          # through a hedged derivative: the listed instruments are not told
                torch.manual_seed(seed)
                d_used[di].simulate(n_paths=npaths)
                if model_ok:
                    sops.append(["simulate", 0, series_json(u_used)])
                    sexp.append({"step": i, "op": op, "res": None} | observed())
                continue
            if op == "simulate_stock":
                torch.manual_seed(seed)
                u_used.simulate(n_paths=npaths, time_horizon=dspecs[di][1]["maturity"])
                if model_ok:
                    sops.append(["simulate", 0, series_json(u_used)])
                    sexp.append({"step": i, "op": op, "res": None} | observed())
                continue
            if op == "to":
                cur = f32 if arg == "float32" else f64
                {"stock": u_used, "derivative": d_used[0], "listed": l_used[-1]}[di].to(cur)
                h_used.to(cur)
                continue
            if op in ("eval", "train"):          # (the model has no mode: it is not told)
                h_used.train(op == "train")
                continue
            mop = {"loss_backward": "compute_loss", "fit_val": "fit"}.get(op, op)          # what the operation is for the model
            # the new world: bit-identical buffers, everything else newly constructed
            u_new = mk_u(cur)
            for bname, buf in list(u_used.named_buffers()):
                u_new.register_buffer(bname, buf.detach().clone())
            d_new = [getattr(I, sp[0])(u_new, **sp[1]) for sp in dspecs]
            l_new = [mk_l(u_new, sp) for sp in lspecs]
            h_new = Hedger(copy.deepcopy(h_used.model), feats4, criterion=copy.deepcopy(crit4))
            h_new.train(h_used.training)
            was_eval = not h_used.training
            step_case = case | {"step": i, "op": op, "dtype": str(cur)}
            if op == "read_listed":
                with torch.no_grad():
                    st, v = monitored("derivative.spot(listed)[underlier renewed by another owner]", lambda: l_used[di].spot, watch=[("listed", l_used[di])], case=step_case)
                    got, want = (st, v), call_impl(lambda: l_new[di].spot)[:2]
                if not same_result(got, want):
                    ctx.fail("the price of a listed derivative depends on which series its underlier held before (differs from the same instrument newly listed on "
                             "a new underlier holding bit-identical buffers)", step_case, key="listed_price_history",
                             detail={"reused": f"{getattr(got[1], 'dtype', '')} {str(got[1])[:200]}", "fresh": f"{getattr(want[1], 'dtype', '')} {str(want[1])[:200]}"})
                    if not modelable:          # (a model-compared history is not cut at a property failure: the model is shown all of it)
                        break
                continue

            def run(hh, dd, hedge, label):
                torch.manual_seed(seed)
                if mop == "fit":
                    st, v, _ = call_held("Hedger.fit", step_case, hh.fit, dd, hedge=hedge, n_epochs=2, n_paths=npaths, verbose=False, validation=op == "fit_val", simulates=True, **fit_kw(hh, hh is h_used))
                    return (st, torch.cat([p_.detach().reshape(-1) for p_ in hh.model.parameters()]) if st == "ok" else v)
                if op == "loss_backward":          # gradient inspection / a hand-written training step without the step
                    st, v, _ = call_held("Hedger.compute_loss", step_case, hh.compute_loss, dd, hedge=hedge, n_paths=npaths, n_times=2, simulates=True)
                    if st == "ok":
                        v.backward()
                        v = v.detach()
                    return (st, v)
                if op in ("compute_loss", "price"):
                    with torch.no_grad():
                        st, v, _ = call_held(f"Hedger.{op}", step_case, getattr(hh, op), dd, hedge=hedge, n_paths=npaths, n_times=2, simulates=True)
                    return (st, v)
                with torch.no_grad():
                    if hh is h_used:
                        st, v = monitored(f"Hedger.{op}[hedge={label}]", getattr(hh, op), dd, hedge=hedge,
                                          watch=[("derivative", dd), ("listed", l_used)], case=step_case, prog=HEAP_PROG.get(op))
                    else:
                        st, v, _ = call_held(f"Hedger.{op}", step_case, getattr(hh, op), dd, hedge=hedge)
                return (st, v)
            kk = "listed" if arg.startswith("listed") else arg
            ctx.stats[f"hedge_hist:hedge={kk}"] += 1
            if modelable:
                del seen_grads[:]
                if opt_inst:
                    opt_before[0] = copy.deepcopy(opt_used.state_dict())
            r_used = run(h_used, d_used[di], hedge_arg(arg, u_used, l_used), kk)
            if model_ok:
                # what the model is told: the operation, and for the ones that simulate inside the draws, re-created under the operation's seed (the
                # real call consumed random numbers in `derivative.simulate` only); the underlier ends in the series of the last draw once more
                obs = observed()
                if mop in ("compute_loss", "price", "fit"):
                    torch.manual_seed(seed)
                    draws = []
                    for _ in range(4 if op == "fit_val" else 2):          # fit with validation: training batch, validation batch per epoch
                        d_used[di].simulate(n_paths=npaths)
                        draws.append([series_json(u_used)])
                    if mop == "fit":
                        if optname == "Adam" and any(bool(((g_.abs() < 1e-6) & (g_.abs() > 0)).any()) for gs in seen_grads for g_ in gs):
                            # Adam divides by sqrt(g^2) + 1e-8: a gradient component that is zero up to rounding has no stable update (harness/c15.py)
                            ctx.stats["hedger_session:cut_at_adam_gradient_component_near_zero"] += 1
                            model_ok = False
                        else:
                            sops.append(["fit", di, href(arg), opt_spec, opt_inst, [{"train": dr, "val": None} for dr in draws] if op == "fit" else
                                         [{"train": draws[2 * e_], "val": [draws[2 * e_ + 1]]} for e_ in range(2)]])
                    else:
                        sops.append([mop, di, href(arg), draws])
                else:
                    sops.append([op, di, href(arg)])
                if model_ok:
                    v_ = r_used[1]
                    if r_used[0] == "ok":
                        v_ = v_.detach()
                        v_ = v_.transpose(-1, -2).tolist() if op == "compute_hedge" else [float(x) for x in v_.reshape(-1).tolist()]
                    sexp.append({"step": i, "op": mop, "real_op": op, "hedge": arg, "derivative": di, "res": (r_used[0], v_)} | obs)
            r_new = run(h_new, d_new[di], hedge_arg(arg, u_new, l_new), kk)
            ctx.stats[f"hedge_hist-result:{r_used[0]}"] += 1
            if not same_result(r_used, r_new):
                v1, v2 = r_used[1], r_new[1]
                ctx.fail(("the parameters after fit depend" if mop == "fit" else "the result of a hedging operation depends") + " on which hedging instruments the hedger was "
                         "used / fitted with before (on gradients an earlier backward pass left on its parameters), or on which series the underlier of a listed hedging instrument held before (differs from a fresh hedger "
                         "with the same parameters on newly constructed instruments holding bit-identical buffers, same `hedge=` argument, same seed)",
                         step_case | {"hedge": arg}, key=f"hedge_history:{op}:{kk}",
                         detail={"reused": f"{getattr(v1, 'dtype', '')} {str(v1)[:200]}", "fresh": f"{getattr(v2, 'dtype', '')} {str(v2)[:200]}"})
                if not modelable:
                    break
            if was_eval and mop != "fit" and budget[0] > 0:
                budget[0] -= 1
                # the history left the hedger in evaluation mode: the fresh hedger as constructed (training mode) answers the same - no module of the model
                # is documented to depend on the mode
                h_new_t = Hedger(copy.deepcopy(h_used.model), feats4, criterion=copy.deepcopy(crit4)).train()
                r_new_t = run(h_new_t, d_new[di], hedge_arg(arg, u_new, l_new), kk)
                ctx.stats["hedge_hist:compared_with_train_mode"] += 1
                if not same_result(r_used, r_new_t):
                    ctx.fail("the result of a hedging operation depends on the history having left the hedger in evaluation mode (fit with validation / eval()): it differs "
                             "from a fresh hedger with the same parameters as constructed (training mode) on newly constructed instruments holding bit-identical buffers, "
                             "although no module of the model is documented to depend on the mode", step_case | {"hedge": arg}, key=f"hedge_history:mode:{op}:{kk}",
                             detail={"used(eval)": str(r_used[1])[:200], "fresh(train)": str(r_new_t[1])[:200]})
                    if not modelable:
                        break
            if arg == "default" and mop != "fit":
                # the documented meaning of the default: the derivative's underlier(s)
                r_exp = run(h_used, d_used[di], [u_used], "underlier")
                if not same_result(r_used, r_exp):
                    ctx.fail("a hedging operation with the default `hedge` gives another result than the same hedger with hedge=[the derivative's underlier]",
                             step_case, key=f"default_hedge:{op}", detail={"default": str(r_used[1])[:200], "explicit": str(r_exp[1])[:200]})
                    if not modelable:
                        break
        if not modelable or not sops:
            return None
        layers = [{"w": enc_flt([[float(x) for x in r] for r in w_.tolist()]), "b": enc_flt([float(x) for x in b_.tolist()])}
                  for w_, b_ in zip(theta0[0::2], theta0[1::2])]
        empty = {"spot": [], "variance": [], "volatility": []}
        world = {"underliers": [{"series": empty, "dt": float_bits(float(u_used.dt)), "cost": float_bits(float(u_used.cost))}],
                 "derivs": [{"uls": [0], "payoff": {"kind": SESSION_PAYOFF[sp[0]], "call": True, "strike": float_bits(sp[1]["strike"])}, "adds": []} for sp in dspecs],
                 "listed": [{"ul": 0, "a": float_bits(sp[3] if sp[2] == "affine" else 1.0), "b": float_bits(sp[4] if sp[2] == "affine" else 0.0),
                             "cost": float_bits(sp[5])} for sp in lspecs]}
        crit_spec = {"erm": ["erm", float_bits(crit_a)], "eloss": ["eloss", float_bits(crit_a)], "es": ["es", math.ceil(0.3 * np_crit)]}[crit_name]
        req = {"op": "hedger_session", "features": [SESSION_FEATS[nm] for nm in feats4], "layers": layers, "crit": crit_spec, "world": world, "ops": sops}
        return case, req, sexp

    for it in range(n4):
        hedge_history(g4, False, it)
    g5 = Gen(f"{ctx.seed}:hedger_session")
    n5 = 12 if ctx.tier == "quick" else 120
    sessions = [r_ for r_ in (hedge_history(g5, True, j_) for j_ in range(n5)) if r_ is not None]
    try:
        souts = ctx.driver([r_[1] for r_ in sessions])
    except DriverBroken as e:
        ctx.ties_broken.append({"kind": "driver", "detail": str(e)[:1500]})
        souts = []
    STOL = 1e-9

    def flat(x):
        return [z for y in x for z in flat(y)] if isinstance(x, list) else [x]

    def shape_of(x):
        return [len(x)] + (shape_of(x[0]) if x and isinstance(x[0], list) else []) if isinstance(x, list) else []

    def close(a, b):
        """same nested shape, values within 1e-9 relative on the max-norm (the measure of harness/c15.py check_fit_num)"""
        if shape_of(a) != shape_of(b):
            return False
        fa, fb = flat(a), flat(b)
        scale = max([0.0] + [abs(x) for x in fa + fb if x == x])
        return all((x != x and y != y) or x == y or abs(x - y) <= STOL * scale for x, y in zip(fa, fb))
    for (case, req, sexp), mo in zip(sessions, souts):
        steps_ = mo.get("steps") if isinstance(mo, dict) else None
        if not isinstance(steps_, list) or len(steps_) != len(sexp):
            ctx.disagree("hedger_session", case, f"{len(sexp)} operations", mo if not isinstance(steps_, list) else f"{len(steps_)} answers")
            continue
        for e_, m_ in zip(sexp, steps_):
            ctx.stats["hedger_session_compared"] += 1
            ctx.stats[f"hedger_session:{e_['op']}"] += 1
            where = case | {k_: e_[k_] for k_ in ("step", "op", "real_op", "hedge", "derivative") if k_ in e_}
            out = m_["out"]
            bad = None
            if e_["res"] is None:
                if out is not None:
                    bad = ("answer", None, out)
            else:
                st, v = e_["res"]
                key_ = {"compute_hedge": "hedge", "compute_pl": "vec", "compute_portfolio": "vec", "compute_loss": "scalar", "price": "scalar", "fit": "fit"}[e_["op"]]
                mv = (out or {}).get(key_)
                if mv is None:
                    bad = ("kind of answer", key_, out)
                elif st != "ok":
                    if mv.get("err") != v:
                        bad = ("error", v, mv)
                elif "ok" not in mv:
                    bad = ("answer", "ok", mv)
                else:
                    got = dec_flt(mv["ok"]["final"] if key_ == "fit" else mv["ok"])
                    got = [got] if key_ == "scalar" else got
                    if not close(v, got):
                        bad = ("parameters after fit" if key_ == "fit" else "answer", v, got)
            if bad is None and not close(e_["theta"], dec_flt(m_["theta"])):
                bad = ("parameters after the operation", e_["theta"], dec_flt(m_["theta"]))
            if bad is None and e_["prev"] is not None and not close(e_["prev"], dec_flt(m_["prev"])):
                bad = ("prev_output buffer (last time step) after the operation", e_["prev"], dec_flt(m_["prev"]))
            if bad is not None:
                ctx.stats["hedger_session_disagreements"] += 1
                ctx.disagree("hedger_session", where | {"what": bad[0]}, bad[1], bad[2],
                             note="Model/HedgerSession.lean `step` on the same history (series read off the real instruments after every (re)simulation); "
                                  f"shapes exact, values within {STOL} relative (max-norm)")
                break
    ctx.extra["hedger_session_histories"] = len(sessions)
    # ------------------------------------------------------------------ history independence V: parameters and series in DIFFERENT dtypes
    # ONE hedger whose parameters (of the model, or of the criterion only) are in another dtype than the series of (one of) the derivatives it hedges --
    # kinds of MIXED_KINDS by history index, single / double parameters alternately -- lives through compute_hedge / compute_pl / compute_portfolio /
    # compute_loss / price / fit on two derivatives (own underliers, dtypes differing / equal) that are re-simulated (real simulations: values that do
    # not fit single precision) and cast.  After every operation: the instruments hold the series they held (the operations that simulate: series of the
    # dtype they had) and declare the dtype they declared; and the answer is the one a fresh hedger with the same parameters and criterion gives on newly
    # constructed instruments of the declared dtype holding bit-identical buffers, under the same seed (bitwise; after fit: all parameters).
    g6 = Gen(f"{ctx.seed}:mixed_dtype")
    n6 = 2 * len(MIXED_KINDS) if ctx.tier == "quick" else 12 * len(MIXED_KINDS)
    MOPS = ["compute_hedge", "compute_pl", "compute_portfolio", "compute_loss", "price", "fit"]
    for it in range(n6):
        kind = MIXED_KINDS[(it // 2) % len(MIXED_KINDS)]
        pdt = f32 if it % 2 == 0 else f64
        odt = f64 if pdt == f32 else f32
        step = g6.choice([1 / 250, 1 / 100])
        nT = g6.choice([3, 5])
        bsm = kind in ("criterion:BlackScholes", "criterion:WhalleyWilmott")
        specs = []
        for j in range(2):
            prim = g6.choice(["BrownianStock", "HestonStock", "MertonJumpStock"])
            pkw = {"cost": g6.choice([0.0, 1e-3]), "dt": step} | ({} if prim == "HestonStock" else {"sigma": g6.choice([0.2, 0.3])})
            oname = "EuropeanOption" if bsm else g6.choice(["EuropeanOption", "LookbackOption", "EuropeanBinaryOption"])
            specs.append((prim, pkw, oname, {"strike": 1.0 if bsm else g6.choice([0.95, 1.0, 1.05]), "maturity": nT * step}))
        decl = [odt, g6.choice([f32, f64])]          # the first derivative's series are never in the dtype of the parameters at the start
        mk_u6 = lambda j, dtype_: getattr(I, specs[j][0])(dtype=dtype_, **specs[j][1])
        mk_d6 = lambda j, u_: getattr(I, specs[j][2])(u_, **specs[j][3])
        u_used = [mk_u6(j, decl[j]) for j in range(2)]
        d_used = [mk_d6(j, u_used[j]) for j in range(2)]
        for j in range(2):
            torch.manual_seed(g6.randint(0, 10 ** 6))
            d_used[j].simulate(n_paths=g6.choice([2, 3, 8]))
        h_used, feats6, w6 = mixed_hedger(kind, d_used[0], pdt, g6)
        ops = [("compute_hedge", 0), ("compute_pl", 0), ("compute_loss", 0), ("compute_portfolio", 0), ("price", 1), ("compute_hedge", 1), ("fit", 0), ("compute_pl", 0),
               ("to", 0), ("compute_pl", 0), ("simulate", 0)]
        ops += [(g6.choice(MOPS + MOPS + ["simulate", "to"]), g6.randint(0, 1)) for _ in range(g6.randint(2, 5 if ctx.tier == "quick" else 12))]
        ops = [(o_, j_, g6.choice([2, 5, 8]), g6.randint(0, 10 ** 6), g6.choice(["float32", "float64"])) for o_, j_ in ops]
        case = {"hedger": kind, "inputs": feats6, "parameter_dtype": str(pdt), "parameters": str(w6), "derivatives": [(sp[0], sp[1], sp[2], sp[3], str(dd_)) for sp, dd_ in zip(specs, decl)],
                "ops": [(o_[0], o_[1], o_[2] if o_[0] != "to" else o_[4]) for o_ in ops]}
        ctx.case(case, True, tag="mixed_dtype_history")
        ctx.stats[f"mixed_dtype_history:{kind}"] += 1
        ctx.traces += 1
        for i, (op, j, npaths, seed, todt) in enumerate(ops):
            ctx.stats[f"mixed_hist:{op}"] += 1
            if op == "simulate":
                torch.manual_seed(seed)
                d_used[j].simulate(n_paths=npaths)
                continue
            if op == "to":          # the instruments only: the hedger keeps the dtype of its parameters
                decl[j] = getattr(torch, todt)
                d_used[j].to(decl[j])
                continue
            step_case = case | {"step": i, "op": op, "series_dtype": str(decl[j])}
            ctx.stats[f"mixed_hist:{'other' if decl[j] != pdt else 'same'}-dtype"] += 1
            # the new world (before the operation: fit changes the parameters)
            u_new = mk_u6(j, decl[j])
            for bname, buf in list(u_used[j].named_buffers()):
                u_new.register_buffer(bname, buf.detach().clone())
            d_new = mk_d6(j, u_new)
            if kind.startswith("criterion:"):
                m_new = nn.Naked() if kind.endswith("Naked") else getattr(nn, kind.split(":")[1])(mk_d6(0, mk_u6(0, decl[0])))
                h_new = Hedger(m_new, feats6, criterion=copy.deepcopy(h_used.criterion))
            else:
                h_new = Hedger(copy.deepcopy(h_used.model), feats6)
            outs = []
            for hh, dd in ((h_used, d_used[j]), (h_new, d_new)):
                torch.manual_seed(seed)
                sim = op in ("compute_loss", "price", "fit")
                kw6 = {} if not sim else {"n_paths": npaths} | ({"n_epochs": 2, "verbose": False} if op == "fit" else {})
                with (torch.enable_grad() if op == "fit" else torch.no_grad()):
                    st, v, mut = call_held(f"Hedger.{op}[parameters in another dtype than the series; history]", step_case, getattr(hh, op), dd,
                                           watch=[("derivative", dd)], simulates=sim, **kw6)
                if mut and not sim:
                    ctx.fail(f"Hedger.{op} modified market data in place", step_case, key=f"mutation:Hedger.{op}", detail=mut)
                if op == "fit" and st == "ok":
                    v = torch.cat([p_.detach().double().reshape(-1) for p_ in hh.parameters()] + [torch.tensor(v, dtype=f64).reshape(-1)])
                outs.append((st, v.detach() if isinstance(v, torch.Tensor) else v))
            ctx.stats[f"mixed_hist-result:{op}:{outs[0][0] if outs[0][0] == 'ok' else outs[0][1]}"] += 1
            if not same_result(*outs):
                v1, v2 = outs[0][1], outs[1][1]
                ctx.fail(("the parameters / losses of fit depend" if op == "fit" else "the result of a hedging operation depends") + " on what the hedger (parameters in another dtype than "
                         "the series) and the instruments were used with before: it differs from a fresh hedger with the same parameters on newly constructed instruments "
                         "of the same dtype holding bit-identical buffers, same seed", step_case, key=f"mixed_dtype_history:{op}",
                         detail={"reused": f"{getattr(v1, 'dtype', '')} {str(v1)[:200]}", "fresh": f"{getattr(v2, 'dtype', '')} {str(v2)[:200]}"})
                break
    # ------------------------------------------------------------------ model side: programs predicted pure
    return ctx.finish(
        rule="mutation sweep: every built-in feature (both modes, log variants, ModuleOutput), payoff, listed price incl. a pricer returning a view, "
             "hedger computations in both branches, BS/WW modules, criteria (forward, cash), functional pl/clamps/payoffs/bisect/bs prices on 4 underlier "
             "types x 4 option types with bitwise snapshots; history: random interleavings of simulate/compute_hedge/compute_pl/compute_loss/price/fit on one "
             "hedger with 2-3 derivatives of changing path counts vs a fresh hedger; functional sweep: every public function of pfhedge.nn.functional "
             "(arguments from the signature) on contiguous / view-of-larger / transposed / row-view caller tensors; instrument reuse: one underlier with 1-2 "
             "derivatives through to(float32/float64), simulate, compute_hedge/pl/loss by long-lived BS/WW/linear hedgers vs newly constructed instruments "
             "with copied buffers; shared feature objects: one object bound to two (derivative, hedger) pairs, and two hedgers on one list of feature objects "
             "used alternately, vs objects of their own; hedge-argument histories: one hedger through compute_hedge / compute_pl / compute_portfolio / "
             "compute_loss / price / fit with hedge in {default, [underlier], [listed derivative on the underlier]} (every history contains fit(hedge=[listed]) "
             "followed by calls with the default), the underlier re-simulated through the hedged derivatives / directly and cast through stock / derivative / "
             "listed instrument, vs a fresh hedger on a newly constructed underlier with bit-identical buffers, new derivatives and newly listed instruments "
             "(same hedge argument, same seed; parameters after fit compared bitwise), default vs hedge=[underlier] on the same hedger, listed prices vs newly "
             "listed ones; hedger session: 12 / 120 such histories (float64, Linear(-ReLU-Linear), affine pricers, erm / eloss / es, SGD / Adam as class or reused "
             "instance, two derivatives on the one underlier) also executed by the Lean op hedger_session (Model/HedgerSession.lean `step`) on the series "
             "read off the real instruments; other hedger state in the histories (I, II, IV, session): loss.backward() through the hedger before fit (Adam / SGD, 2 epochs; fit "
             "of the used hedger vs fit of a fresh one under the same seed, bitwise), eval() / train(), fit(validation=True); models around nn.LeakyClamp / nn.Clamp "
             "(band [lo, lo + |w|/4] around the previous hedge / an output); evaluation-mode computations vs a fresh hedger in evaluation mode and (first 3 per history) "
             "vs a fresh hedger in training mode, bitwise; every answer, the parameters and the prev_output buffer after every operation compared (shapes exact, "
             "values 1e-9 relative); registry of the series (same tensor objects after every non-simulating computation, same dtypes after simulating ones, declared dtype / device kept) "
             "around every monitored call and every hedger call of the histories; hedgers with parameters in another dtype than the series (0-dim parameter, casting model, parameter-free "
             "model under OCE) in the sweep and as histories V vs a fresh hedger on new instruments; feature-object histories III c (read at steps 0..k / any steps, then series renewed / "
             "object re-bound / deep copy renewed / object handed to a Hedger, read again at k+1, other steps, None vs a newly constructed object; 16 fixed barrier scenarios + random); "
             "shared feature objects reading the hedger III d (ModuleOutput over prev_hedge / nested / PrevHedge instance / FeatureList members shared by two hedgers after .of(...) / get_input / "
             "a third hedger used them, on the same and on another derivative, vs a fresh hedger with newly built feature objects; 35 fixed scenarios + random); "
             "global random stream: torch.get_rng_state() bitwise unchanged by every monitored call / non-simulating hedger call of the histories; a computation (every feature, payoff, "
             "listed price, hedger computations with empty / zeros / ModuleOutput / prev_hedge inputs, BS / WW, criteria, autogreek) followed by simulate / price / compute_loss / fit "
             "inside one seeded run vs the same run without it (series and answers bitwise; 54-64 fixed scenarios per market); "
             "every case non-trivial; distinct = sha1 of canonical case")


def nn_module_output(torch, mk, thr, g):
    from pfhedge.features import ModuleOutput
    ms = gen_linear(g, 2, 2)
    return ModuleOutput(model_obj(torch, ms), [feature_obj(torch, "log_moneyness", mk, thr), feature_obj(torch, "underlier_log_spot", mk, thr)])
