"""C19 — Bisection and implied volatility invert monotone functions to precision.

correspondence: pfhedge._utils.bisect.bisect vs the Lean model (Model/Bisect.lean): exact at Rat for
dyadic-coefficient affine/cubic/square families (every midpoint is dyadic, so the float64 run
commits no rounding), Float carrier for exp/logistic.  Observable: status, and value up to
`precision` (bitwise equality recorded as a statistic).
predicate: exact bracketing of the true root:  fn(x - precision) <= target <= fn(x)  (increasing),
and for implied volatility |iv(price(sigma)) - sigma| <= precision.
"""
import math
from fractions import Fraction as F
from common import *  # noqa


def f_eval(kind, coef, x):
    if kind == "affine":
        a, b = coef
        return a * x + b
    if kind == "cubic":
        a, b, c = coef
        return a * x * x * x + b * x + c
    if kind == "square":
        a, b = coef
        return a * x * x + b
    raise ValueError(kind)


def gen_case(g, tier):
    kind = g.weighted([("affine", 3), ("cubic", 2), ("square", 1)])
    n = g.small((1, 1, 2, 3, 4, 6))
    dec = g.chance(0.45)
    sgn = -1 if dec else 1
    lo0, hi0 = g.dy(-2, 1, 2), None
    hi0 = lo0 + g.choice([F(1, 2), 1, 2, 4])
    if kind == "square":
        lo0 = abs(lo0)          # x^2 monotone on x >= 0
        hi0 = lo0 + g.choice([F(1, 2), 1, 2])
    scalar_bracket = g.chance(0.3)
    coef, lower, upper, target = [], [], [], []
    for i in range(n):
        if kind == "affine":
            c = [sgn * g.choice([F(1, 4), F(1, 2), 1, 2, 3]), g.dy(-2, 2, 2)]
        elif kind == "cubic":
            c = [sgn * g.choice([F(1, 4), 1, 2]), sgn * g.choice([0, F(1, 2), 1]), g.dy(-2, 2, 2)]
        else:
            c = [sgn * g.choice([F(1, 2), 1, 2]), g.dy(-2, 2, 2)]
        l, u = (lo0, hi0) if scalar_bracket else (lo0 + g.choice([0, F(1, 4), F(-1, 4)]), hi0 + g.choice([0, F(1, 2)]))
        if kind == "square" and l < 0:
            l = F(0)
        fl, fu = f_eval(kind, c, l), f_eval(kind, c, u)
        r = g.r.random()
        if r < 0.1:
            t = fl
        elif r < 0.2:
            t = fu
        elif r < 0.3:
            t = min(fl, fu) + abs(fu - fl) * F(1, 1 << 10)      # near an end
        elif r < 0.4:
            t = max(fl, fu) - abs(fu - fl) * F(1, 1 << 10)
        else:
            t = min(fl, fu) + abs(fu - fl) * F(g.randint(0, 64), 64)
        coef.append(c)
        lower.append(l)
        upper.append(u)
        target.append(t)
    prec = F(1, 1 << g.choice([2, 4, 6, 10, 10, 14, 20]))
    if scalar_bracket:
        prec = max(prec, F(1, 1 << 14))
    # exactness premise of this family (DESIGN 1.3): every midpoint AND its image must be representable in float64.  After j
    # halvings a midpoint has 2 + j fractional bits and |x| < 8, so x^3 needs 3 (2 + j) + 9 bits (+ 2 for the coefficient 1/4):
    # j <= 12, i.e. precision >= 2^-8; x^2 needs 2 (2 + j) + 6 bits: precision >= 2^-14.  Finer precisions would compare a float
    # function that is flat near a root with zero slope (x^3/4 - 1 at 0) with the exact cubic.
    if kind == "cubic":
        prec = max(prec, F(1, 1 << 8))
    elif kind == "square":
        prec = max(prec, F(1, 1 << 14))
    max_iter = g.choice([100, 100, 100, 3, 0, 1000])
    bad_bracket = g.chance(0.04)
    if bad_bracket:
        i = g.randint(0, n - 1)
        if scalar_bracket:
            lower = [hi0] * n
            upper = [lo0] * n if g.chance(0.5) else [hi0] * n
        else:
            lower[i] = upper[i]
    return dict(kind=kind, coef=coef, lower=lower, upper=upper, target=target, precision=prec,
                max_iter=max_iter, dec=dec, scalar=scalar_bracket, bad=bad_bracket)


def to_req(c):
    return {"op": "bisect", "carrier": "rat", "fn": c["kind"], "coef": enc_rat(c["coef"]), "target": enc_rat(c["target"]),
            "lower": enc_rat(c["lower"]), "upper": enc_rat(c["upper"]), "precision": rat_str(c["precision"]),
            "max_iter": c["max_iter"]}


def impl_bisect(torch, c):
    from pfhedge._utils.bisect import bisect
    dt = torch.float64
    co = [torch.tensor([float(r[j]) for r in c["coef"]], dtype=dt) for j in range(len(c["coef"][0]))]
    if c["kind"] == "affine":
        fn = lambda x: co[0] * x + co[1]
    elif c["kind"] == "cubic":
        fn = lambda x: co[0] * x * x * x + co[1] * x + co[2]
    else:
        fn = lambda x: co[0] * x * x + co[1]
    target = torch.tensor([float(x) for x in c["target"]], dtype=dt)
    if c["scalar"]:
        lower, upper = float(c["lower"][0]), float(c["upper"][0])
    else:
        lower = torch.tensor([float(x) for x in c["lower"]], dtype=dt)
        upper = torch.tensor([float(x) for x in c["upper"]], dtype=dt)
    st, v, mut = call_impl(bisect, fn, target, lower, upper, precision=float(c["precision"]), max_iter=c["max_iter"])
    if st == "ok":
        return ("ok", tensor_to_fracs(v.expand(len(c["target"])) if v.dim() == 0 else v)), mut
    return ("err", v), mut


def mres(m):
    if isinstance(m, dict) and "ok" in m:
        return ("ok", dec_rat(m["ok"]))
    if isinstance(m, dict) and "err" in m:
        return ("err", m["err"])
    return ("bad", m)


def check(ctx):
    torch, pfhedge = import_impl()
    g = ctx.gen
    ctx.lean_gate()
    n = 1500 if ctx.tier == "quick" else 25000
    cases = [gen_case(g, ctx.tier) for _ in range(n)]
    impl = []
    for c in cases:
        r, mut = impl_bisect(torch, c)
        if mut:
            ctx.mutated("bisect", mut, to_req(c))
        impl.append(r)
    try:
        model = [mres(m) for m in ctx.driver([to_req(c) for c in cases])]
    except DriverBroken as e:
        ctx.ties_broken.append({"kind": "driver", "detail": str(e)[:1500]})
        model = [("bad", None)] * len(cases)
    for c, ri, rm in zip(cases, impl, model):
        ctx.stats[f"kind={c['kind']}"] += 1
        ctx.stats[f"dec={c['dec']}"] += 1
        ctx.stats[f"scalar_bracket={c['scalar']}"] += 1
        ctx.stats[f"status={ri[0] if ri[0] != 'err' else ri[1]}"] += 1
        ctx.case(to_req(c) | {"scalar": c["scalar"]}, nontrivial=not c["bad"], tag="bisect")
        ctx.traces += 1
        prec = c["precision"]
        width0 = max(u - l for l, u in zip(c["lower"], c["upper"]))
        # -- correspondence on what the property constrains: status, value within precision
        if ri[0] != rm[0] or (ri[0] == "err" and ri[1] != rm[1]):
            ctx.disagree("bisect", to_req(c), ri if ri[0] != "ok" else ("ok", enc_rat(ri[1])),
                         rm if rm[0] != "ok" else ("ok", enc_rat(rm[1])), note="status")
        elif ri[0] == "ok":
            if any(abs(a - b) > prec for a, b in zip(ri[1], rm[1])):
                ctx.disagree("bisect", to_req(c), ("ok", enc_rat(ri[1])), ("ok", enc_rat(rm[1])), note="value beyond precision")
            ctx.stats["bitwise_equal" if ri[1] == rm[1] else "bitwise_different"] += 1
        # -- property predicate (independent of the model)
        if c["bad"]:
            if ri[0] == "ok":
                ctx.fail("bisect accepted a bracket with lower >= upper", to_req(c), key="bisect:bad-bracket")
            continue
        need = 0
        w = width0
        while w > prec:
            w /= 2
            need += 1
        if need > c["max_iter"]:
            if ri != ("err", "runtime_error"):
                ctx.fail("bisect did not stop with an error when max_iter is insufficient", to_req(c), key="bisect:max_iter",
                         detail={"impl": str(ri)[:200], "needed": need})
            continue
        if ri[0] != "ok":
            ctx.fail("bisect raised on a monotone function with the target inside the range", to_req(c), key="bisect:error", detail=ri)
            continue
        for i, x in enumerate(ri[1]):
            co, t = c["coef"][i], c["target"][i]
            l, u = c["lower"][i], c["upper"][i]
            f = lambda y: f_eval(c["kind"], co, y)
            a, b = max(l, x - prec), min(u, x)
            lo_v, hi_v = f(a), f(b)
            inside = (min(lo_v, hi_v) <= t <= max(lo_v, hi_v)) and l <= x <= u
            if not inside:
                ctx.fail("bisect result is not within `precision` of the true root", to_req(c) | {"scalar": c["scalar"]},
                         key="bisect:root", detail={"i": i, "x": rat_str(x), "f(x-prec)": rat_str(lo_v), "f(x)": rat_str(hi_v), "target": rat_str(t)})
                break
    # ---------------- Float families (exp, logistic)
    freqs, fmeta = [], []
    from pfhedge._utils.bisect import bisect
    for _ in range(200 if ctx.tier == "quick" else 3000):
        kind = g.choice(["exp", "logistic"])
        n_ = g.small((1, 2, 3))
        dec = g.chance(0.5)
        sg = -1.0 if dec else 1.0
        coef = [[sg * g.choice([0.5, 1.0, 2.0]), g.choice([0.5, 1.0, 3.0]) if kind == "exp" else g.r.uniform(-1, 1)] for _ in range(n_)]
        lo, hi = g.r.uniform(-2, 0), g.r.uniform(0.5, 2)
        co = [torch.tensor([r[j] for r in coef], dtype=torch.float64) for j in range(2)]
        if kind == "exp":
            fn = lambda x: co[1] * torch.exp(co[0] * x)
            pf = lambda i, x: coef[i][1] * math.exp(coef[i][0] * x)
        else:
            fn = lambda x: 1.0 / (1.0 + torch.exp(-(co[0] * x + co[1])))
            pf = lambda i, x: 1.0 / (1.0 + math.exp(-(coef[i][0] * x + coef[i][1])))
        roots = [g.r.uniform(lo, hi) for _ in range(n_)]
        target = [pf(i, r) for i, r in enumerate(roots)]
        prec = g.choice([1e-3, 1e-6, 1e-9])
        lower = torch.full((n_,), lo, dtype=torch.float64)
        upper = torch.full((n_,), hi, dtype=torch.float64)
        st, v, _ = call_impl(bisect, fn, torch.tensor(target, dtype=torch.float64), lower, upper, precision=prec, max_iter=200)
        case = {"kind": kind, "coef": coef, "lower": lo, "upper": hi, "roots": roots, "precision": prec}
        ctx.case(case, True, tag="bisect_" + kind)
        ctx.traces += 1
        if st != "ok":
            ctx.fail("bisect raised on a monotone function with the target inside the range", case, key="bisect:error", detail=v)
            continue
        got = [float(x) for x in v.tolist()]
        for r, x in zip(roots, got):
            if not (-1e-12 <= x - r <= prec * (1 + 1e-9) + 1e-12):
                ctx.fail("bisect result is not within `precision` of the true root", case, key="bisect:root", detail={"root": r, "x": x})
                break
        freqs.append({"op": "bisect", "carrier": "float", "fn": kind, "coef": enc_flt(coef), "target": enc_flt(target),
                      "lower": enc_flt([lo] * n_), "upper": enc_flt([hi] * n_), "precision": float_bits(prec), "max_iter": 200})
        fmeta.append((case, got, prec))
    try:
        fouts = ctx.driver(freqs)
    except DriverBroken as e:
        ctx.ties_broken.append({"kind": "driver", "detail": str(e)[:1500]})
        fouts = []
    for (case, got, prec), mo in zip(fmeta, fouts):
        if "ok" not in mo or any(abs(a - b) > prec for a, b in zip(got, dec_flt(mo["ok"]))):
            ctx.disagree("bisect_float", case, got, mo)
    # ---------------- implied volatility round trip (predicate on the real modules)
    from pfhedge.nn import BSEuropeanOption, BSLookbackOption, BSEuropeanBinaryOption, BSAmericanBinaryOption
    for _ in range(150 if ctx.tier == "quick" else 1000):
        which = g.choice(["european", "european_put", "lookback", "binary", "american_binary"])
        k = g.choice([0.5, 1.0, 2.0])
        sig = g.r.uniform(0.02, 0.95)
        t = g.choice([0.1, 0.5, 1.0, 2.0])
        dt = torch.float64
        if which in ("binary", "american_binary"):
            s = g.r.uniform(-0.3, -0.02)      # price monotone (increasing) in volatility only out of the money
            if which == "binary":
                # N(d2) increases in w = sigma sqrt(t) only while w^2 < -2s; keep the whole bracket (sigma<=1) there
                t = -s
        else:
            s = g.r.uniform(-0.3, 0.3)
        S, T_, V = (torch.tensor([x], dtype=dt) for x in (s, t, sig))
        prec = g.choice([1e-6, 1e-6, 1e-9, 1e-4])
        try:
            if which == "european":
                m = BSEuropeanOption(strike=k)
                p = m.price(S, T_, V)
                iv = m.implied_volatility(S, T_, p, precision=prec)
            elif which == "european_put":
                m = BSEuropeanOption(call=False, strike=k)
                p = m.price(S, T_, V)
                iv = m.implied_volatility(S, T_, p, precision=prec)
            elif which == "lookback":
                m = BSLookbackOption(strike=k)
                M = torch.tensor([max(s, 0.0) + g.choice([0.0, 0.1])], dtype=dt)
                p = m.price(S, M, T_, V)
                iv = m.implied_volatility(S, M, T_, p, precision=prec)
            elif which == "binary":
                m = BSEuropeanBinaryOption(strike=k)
                p = m.price(S, T_, V)
                iv = m.implied_volatility(S, T_, p, precision=prec)
            else:
                m = BSAmericanBinaryOption(strike=k)
                M = torch.tensor([s], dtype=dt)
                p = m.price(S, M, T_, V)
                iv = m.implied_volatility(S, M, T_, p, precision=prec)
        except Exception as e:  # noqa
            ctx.fail("implied_volatility raised for a price generated by the same module", {"which": which, "s": s, "t": t, "sigma": sig, "k": k},
                     key=f"implied_volatility:{which}:error", detail=repr(e)[:200])
            continue
        case = {"which": which, "s": s, "t": t, "sigma": sig, "k": k, "precision": prec}
        ctx.case(case, True, tag="iv_" + which)
        ctx.traces += 1
        # On the generated states every price is monotone in sigma over the whole bracket (binary: t = -s keeps
        # sigma^2 t < -2s; American binary: hitting probability; European / lookback: vega > 0), so the recovered
        # volatility must be within the REQUESTED precision of the generating one.
        got = float(iv)

        def reprice(sg_):
            vv = torch.tensor([sg_], dtype=dt)
            return float(m.price(S, M, T_, vv)) if which in ("lookback", "american_binary") else float(m.price(S, T_, vv))
        if abs(got - sig) > 2 * prec:
            # ill-conditioned points (vega ~ 0): the price cannot resolve sigma in double precision;
            # there any volatility reproducing the price to float resolution is a correct answer
            if abs(reprice(got) - float(p)) <= 1e-13 * max(k, 1.0):
                ctx.stats["iv_ill_conditioned"] += 1
                continue
            ctx.fail("implied volatility does not reproduce the generating volatility to the requested precision", case,
                     key=f"implied_volatility:{which}", detail={"iv": got, "precision": prec})
    return ctx.finish(
        rule="bisect on dyadic-coefficient affine/cubic/square families (increasing and decreasing, per-element coefficients, tensor and scalar "
             "brackets, targets at/near the bracket ends, precisions 2^-2..2^-20, max_iter in {0,3,100,1000}, lower>=upper), exp/logistic in floats, "
             "implied-volatility round trips for the four BS modules; non-trivial = valid bracket; distinct = sha1 of canonical case")
