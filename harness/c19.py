"""C19 — Bisection and implied volatility invert monotone functions to precision.

correspondence: pfhedge._utils.bisect.bisect vs the Lean model (Model/Bisect.lean): exact at Rat for
dyadic-coefficient affine/cubic/square families (every midpoint is dyadic, so the float64 run
commits no rounding), Float carrier for exp/logistic.  Observable: status, and value up to
`precision` (bitwise equality recorded as a statistic).
predicate: exact bracketing of the true root:  fn(x - precision) <= target <= fn(x)  (increasing),
and for implied volatility |iv(price(sigma)) - sigma| <= precision.
Further input classes: precisions at / below the resolution of the bracket's dtype on an affine family
whose float evaluation is exact -- predicate (error or a point really within `precision`, judged with
Fractions) AND correspondence with the generic model (Model/BisectG.lean, op "bisect_fp") run with IEEE
binary32 / binary64 midpoint and width: error kind, result dtype and every element's bit pattern must
be equal (theorems: Lemmas/C19Float.lean).  Predicate only: prices that DECREASE in volatility
(in-the-money binaries, user pricers through
find_implied_volatility); modules built from a simulated derivative with the state omitted.
The same resolution family through find_implied_volatility (op "bisect_fp" as well) and with max_iter too small for a reachable precision;
every function / pricer handed to the code counts its evaluations (a search that ignores max_iter is stopped and reported).
The modules' implied_volatility (every kind, float32 and float64 data) with precisions at / below the resolution of the data: RuntimeError, or
a volatility really within `precision` of the one that reproduces the price -- never a silently looser answer (predicate only; oracle = a
float64 module on the same numbers).  find_implied_volatility with the caller's max_iter (0 .. 1000) on user pricers and module prices.
The caller's tensors used AGAIN after a call: one pair of bracket tensors of the full shape of the problem (also 0-dim ones) serves a
second and a third call of bisect (new targets in a new tensor, in the caller's previous target tensor refilled in place, or the same
tensor again) -- every such call goes to the model ops "bisect" (Rat and Float carrier) / "bisect_fp" with the bracket as the caller
created it, and is judged by the same root predicate; likewise find_implied_volatility with the caller's own (per-element) bracket
tensors and the modules' implied_volatility with the same state / price tensors (predicate only).
Implied-volatility BATCHES with elements exactly at the money (log_moneyness == 0.0) next to elements off the money ("<kind>+atm": vanilla call / put and
lookback at + above + below the strike, American binary at + below the barrier, European binary call / put at + above the strike -- the side on which the
price moves with the volatility as it does at the money, so that the batch has ONE direction for bisect's `.all()` test): fixed corpus for every seed and
random members, in the vector / reused-tensor round trips and in the resolution class (reachable and unreachable precisions, float32 / float64);
find_implied_volatility(max_iter) on module prices with an at-the-money element.  Same element-wise predicates.
Inputs in layouts with SINGLETON dimensions -- (N, 1) columns, (N, T, 1), (1, N), 0-dim, (1, 1) -- and broadcastable mixtures (state / coefficients in a column, a
row or 0-dim, prices / targets in the full shape): bisect on the dyadic families (op "bisect" on the row-major elements + root predicate), every module kind's
implied_volatility and find_implied_volatility with user pricers; predicates: result shape = broadcast shape of the inputs, element-wise round trip (keys
"...:singleton-dims[:shape|:error]").  Every (kind, layout) pair runs for every seed.
"""
import math
from fractions import Fraction as F
from common import *  # noqa


def f_eval(kind, coef, x):
    if kind == "affine":
        a, b = coef
        return a * x + b
    if kind == "cubic":
        a, b, c = coef
        return a * x * x * x + b * x + c
    if kind == "square":
        a, b = coef
        return a * x * x + b
    raise ValueError(kind)


def pick_target(g, fl, fu):
    """a target inside the range [fl, fu] of the function on the bracket: an end, near an end, or on a 1/64 grid"""
    r = g.r.random()
    if r < 0.1:
        return fl
    if r < 0.2:
        return fu
    if r < 0.3:
        return min(fl, fu) + abs(fu - fl) * F(1, 1 << 10)      # near an end
    if r < 0.4:
        return max(fl, fu) - abs(fu - fl) * F(1, 1 << 10)
    return min(fl, fu) + abs(fu - fl) * F(g.randint(0, 64), 64)


def gen_case(g, tier, n=None, scalar=None):
    """`n` / `scalar`: the number of elements / whether the bracket is one common pair, when the caller fixes them (layout cases)"""
    kind = g.weighted([("affine", 3), ("cubic", 2), ("square", 1)])
    n = g.small((1, 1, 2, 3, 4, 6)) if n is None else n
    dec = g.chance(0.45)
    sgn = -1 if dec else 1
    lo0, hi0 = g.dy(-2, 1, 2), None
    hi0 = lo0 + g.choice([F(1, 2), 1, 2, 4])
    if kind == "square":
        lo0 = abs(lo0)          # x^2 monotone on x >= 0
        hi0 = lo0 + g.choice([F(1, 2), 1, 2])
    scalar_bracket = g.chance(0.3)
    if scalar is not None:
        scalar_bracket = scalar
    coef, lower, upper, target = [], [], [], []
    for i in range(n):
        if kind == "affine":
            c = [sgn * g.choice([F(1, 4), F(1, 2), 1, 2, 3]), g.dy(-2, 2, 2)]
        elif kind == "cubic":
            c = [sgn * g.choice([F(1, 4), 1, 2]), sgn * g.choice([0, F(1, 2), 1]), g.dy(-2, 2, 2)]
        else:
            c = [sgn * g.choice([F(1, 2), 1, 2]), g.dy(-2, 2, 2)]
        l, u = (lo0, hi0) if scalar_bracket else (lo0 + g.choice([0, F(1, 4), F(-1, 4)]), hi0 + g.choice([0, F(1, 2)]))
        if kind == "square" and l < 0:
            l = F(0)
        t = pick_target(g, f_eval(kind, c, l), f_eval(kind, c, u))
        coef.append(c)
        lower.append(l)
        upper.append(u)
        target.append(t)
    prec = F(1, 1 << g.choice([2, 4, 6, 10, 10, 14, 20]))
    if scalar_bracket:
        prec = max(prec, F(1, 1 << 14))
    # exactness premise of this family (DESIGN 1.3): every midpoint AND its image must be representable in float64.  After j
    # halvings a midpoint has 2 + j fractional bits and |x| < 8, so x^3 needs 3 (2 + j) + 9 bits (+ 2 for the coefficient 1/4):
    # j <= 12, i.e. precision >= 2^-8; x^2 needs 2 (2 + j) + 6 bits: precision >= 2^-14.  Finer precisions would compare a float
    # function that is flat near a root with zero slope (x^3/4 - 1 at 0) with the exact cubic.
    if kind == "cubic":
        prec = max(prec, F(1, 1 << 8))
    elif kind == "square":
        prec = max(prec, F(1, 1 << 14))
    max_iter = g.choice([100, 100, 100, 3, 0, 1000])
    bad_bracket = g.chance(0.04)
    if bad_bracket:
        i = g.randint(0, n - 1)
        if scalar_bracket:
            lower = [hi0] * n
            upper = [lo0] * n if g.chance(0.5) else [hi0] * n
        else:
            lower[i] = upper[i]
    return dict(kind=kind, coef=coef, lower=lower, upper=upper, target=target, precision=prec,
                max_iter=max_iter, dec=dec, scalar=scalar_bracket, bad=bad_bracket)


def gen_reuse_case(g, tier):
    """the caller keeps ONE pair of bracket tensors of the full shape of the problem (as torch.full / torch.tensor create them) and
    solves several batches of targets against them: `rounds` = the targets of the successive calls.  The target tensor of a later call
    is a new tensor, the caller's previous target tensor refilled in place by the caller, or the very same tensor again."""
    c = gen_case(g, tier)
    while c["bad"]:
        c = gen_case(g, tier)
    c["scalar"] = False            # a common bracket is held as full-shape tensors too (torch.full)
    rounds = [{"target": c["target"], "target_tensor": "new"}]
    for _ in range(g.choice([1, 2, 2])):
        mode = g.weighted([("new", 3), ("refilled", 2), ("same", 1)])
        if mode == "same":
            tgt = rounds[-1]["target"]
        else:
            tgt = [pick_target(g, f_eval(c["kind"], co, l), f_eval(c["kind"], co, u)) for co, l, u in zip(c["coef"], c["lower"], c["upper"])]
        rounds.append({"target": tgt, "target_tensor": mode})
    c["rounds"] = rounds
    return c


BISECT_LAYOUTS = ["(N,1)", "(N,T,1)", "(1,N)", "0-dim", "(1,1)", "mix:fn(N,1)+target(N,T)", "mix:fn(1,T)+target(N,T)", "mix:bracket-0-dim+rest(N,1)"]


def gen_layout_case(g, tier, layout):
    """the problem laid out in tensors with SINGLETON dimensions -- columns (N, 1), (N, T, 1), a row (1, N), 0-dim, (1, 1) -- and broadcastable
    mixtures: the function's per-element coefficients and its bracket in a column / a row, the targets in the full (N, T) shape; a 0-dim /
    Python-float bracket with columns.  The case is ALSO described flat (row-major over the broadcast shape: coef / lower / upper / target
    per element of the result), which is what the model and the root predicate see; "base" = the data as the caller holds it."""
    N, T = g.choice([2, 3]), g.choice([2, 3, 4])
    full = {"(N,1)": (N, 1), "(N,T,1)": (N, T, 1), "(1,N)": (1, N), "0-dim": (), "(1,1)": (1, 1), "mix:bracket-0-dim+rest(N,1)": (N, 1)}.get(layout, (N, T))
    fn_shape = (N, 1) if layout == "mix:fn(N,1)+target(N,T)" else (1, T) if layout == "mix:fn(1,T)+target(N,T)" else full
    nf = math.prod(fn_shape)
    base = gen_case(g, tier, n=nf, scalar=True if layout == "mix:bracket-0-dim+rest(N,1)" else None)
    if layout == "mix:fn(N,1)+target(N,T)":
        src = [e // T for e in range(N * T)]
    elif layout == "mix:fn(1,T)+target(N,T)":
        src = [e % T for e in range(N * T)]
    else:
        src = list(range(nf))
    target, seen = [], set()
    for i in src:
        if i in seen:
            target.append(pick_target(g, f_eval(base["kind"], base["coef"][i], base["lower"][i]), f_eval(base["kind"], base["coef"][i], base["upper"][i])))
        else:
            target.append(base["target"][i])
            seen.add(i)
    form = g.choice(["pyfloat", "tensor0"]) if base["scalar"] else "tensor"
    return dict(base, coef=[base["coef"][i] for i in src], lower=[base["lower"][i] for i in src], upper=[base["upper"][i] for i in src], target=target,
                layout=layout, full_shape=list(full), fn_shape=list(fn_shape), bracket_form=form,
                base={"coef": base["coef"], "lower": base["lower"], "upper": base["upper"]})


def impl_bisect_layout(torch, c):
    from pfhedge._utils.bisect import bisect
    dt = torch.float64
    b, fs, full = c["base"], tuple(c["fn_shape"]), tuple(c["full_shape"])
    co = [torch.tensor([float(r[j]) for r in b["coef"]], dtype=dt).reshape(fs) for j in range(len(b["coef"][0]))]
    if c["kind"] == "affine":
        fn = lambda x: co[0] * x + co[1]
    elif c["kind"] == "cubic":
        fn = lambda x: co[0] * x * x * x + co[1] * x + co[2]
    else:
        fn = lambda x: co[0] * x * x + co[1]
    target = torch.tensor([float(x) for x in c["target"]], dtype=dt).reshape(full)
    if c["bracket_form"] == "pyfloat":
        lower, upper = float(b["lower"][0]), float(b["upper"][0])
    elif c["bracket_form"] == "tensor0":
        lower, upper = torch.tensor(float(b["lower"][0]), dtype=dt), torch.tensor(float(b["upper"][0]), dtype=dt)
    else:
        lower = torch.tensor([float(x) for x in b["lower"]], dtype=dt).reshape(fs)
        upper = torch.tensor([float(x) for x in b["upper"]], dtype=dt).reshape(fs)
    return call_impl(bisect, fn, target, lower, upper, precision=float(c["precision"]), max_iter=c["max_iter"])


def to_req(c):
    return {"op": "bisect", "carrier": "rat", "fn": c["kind"], "coef": enc_rat(c["coef"]), "target": enc_rat(c["target"]),
            "lower": enc_rat(c["lower"]), "upper": enc_rat(c["upper"]), "precision": rat_str(c["precision"]),
            "max_iter": c["max_iter"]}


def impl_fn(torch, c):
    co = [torch.tensor([float(r[j]) for r in c["coef"]], dtype=torch.float64) for j in range(len(c["coef"][0]))]
    if c["kind"] == "affine":
        return lambda x: co[0] * x + co[1]
    if c["kind"] == "cubic":
        return lambda x: co[0] * x * x * x + co[1] * x + co[2]
    return lambda x: co[0] * x * x + co[1]


def impl_bisect_rounds(torch, c):
    """the successive calls of a gen_reuse_case with the SAME bracket tensor objects -> [(result, mutated paths)] per call"""
    from pfhedge._utils.bisect import bisect
    dt = torch.float64
    fn = impl_fn(torch, c)
    lower = torch.tensor([float(x) for x in c["lower"]], dtype=dt)
    upper = torch.tensor([float(x) for x in c["upper"]], dtype=dt)
    target, outs = None, []
    for rd in c["rounds"]:
        vals = torch.tensor([float(x) for x in rd["target"]], dtype=dt)
        if target is None or rd["target_tensor"] == "new":
            target = vals
        elif rd["target_tensor"] == "refilled":
            target.copy_(vals)              # the caller's own update of its own tensor, between the calls
        st, v, mut = call_impl(bisect, fn, target, lower, upper, precision=float(c["precision"]), max_iter=c["max_iter"])
        outs.append((("ok", tensor_to_fracs(v.expand(len(rd["target"])) if v.dim() == 0 else v)) if st == "ok" else ("err", v), mut))
    return outs


def impl_bisect(torch, c):
    from pfhedge._utils.bisect import bisect
    dt = torch.float64
    fn = impl_fn(torch, c)
    target = torch.tensor([float(x) for x in c["target"]], dtype=dt)
    if c["scalar"]:
        lower, upper = float(c["lower"][0]), float(c["upper"][0])
    else:
        lower = torch.tensor([float(x) for x in c["lower"]], dtype=dt)
        upper = torch.tensor([float(x) for x in c["upper"]], dtype=dt)
    st, v, mut = call_impl(bisect, fn, target, lower, upper, precision=float(c["precision"]), max_iter=c["max_iter"])
    if st == "ok":
        return ("ok", tensor_to_fracs(v.expand(len(c["target"])) if v.dim() == 0 else v)), mut
    return ("err", v), mut


def mres(m):
    if isinstance(m, dict) and "ok" in m:
        return ("ok", dec_rat(m["ok"]))
    if isinstance(m, dict) and "err" in m:
        return ("err", m["err"])
    return ("bad", m)


class BudgetExceeded(Exception):
    """raised by the harness's counting functions / pricers when the code under test keeps evaluating them far beyond `max_iter`"""


def eval_budget(max_iter):
    """`max_iter` bounds the number of bisection steps; each step evaluates the function once, plus the evaluations at the two ends of the
    bracket that decide the direction (twice for a decreasing function): max_iter + 4 in the code as it is.  The budget is deliberately
    generous (any sensible variant of the loop stays inside it); a search that ignores max_iter does not."""
    return 2 * max_iter + 16


def binade_gap(x, mant):
    """spacing of the floats with `mant` mantissa bits in the binade that contains x > 0"""
    return 2.0 ** (math.floor(math.log2(x)) - (mant - 1))


RESOLUTION_PRECISIONS = {
    # spacing of the floats in [1, 2): 2^-23 = 1.19e-7 (float32), 2^-52 = 2.2e-16 (float64)
    "float32": ([1e-9, 1e-10, 1e-8, 1e-7, 2.0 ** -30, 0.0], [2.0 ** -23, 1e-6, 1e-4]),
    "float64": ([1e-18, 1e-17, 1e-16, 2.0 ** -60, 0.0], [2.0 ** -52, 1e-15, 1e-12, 1e-9]),
}


def gen_resolution_case(g):
    """affine f_i(x) = a_i (x - c_i) on a bracket inside [1, 2] with a_i = +-2^j: x - c_i is exact in floating point for x, c_i in
    [1, 2] (Sterbenz) and so is the scaling, hence every decision of the bisection is the decision of the exact function.  The
    target a_i k 2^-e puts the true root c_i + k 2^-e strictly between two neighbouring floats of the bracket's dtype (k != 0)."""
    target_dt = g.choice(["float32", "float64"])
    # a bracket given as Python floats becomes a float32 tensor (torch.as_tensor) whatever the dtype of the targets
    form = g.weighted([("tensor", 3), ("tensor0", 1), ("pyfloat", 1)])
    bracket_dt = "float32" if form == "pyfloat" else target_dt
    # entry point: bisect itself, or find_implied_volatility(pricer, price, lower, upper, precision, max_iter, **params) with the family as the
    # pricer (volatility = x): it converts the bracket to the dtype of the prices and hands precision / max_iter on
    entry = g.weighted([("bisect", 3), ("find_implied_volatility", 2)])
    if entry == "find_implied_volatility":
        bracket_dt = target_dt
    mant = MANT[bracket_dt]
    n = g.small((1, 1, 2, 3, 4))
    dec = g.chance(0.5)
    per_elem = form == "tensor" and g.chance(0.5)
    l0 = g.choice([F(1), F(5, 4), F(3, 2)])
    u0 = l0 + g.choice([F(1, 4), F(1, 2)])
    lower, upper, a, c, k, e = [], [], [], [], [], []
    for i in range(n):
        l, u = l0, u0
        if per_elem:
            l = g.choice([F(1), F(5, 4), F(3, 2)])
            u = l + g.choice([F(1, 4), F(1, 2)])
        lower.append(l)
        upper.append(u)
        a.append((-1 if dec else 1) * g.choice([F(1, 2), F(1), F(2), F(4)]))
        c.append(l + (u - l) * F(g.randint(1, (1 << 12) - 1), 1 << 12))
        k.append(g.choice([0, 1, -1, 1, -1, 3, -3, 5, -5]))
        e.append(mant - 1 + g.randint(2, 9))
    unreach, reach = RESOLUTION_PRECISIONS[bracket_dt]
    prec = g.choice(unreach) if g.chance(0.7) else g.choice(reach)
    max_iter = g.choice([100, 200, 1000, 100, 30, 5, 0])        # also budgets too small for a reachable precision
    if prec == 0.0 and g.chance(0.5):
        max_iter = 1200            # more halvings than a double has exponents
    case = dict(target_dtype=target_dt, bracket_dtype=bracket_dt, form=form, dec=dec, lower=lower, upper=upper, a=a, c=c, k=k, e=e,
                precision=prec, max_iter=max_iter)
    if entry != "bisect":
        case["entry"] = entry
    # the same bracket objects (tensors of the full shape, 0-dim tensors or floats) serve up to two further calls for other functions of
    # the family (new c_i, k_i, e_i: roots elsewhere in the bracket): each round is a complete case of its own, "round" = its index
    rounds = [case]
    for j in range(g.choice([0, 0, 1, 2])):
        c2, k2, e2 = [], [], []
        for l, u in zip(lower, upper):
            c2.append(l + (u - l) * F(g.randint(1, (1 << 12) - 1), 1 << 12))
            k2.append(g.choice([0, 1, -1, 1, -1, 3, -3, 5, -5]))
            e2.append(mant - 1 + g.randint(2, 9))
        rounds.append(dict(case, c=c2, k=k2, e=e2, round=j + 1))
    return rounds


def run_resolution_case(torch, c, bracket=None):
    """`bracket`: the (lower, upper) objects of an earlier call to be used again; returns them as third component"""
    from pfhedge._utils.bisect import bisect
    tdt, bdt = getattr(torch, c["target_dtype"]), getattr(torch, c["bracket_dtype"])
    A = torch.tensor([float(x) for x in c["a"]], dtype=tdt)
    C = torch.tensor([float(x) for x in c["c"]], dtype=tdt)
    target = torch.tensor([float(a * F(k, 1 << e)) for a, k, e in zip(c["a"], c["k"], c["e"])], dtype=tdt)
    calls = [0]

    def fn(x):
        calls[0] += 1
        if calls[0] > eval_budget(c["max_iter"]):
            raise BudgetExceeded(f"{calls[0]} evaluations with max_iter={c['max_iter']}")
        return A * (x - C)
    if bracket is not None:
        lower, upper = bracket
    elif c["form"] == "pyfloat":
        lower, upper = float(c["lower"][0]), float(c["upper"][0])
    elif c["form"] == "tensor0":
        lower, upper = torch.tensor(float(c["lower"][0]), dtype=bdt), torch.tensor(float(c["upper"][0]), dtype=bdt)
    else:
        lower = torch.tensor([float(x) for x in c["lower"]], dtype=bdt)
        upper = torch.tensor([float(x) for x in c["upper"]], dtype=bdt)
    # the data is what the exact description says it is (nothing was rounded on the way into the tensors)
    assert [F(x) for x in target.tolist()] == [a * F(k, 1 << e) for a, k, e in zip(c["a"], c["k"], c["e"])]
    assert [F(x) for x in C.tolist()] == c["c"]
    if c.get("entry") == "find_implied_volatility":
        from pfhedge._utils.bisect import find_implied_volatility
        st, v, mut = call_impl(find_implied_volatility, lambda volatility, shift: fn(volatility + shift), target, lower=lower, upper=upper,
                               precision=c["precision"], max_iter=c["max_iter"], shift=0.0)
    else:
        st, v, mut = call_impl(bisect, fn, target, lower, upper, precision=c["precision"], max_iter=c["max_iter"])
    if st == "ok":
        ve = v.expand(len(c["a"])) if v.dim() == 0 else v
        # float32 -> float64 is exact and injective (no NaN here), so these are the element's bits
        return ("ok", tensor_to_fracs(ve), str(v.dtype).replace("torch.", ""), enc_flt(ve.double().reshape(-1).tolist())), mut, (lower, upper)
    return ("err", v, None, None), mut, (lower, upper)


def to_fp_req(c):
    """the same case for the generic model with float arithmetic on the bracket (op bisect_fp).  Every number is exactly representable
    in its dtype (asserted in run_resolution_case), float32 data travels as the equal double.  A 0-dim / Python-float bracket is
    sent broadcast to the shape of the targets (the first `where` does that in the code).  A Python-float bracket is a float32 tensor
    whatever the targets' dtype; `fn` then computes in the targets' dtype (type promotion) -- "bracket" / "value" carriers."""
    n = len(c["a"])
    lo = c["lower"] if c["form"] == "tensor" else [c["lower"][0]] * n
    hi = c["upper"] if c["form"] == "tensor" else [c["upper"][0]] * n
    return {"op": "bisect_fp", "bracket": c["bracket_dtype"], "value": c["target_dtype"],
            "a": enc_flt([float(x) for x in c["a"]]), "c": enc_flt([float(x) for x in c["c"]]),
            "target": enc_flt([float(a * F(k, 1 << e)) for a, k, e in zip(c["a"], c["k"], c["e"])]),
            "lower": enc_flt([float(x) for x in lo]), "upper": enc_flt([float(x) for x in hi]),
            "precision": float_bits(c["precision"]), "max_iter": c["max_iter"]}


def check(ctx):
    torch, pfhedge = import_impl()
    g = ctx.gen
    ctx.lean_gate()
    n = 1500 if ctx.tier == "quick" else 25000
    cases = [gen_case(g, ctx.tier) for _ in range(n)]
    impl = []
    for c in cases:
        r, mut = impl_bisect(torch, c)
        if mut:
            ctx.mutated("bisect", mut, to_req(c))
        impl.append(r)
    # the caller's bracket (and target) tensors used again: second and third call with the same tensor objects.  Every call is one
    # entry of `cases` (round 0: a first call like the ones above); the model gets the bracket as the caller created it.
    for _ in range(250 if ctx.tier == "quick" else 4000):
        c = gen_reuse_case(g, ctx.tier)
        for j, (rd, (r, mut)) in enumerate(zip(c["rounds"], impl_bisect_rounds(torch, c))):
            cj = {k_: v_ for k_, v_ in c.items() if k_ != "rounds"} | {"target": rd["target"], "round": j, "target_tensor": rd["target_tensor"]}
            if mut:
                ctx.mutated("bisect", mut, to_req(cj) | {"round": j})
            cases.append(cj)
            impl.append(r)
    # tensors with singleton dimensions and broadcastable mixtures (every layout for every seed, then random ones): the result must have the
    # broadcast shape of the inputs; its elements (row-major) go to the model op and to the root predicate like any other case
    lay_n = len(BISECT_LAYOUTS) * 3 + (40 if ctx.tier == "quick" else 1500)
    for it_ in range(lay_n):
        c = gen_layout_case(g, ctx.tier, BISECT_LAYOUTS[it_ % len(BISECT_LAYOUTS)] if it_ < len(BISECT_LAYOUTS) * 3 else g.choice(BISECT_LAYOUTS))
        st, v, mut = impl_bisect_layout(torch, c)
        lreq = to_req(c) | {k_: c[k_] for k_ in ("layout", "full_shape", "fn_shape", "bracket_form")}
        if mut:
            ctx.mutated("bisect", mut, lreq)
        if st == "ok":
            full = tuple(c["full_shape"])
            # a bracket that is within the precision from the start is handed back as it came (no step broadcasts it): any shape that
            # broadcasts to the full one is accepted there; after at least one step the result has the broadcast shape of the inputs
            no_step = max(u - l for l, u in zip(c["lower"], c["upper"])) <= c["precision"]
            ok_shape = tuple(v.shape) == full
            if not ok_shape and no_step:
                try:
                    ok_shape = tuple(torch.broadcast_shapes(tuple(v.shape), full)) == full
                except RuntimeError:
                    ok_shape = False
            if not ok_shape:
                ctx.case(lreq, not c["bad"], tag="bisect_layout")
                ctx.traces += 1
                ctx.fail("bisect on tensors with singleton dimensions returned a tensor whose shape is not the broadcast shape of the inputs "
                         "(the search is no longer element-wise)", lreq, key="bisect:singleton-dims:shape",
                         detail={"result_shape": list(v.shape), "broadcast_shape_of_the_inputs": list(full)})
                continue
            r = ("ok", tensor_to_fracs(v.expand(full).reshape(-1)))
        else:
            r = ("err", v)
        cases.append(c)
        impl.append(r)
    try:
        model = [mres(m) for m in ctx.driver([to_req(c) for c in cases])]
    except DriverBroken as e:
        ctx.ties_broken.append({"kind": "driver", "detail": str(e)[:1500]})
        model = [("bad", None)] * len(cases)
    for c, ri, rm in zip(cases, impl, model):
        ctx.stats[f"kind={c['kind']}"] += 1
        ctx.stats[f"dec={c['dec']}"] += 1
        ctx.stats[f"scalar_bracket={c['scalar']}"] += 1
        ctx.stats[f"status={ri[0] if ri[0] != 'err' else ri[1]}"] += 1
        # kp: the input class of the failure keys -- a first call, or a later call on bracket tensors that were used before
        kp = "bisect:reused-bracket" if c.get("round", 0) > 0 else "bisect"
        again = " (second or later call with the same bracket tensors)" if c.get("round", 0) > 0 else ""
        if "layout" in c:
            kp, again = "bisect:singleton-dims", " (tensors with singleton dimensions: " + c["layout"] + ")"
            creq = to_req(c) | {k_: c[k_] for k_ in ("layout", "full_shape", "fn_shape", "bracket_form")}
            ctx.case(creq, nontrivial=not c["bad"], tag="bisect_layout")
            ctx.stats[f"bisect_layout={c['layout']}"] += 1
        elif "round" in c:
            creq = to_req(c) | {"scalar": False, "round": c["round"], "target_tensor": c["target_tensor"]}
            ctx.case(creq, nontrivial=True, tag="bisect_reused_bracket" if c["round"] > 0 else "bisect_full_shape_bracket_first_call")
            ctx.stats[f"reused_bracket:round={c['round']}:target_tensor={c['target_tensor']}"] += 1
        else:
            creq = to_req(c)
            ctx.case(to_req(c) | {"scalar": c["scalar"]}, nontrivial=not c["bad"], tag="bisect")
        ctx.traces += 1
        prec = c["precision"]
        width0 = max(u - l for l, u in zip(c["lower"], c["upper"]))
        # -- correspondence on what the property constrains: status, value within precision
        if ri[0] != rm[0] or (ri[0] == "err" and ri[1] != rm[1]):
            ctx.disagree("bisect", creq, ri if ri[0] != "ok" else ("ok", enc_rat(ri[1])),
                         rm if rm[0] != "ok" else ("ok", enc_rat(rm[1])), note="status")
        elif ri[0] == "ok":
            if any(abs(a - b) > prec for a, b in zip(ri[1], rm[1])):
                ctx.disagree("bisect", creq, ("ok", enc_rat(ri[1])), ("ok", enc_rat(rm[1])), note="value beyond precision")
            ctx.stats["bitwise_equal" if ri[1] == rm[1] else "bitwise_different"] += 1
        # -- property predicate (independent of the model)
        if c["bad"]:
            if ri[0] == "ok":
                ctx.fail("bisect accepted a bracket with lower >= upper", creq, key="bisect:bad-bracket")
            continue
        need = 0
        w = width0
        while w > prec:
            w /= 2
            need += 1
        if need > c["max_iter"]:
            if ri != ("err", "runtime_error"):
                ctx.fail("bisect did not stop with an error when max_iter is insufficient" + again, creq, key=kp + ":max_iter",
                         detail={"impl": str(ri)[:200], "needed": need})
            continue
        if ri[0] != "ok":
            ctx.fail("bisect raised on a monotone function with the target inside the range" + again, creq, key=kp + ":error", detail=ri)
            continue
        for i, x in enumerate(ri[1]):
            co, t = c["coef"][i], c["target"][i]
            l, u = c["lower"][i], c["upper"][i]
            f = lambda y: f_eval(c["kind"], co, y)
            a, b = max(l, x - prec), min(u, x)
            lo_v, hi_v = f(a), f(b)
            inside = (min(lo_v, hi_v) <= t <= max(lo_v, hi_v)) and l <= x <= u
            if not inside:
                ctx.fail("bisect result is not within `precision` of the true root" + again, creq | {"scalar": c["scalar"]},
                         key=kp + ":root", detail={"i": i, "x": rat_str(x), "f(x-prec)": rat_str(lo_v), "f(x)": rat_str(hi_v), "target": rat_str(t)})
                break
    # ---------------- Float families (exp, logistic); the full-shape bracket tensors of a case serve one to three successive calls
    # (new roots each time), every call also goes to the model with the bracket as the caller created it
    freqs, fmeta = [], []
    from pfhedge._utils.bisect import bisect
    for _ in range(200 if ctx.tier == "quick" else 3000):
        kind = g.choice(["exp", "logistic"])
        n_ = g.small((1, 2, 3))
        dec = g.chance(0.5)
        sg = -1.0 if dec else 1.0
        coef = [[sg * g.choice([0.5, 1.0, 2.0]), g.choice([0.5, 1.0, 3.0]) if kind == "exp" else g.r.uniform(-1, 1)] for _ in range(n_)]
        lo, hi = g.r.uniform(-2, 0), g.r.uniform(0.5, 2)
        co = [torch.tensor([r[j] for r in coef], dtype=torch.float64) for j in range(2)]
        if kind == "exp":
            fn = lambda x: co[1] * torch.exp(co[0] * x)
            pf = lambda i, x: coef[i][1] * math.exp(coef[i][0] * x)
        else:
            fn = lambda x: 1.0 / (1.0 + torch.exp(-(co[0] * x + co[1])))
            pf = lambda i, x: 1.0 / (1.0 + math.exp(-(coef[i][0] * x + coef[i][1])))
        lower = torch.full((n_,), lo, dtype=torch.float64)
        upper = torch.full((n_,), hi, dtype=torch.float64)
        for rnd in range(g.choice([1, 2, 3])):
            roots = [g.r.uniform(lo, hi) for _ in range(n_)]
            target = [pf(i, r) for i, r in enumerate(roots)]
            prec = g.choice([1e-3, 1e-6, 1e-9])
            st, v, mut = call_impl(bisect, fn, torch.tensor(target, dtype=torch.float64), lower, upper, precision=prec, max_iter=200)
            case = {"kind": kind, "coef": coef, "lower": lo, "upper": hi, "roots": roots, "precision": prec}
            if rnd:
                case["call_with_the_same_bracket_tensors"] = rnd + 1
            kp = "bisect:reused-bracket" if rnd else "bisect"
            ctx.case(case, True, tag="bisect_" + kind + ("_reused_bracket" if rnd else ""))
            ctx.traces += 1
            if mut:
                ctx.mutated("bisect", mut, case)
            if st != "ok":
                ctx.fail("bisect raised on a monotone function with the target inside the range", case, key=kp + ":error", detail=v)
                continue
            got = [float(x) for x in v.tolist()]
            for r, x in zip(roots, got):
                if not (-1e-12 <= x - r <= prec * (1 + 1e-9) + 1e-12):
                    ctx.fail("bisect result is not within `precision` of the true root", case, key=kp + ":root", detail={"root": r, "x": x})
                    break
            freqs.append({"op": "bisect", "carrier": "float", "fn": kind, "coef": enc_flt(coef), "target": enc_flt(target),
                          "lower": enc_flt([lo] * n_), "upper": enc_flt([hi] * n_), "precision": float_bits(prec), "max_iter": 200})
            fmeta.append((case, got, prec))
    try:
        fouts = ctx.driver(freqs)
    except DriverBroken as e:
        ctx.ties_broken.append({"kind": "driver", "detail": str(e)[:1500]})
        fouts = []
    for (case, got, prec), mo in zip(fmeta, fouts):
        if "ok" not in mo or any(abs(a - b) > prec for a, b in zip(got, dec_flt(mo["ok"]))):
            ctx.disagree("bisect_float", case, got, mo)
    # ---------------- implied volatility round trip (predicate on the real modules)
    from pfhedge.nn import BSEuropeanOption, BSLookbackOption, BSEuropeanBinaryOption, BSAmericanBinaryOption
    # the European binary price N(d2) (call) / 1 - N(d2) (put), d2 = s/w - w/2, w = sigma sqrt(t): for s >= 0 the call DEcreases and the
    # put INcreases in sigma everywhere; for s < 0 the call increases and the put decreases while w^2 < -2s
    BINARY_KINDS = ["binary_itm", "binary_atm", "binary_put_otm", "binary_put_itm"]
    IV_KINDS_LAYOUT = ["european", "european_put", "lookback", "binary", "american_binary"] + BINARY_KINDS
    for _ in range(270 if ctx.tier == "quick" else 1800):
        which = g.choice(["european", "european_put", "lookback", "binary", "american_binary"] + BINARY_KINDS)
        k = g.choice([0.5, 1.0, 2.0])
        sig = g.r.uniform(0.02, 0.95)
        t = g.choice([0.1, 0.5, 1.0, 2.0])
        dt = torch.float64
        if which in ("binary", "american_binary", "binary_put_itm"):
            s = g.r.uniform(-0.3, -0.02)      # price monotone (increasing) in volatility only out of the money
            if which != "american_binary":
                # N(d2) increases in w = sigma sqrt(t) only while w^2 < -2s; keep the whole bracket (sigma<=1) there
                t = -s
        elif which in ("binary_itm", "binary_put_otm"):
            s = g.r.uniform(0.0, 0.3)
        elif which == "binary_atm":
            s = 0.0
        else:
            s = g.r.uniform(-0.3, 0.3)
        S, T_, V = (torch.tensor([x], dtype=dt) for x in (s, t, sig))
        prec = g.choice([1e-6, 1e-6, 1e-9, 1e-4])
        try:
            if which == "european":
                m = BSEuropeanOption(strike=k)
                p = m.price(S, T_, V)
                iv = m.implied_volatility(S, T_, p, precision=prec)
            elif which == "european_put":
                m = BSEuropeanOption(call=False, strike=k)
                p = m.price(S, T_, V)
                iv = m.implied_volatility(S, T_, p, precision=prec)
            elif which == "lookback":
                m = BSLookbackOption(strike=k)
                M = torch.tensor([max(s, 0.0) + g.choice([0.0, 0.1])], dtype=dt)
                p = m.price(S, M, T_, V)
                iv = m.implied_volatility(S, M, T_, p, precision=prec)
            elif which == "binary":
                m = BSEuropeanBinaryOption(strike=k)
                p = m.price(S, T_, V)
                iv = m.implied_volatility(S, T_, p, precision=prec)
            elif which in BINARY_KINDS:
                m = BSEuropeanBinaryOption(call="put" not in which, strike=k)
                p = m.price(S, T_, V)
                iv = m.implied_volatility(S, T_, p, precision=prec)
            else:
                m = BSAmericanBinaryOption(strike=k)
                M = torch.tensor([s], dtype=dt)
                p = m.price(S, M, T_, V)
                iv = m.implied_volatility(S, M, T_, p, precision=prec)
        except Exception as e:  # noqa
            ctx.fail("implied_volatility raised for a price generated by the same module", {"which": which, "s": s, "t": t, "sigma": sig, "k": k},
                     key=f"implied_volatility:{which}:error", detail=repr(e)[:200])
            continue
        case = {"which": which, "s": s, "t": t, "sigma": sig, "k": k, "precision": prec}
        ctx.case(case, True, tag="iv_" + which)
        ctx.traces += 1
        # On the generated states every price is monotone in sigma over the whole bracket (binary: t = -s keeps
        # sigma^2 t < -2s; American binary: hitting probability; European / lookback: vega > 0), so the recovered
        # volatility must be within the REQUESTED precision of the generating one.
        got = float(iv)

        def reprice(sg_):
            vv = torch.tensor([sg_], dtype=dt)
            return float(m.price(S, M, T_, vv)) if which in ("lookback", "american_binary") else float(m.price(S, T_, vv))
        if abs(got - sig) > 2 * prec:
            # ill-conditioned points (vega ~ 0): the price cannot resolve sigma in double precision;
            # there any volatility reproducing the price to float resolution is a correct answer
            if abs(reprice(got) - float(p)) <= 1e-13 * max(k, 1.0):
                ctx.stats["iv_ill_conditioned"] += 1
                continue
            ctx.fail("implied volatility does not reproduce the generating volatility to the requested precision", case,
                     key=f"implied_volatility:{which}", detail={"iv": got, "precision": prec})
    # ---------------- the modules' implied_volatility called again with the SAME tensor objects: the state tensors (full shape, several
    # elements) serve two or three calls; the price tensor of a later call is a new tensor, the caller's previous one refilled in place
    # by the caller with the prices of new volatilities, or the very same tensor again.  Same predicate as above, element-wise.
    # BATCHES that contain elements EXACTLY at the money (log_moneyness == 0.0) next to elements off the money ("<kind>+atm"), for every module kind whose
    # batch the bisection can search in ONE direction (its direction test is one `.all()` over the batch): vanilla calls / puts and lookbacks (price rises
    # with the volatility everywhere: at, above and below the strike in one batch), American binary (at / below the barrier), and the European binary on the
    # side of the strike where it moves like at the money -- N(d2), d2 = s/w - w/2, falls in w for every s >= 0 (s = 0: N(-w/2)), so a call batch with
    # s >= 0 falls and a put batch with s >= 0 rises throughout.  (A European binary batch with s < 0 AND s >= 0 elements has no common direction: the code as
    # it is does not search it, and it is not generated.)  Every element is monotone in volatility, so the element-wise predicate above applies unchanged.
    # A fixed corpus first (every seed), then the kinds take part in the random choice.
    MIXED_ATM = {"european+atm": "european", "european_put+atm": "european_put", "lookback+atm": "lookback", "american_binary+atm": "american_binary",
                 "binary_itm+atm": "binary_itm", "binary_put_otm+atm": "binary_put_otm"}

    def atm_roles(gg, label, n_):
        """which elements of a "+atm" batch are exactly at the money / strictly above / strictly below the strike (the rest: as the kind draws them)"""
        zi = gg.randint(0, n_ - 1)
        roles = {zi: "atm", (zi + 1) % n_: "below" if label == "american_binary+atm" else "above"}
        if n_ >= 3 and label in ("european+atm", "european_put+atm", "lookback+atm"):
            roles[(zi + 2) % n_] = "below"
        if n_ >= 4 and gg.chance(0.5):
            roles[(zi + 3) % n_] = "atm"
        return roles

    def atm_value(gg, role, s):
        return 0.0 if role == "atm" else gg.r.uniform(0.005, 0.3) if role == "above" else -gg.r.uniform(0.005, 0.3) if role == "below" else s
    iv_vec_corpus = [(w_, n__) for w_ in MIXED_ATM for n__ in (2, 4)]
    for it_ in range(len(iv_vec_corpus) + (70 if ctx.tier == "quick" else 700)):
        label = g.choice(["european", "european_put", "lookback", "binary", "american_binary"] + BINARY_KINDS + list(MIXED_ATM))
        k = g.choice([0.5, 1.0, 2.0])
        n_ = g.small((1, 2, 3, 4))
        if it_ < len(iv_vec_corpus):
            label, n_ = iv_vec_corpus[it_]
        which = MIXED_ATM.get(label, label)          # the module kind; `label` names the input class (tags, failure keys)
        roles = {}
        if label in MIXED_ATM:
            n_ = max(n_, 2)
            roles = atm_roles(g, label, n_)
        dt = torch.float64
        ss, ts, ms = [], [], []
        for _i in range(n_):
            t = g.choice([0.1, 0.5, 1.0, 2.0])
            if which in ("binary", "american_binary", "binary_put_itm"):
                s = g.r.uniform(-0.3, -0.02)
                if which != "american_binary":
                    t = -s
            elif which in ("binary_itm", "binary_put_otm"):
                s = g.r.uniform(0.0, 0.3)
            elif which == "binary_atm":
                s = 0.0
            else:
                s = g.r.uniform(-0.3, 0.3)
            s = atm_value(g, roles.get(_i), s)
            ss.append(s)
            ts.append(t)
            ms.append(s if which == "american_binary" else max(s, 0.0) + g.choice([0.0, 0.1]))
        prec = g.choice([1e-6, 1e-6, 1e-9, 1e-4])
        if which in ("european", "european_put"):
            m = BSEuropeanOption(call=which == "european", strike=k)
        elif which == "lookback":
            m = BSLookbackOption(strike=k)
        elif which == "american_binary":
            m = BSAmericanBinaryOption(strike=k)
        else:
            m = BSEuropeanBinaryOption(call="put" not in which, strike=k)
        S, T_ = torch.tensor(ss, dtype=dt), torch.tensor(ts, dtype=dt)
        state = (S, torch.tensor(ms, dtype=dt), T_) if which in ("lookback", "american_binary") else (S, T_)
        P, sigs = None, None
        for rnd in range(g.choice([2, 3])):
            mode = "new" if rnd == 0 else g.weighted([("refilled", 3), ("new", 2), ("same", 1)])
            if mode != "same":
                sigs = [g.r.uniform(0.02, 0.95) for _i in range(n_)]
            case = {"which": label, "s": ss, "t": ts, "sigma": sigs, "k": k, "precision": prec, "call_with_the_same_state_tensors": rnd + 1,
                    "price_tensor": mode}
            if which in ("lookback", "american_binary"):
                case["max_log_moneyness"] = ms
            sfx = ":reused-tensors" if rnd else ""
            st, pnew, _m = call_impl(m.price, *state, torch.tensor(sigs, dtype=dt))
            if st == "ok" and mode == "new":
                P = pnew
            elif st == "ok" and mode == "refilled":
                P.copy_(pnew)                      # the caller's own update of its own tensor, between the calls
            if st == "ok":
                st, iv, mut = call_impl(m.implied_volatility, *state, P, precision=prec)
            if st != "ok":
                ctx.fail("implied_volatility raised for a price generated by the same module", case,
                         key=f"implied_volatility:{label}{sfx}:error", detail=pnew if isinstance(pnew, str) else iv)
                break
            ctx.case(case, True, tag="iv_" + label + ("_reused_tensors" if rnd else "_vector"))
            ctx.stats[f"iv_reused_tensors:price_tensor={mode}"] += 1
            ctx.traces += 1
            if mut:
                ctx.mutated(f"implied_volatility:{label}", mut, case)
            if tuple(iv.shape) != (n_,):
                ctx.fail("implied_volatility returned a tensor of another shape than the price", case,
                         key=f"implied_volatility:{label}{sfx}:error", detail=list(iv.shape))
                break
            far = (iv - torch.tensor(sigs, dtype=dt)).abs() > 2 * prec
            if bool(far.any()):
                # ill-conditioned elements (vega ~ 0): any volatility reproducing the price to float resolution is a correct answer
                bad = far & ~((m.price(*state, iv) - P).abs() <= 1e-13 * max(k, 1.0))
                ctx.stats["iv_ill_conditioned"] += int((far & ~bad).sum())
                if bool(bad.any()):
                    i = int(bad.nonzero()[0])
                    ctx.fail("implied volatility does not reproduce the generating volatility to the requested precision"
                             + (" when the state / price tensors of an earlier call are used again" if rnd else ""), case,
                             key=f"implied_volatility:{label}{sfx}", detail={"i": i, "log_moneyness": ss[i], "iv": float(iv[i]), "sigma": sigs[i], "precision": prec})
    # ---------------- find_implied_volatility with user pricers that are monotone in volatility in either direction
    from pfhedge._utils.bisect import find_implied_volatility
    for _ in range(120 if ctx.tier == "quick" else 1200):
        form = g.choice(["exp", "rational", "square", "affine"])
        dec = g.chance(0.6)
        n_ = g.small((1, 2, 3, 5))
        A = [g.r.uniform(0.5, 3.0) for _ in range(n_)]
        B = [g.r.uniform(0.5, 2.0) for _ in range(n_)]
        sg = -1.0 if dec else 1.0
        At, Bt = torch.tensor(A, dtype=torch.float64), torch.tensor(B, dtype=torch.float64)

        # increasing base h(v) on [0.001, 1] with slope >= 0.1 there; the pricer is sg * A * h(B, v) (+ an offset parameter)
        def h(b, v, tt):
            if form == "exp":
                return tt.exp(b * v)
            if form == "rational":
                return v / (b + v) + v
            if form == "square":
                return (v + b) * (v + b)
            return b * v

        def pricer(volatility, scale, shape, offset=0.0):
            return sg * scale * h(shape, volatility, torch) + offset
        off = g.choice([0.0, g.r.uniform(-1, 1)])
        sigs = [g.r.uniform(0.002, 0.999) for _ in range(n_)]
        price = torch.tensor([sg * a * h(b, v, math) + off for a, b, v in zip(A, B, sigs)], dtype=torch.float64)
        prec = g.choice([1e-4, 1e-6, 1e-9])
        # the search bracket: the default one, or the caller's own tensors (0-dim, or one bracket per element in the full shape of the
        # prices) which then serve a second and a third call with the prices of other volatilities inside them
        bracket = g.weighted([("default", 2), ("tensor0", 1), ("per_element", 2)])
        lo_b, hi_b, kw = [0.001] * n_, [1.0] * n_, {}
        if bracket == "tensor0":
            kw = dict(lower=torch.tensor(0.001, dtype=torch.float64), upper=torch.tensor(1.0, dtype=torch.float64))
        elif bracket == "per_element":
            lo_b = [max(0.001, v - g.r.uniform(0.001, 0.5)) for v in sigs]
            hi_b = [min(1.0, v + g.r.uniform(0.001, 0.5)) for v in sigs]
            kw = dict(lower=torch.tensor(lo_b, dtype=torch.float64), upper=torch.tensor(hi_b, dtype=torch.float64))
        direction = "decreasing" if dec else "increasing"
        for rnd in range(g.choice([1, 2, 3])):
            mode = "new"
            if rnd:
                mode = g.weighted([("refilled", 3), ("new", 2), ("same", 1)])
                if mode != "same":
                    sigs = [g.r.uniform(l + 0.25 * (u - l) * g.r.random(), u - 0.25 * (u - l) * g.r.random()) for l, u in zip(lo_b, hi_b)]
                    pnew = torch.tensor([sg * a * h(b, v, math) + off for a, b, v in zip(A, B, sigs)], dtype=torch.float64)
                    if mode == "new":
                        price = pnew
                    else:
                        price.copy_(pnew)          # the caller's own update of its own tensor, between the calls
            st, val, mut = call_impl(find_implied_volatility, pricer, price, precision=prec, scale=At, shape=Bt, offset=off, **kw)
            case = {"user_pricer": form, "decreasing": dec, "scale": A, "shape": B, "offset": off, "sigma": sigs, "precision": prec}
            if bracket != "default" or rnd:
                case |= {"bracket": bracket, "lower": lo_b, "upper": hi_b, "call_with_the_same_tensors": rnd + 1, "price_tensor": mode}
            ctx.case(case, True, tag="find_iv_user_pricer" + ("_reused_tensors" if rnd else ""))
            ctx.stats[f"find_iv_decreasing={dec}"] += 1
            ctx.stats[f"find_iv_bracket={bracket}"] += 1
            ctx.traces += 1
            if mut:
                ctx.mutated("find_implied_volatility", mut, case)
            kp = f"find_implied_volatility:{direction}" + (":reused-tensors" if rnd else "")
            if st != "ok":
                ctx.fail("find_implied_volatility raised for a price generated by the same (monotone) pricer", case, key=kp + ":error", detail=val)
                continue
            got = [float(x) for x in (val.expand(n_) if val.dim() == 0 else val).tolist()]
            for r, x in zip(sigs, got):
                # slope >= 0.1 * 0.5, so the float evaluation of the pricer moves the root by < 1e-13
                if not abs(x - r) <= prec * (1 + 1e-9) + 1e-12:
                    ctx.fail("find_implied_volatility does not recover the volatility that generated the price of a pricer that is "
                             f"{direction} in volatility" + (" when the bracket / price tensors of an earlier call are used again" if rnd else ""),
                             case, key=kp, detail={"sigma": r, "iv": x, "precision": prec})
                    break
    # ---------------- inputs in layouts with SINGLETON dimensions and broadcastable mixtures, for every module kind's implied_volatility and for
    # find_implied_volatility with user pricers: columns (N, 1) -- the layout of the features the modules' forward() consumes --, (N, T, 1), a row (1, N),
    # 0-dim tensors, (1, 1); the state in a column / 0-dim with the price in the full shape, log moneyness in a column with the maturities in a row.
    # Predicates: the result has the broadcast shape of the inputs, and every element is within the requested precision of the volatility that
    # generated that element's price (or, without vega, reproduces the price to float resolution).  Every (kind, layout) pair runs for every seed.
    IV_LAYOUTS = ["(N,1)", "(N,T,1)", "(1,N)", "0-dim", "(1,1)", "mix:state(N,1)+price(N,T)", "mix:moneyness(N,1)+maturity(1,T)+price(N,T)",
                  "mix:state-0-dim+price(N,)", "mix:maturity-0-dim+rest(N,1)"]

    def iv_layout_shapes(layout, N, T):
        """shapes of (log_moneyness and max_log_moneyness, time_to_maturity, volatility and price)"""
        same = {"(N,1)": (N, 1), "(N,T,1)": (N, T, 1), "(1,N)": (1, N), "0-dim": (), "(1,1)": (1, 1)}
        if layout in same:
            return (same[layout],) * 3
        return {"mix:state(N,1)+price(N,T)": ((N, 1), (N, 1), (N, T)), "mix:moneyness(N,1)+maturity(1,T)+price(N,T)": ((N, 1), (1, T), (N, T)),
                "mix:state-0-dim+price(N,)": ((), (), (N,)), "mix:maturity-0-dim+rest(N,1)": ((N, 1), (), (N, 1))}[layout]
    iv_lay_corpus = [(w_, l_) for w_ in IV_KINDS_LAYOUT for l_ in IV_LAYOUTS]
    for it_ in range(len(iv_lay_corpus) + (0 if ctx.tier == "quick" else 600)):
        which, layout = iv_lay_corpus[it_] if it_ < len(iv_lay_corpus) else (g.choice(IV_KINDS_LAYOUT), g.choice(IV_LAYOUTS))
        N, T = g.choice([2, 3]), g.choice([2, 3, 4])
        sh_s, sh_t, sh_v = iv_layout_shapes(layout, N, T)
        full = tuple(torch.broadcast_shapes(sh_s, sh_t, sh_v))
        k = g.choice([0.5, 1.0, 2.0])
        dt = torch.float64
        tied = which in ("binary", "binary_put_itm")          # rising in volatility only while sigma^2 t < -2 s: t = -s, or t = 0.02 <= -s
        ss, ms = [], []
        for _i in range(math.prod(sh_s)):
            if which in ("binary", "american_binary", "binary_put_itm"):
                s = g.r.uniform(-0.3, -0.02)
            elif which in ("binary_itm", "binary_put_otm"):
                s = g.r.uniform(0.0, 0.3)
            elif which == "binary_atm":
                s = 0.0
            else:
                s = g.r.uniform(-0.3, 0.3)
            ss.append(s)
            ms.append(s if which == "american_binary" else max(s, 0.0) + g.choice([0.0, 0.1]))
        if tied:
            ts = [-s for s in ss] if sh_t == sh_s else [0.02] * math.prod(sh_t)
        else:
            ts = [g.choice([0.1, 0.5, 1.0, 2.0]) for _i in range(math.prod(sh_t))]
        sigs = [g.r.uniform(0.02, 0.95) for _i in range(math.prod(sh_v))]
        prec = g.choice([1e-6, 1e-9, 1e-4])
        if which in ("european", "european_put"):
            m = BSEuropeanOption(call=which == "european", strike=k)
        elif which == "lookback":
            m = BSLookbackOption(strike=k)
        elif which == "american_binary":
            m = BSAmericanBinaryOption(strike=k)
        else:
            m = BSEuropeanBinaryOption(call="put" not in which, strike=k)
        S, T_, V = torch.tensor(ss, dtype=dt).reshape(sh_s), torch.tensor(ts, dtype=dt).reshape(sh_t), torch.tensor(sigs, dtype=dt).reshape(sh_v)
        state = (S, torch.tensor(ms, dtype=dt).reshape(sh_s), T_) if which in ("lookback", "american_binary") else (S, T_)
        case = {"which": which, "layout": layout, "log_moneyness": S.tolist(), "time_to_maturity": T_.tolist(), "sigma": V.tolist(), "k": k, "precision": prec,
                "shapes": [list(sh_s), list(sh_t), list(sh_v)]}
        if len(state) == 3:
            case["max_log_moneyness"] = state[1].tolist()
        kp = f"implied_volatility:{which}:singleton-dims"
        st, P, _m = call_impl(m.price, *state, V)
        if st != "ok" or tuple(P.shape) != full:
            ctx.stats["iv_layout:price() itself raised / has another shape than the broadcast one (skipped: premise of the round trip)"] += 1
            continue
        P = P.detach()
        st, iv, mut = call_impl(m.implied_volatility, *state, P, precision=prec)
        ctx.case(case, True, tag="iv_layout_" + which)
        ctx.stats[f"iv_layout={layout}"] += 1
        ctx.traces += 1
        if mut:
            ctx.mutated(f"implied_volatility:{which}", mut, case)
        if st != "ok":
            ctx.fail("implied_volatility raised for a price generated by the same module (inputs with singleton dimensions: " + layout + ")", case,
                     key=kp + ":error", detail=iv)
            continue
        if tuple(iv.shape) != full:
            ctx.fail("implied_volatility of inputs with singleton dimensions (" + layout + ") returned a tensor whose shape is not the broadcast shape of "
                     "the inputs: the inversion is no longer element-wise", case, key=kp + ":shape",
                     detail={"result_shape": list(iv.shape), "broadcast_shape_of_the_inputs": list(full)})
            continue
        far = (iv - V).abs() > 2 * prec
        if bool(far.any()):
            bad = far & ~((m.price(*state, iv) - P).abs() <= 1e-13 * max(k, 1.0))
            ctx.stats["iv_ill_conditioned"] += int((far & ~bad).sum())
            if bool(bad.any()):
                idx = tuple(int(z) for z in bad.nonzero()[0])
                ctx.fail("implied volatility does not reproduce, element by element, the generating volatility to the requested precision for inputs with "
                         "singleton dimensions (" + layout + ")", case, key=kp,
                         detail={"element": list(idx), "iv": float(iv[idx]), "sigma": float(V.expand(full)[idx]), "precision": prec})
    # find_implied_volatility itself on the same layouts: user pricer sg * scale * h(shape, volatility) with `scale` in the layout of the log moneyness and
    # `shape` in the layout of the maturities above, the prices in the full shape; default bracket or the caller's per-element bracket tensors in the
    # layout of `scale`
    for it_ in range(len(IV_LAYOUTS) * 2 + (0 if ctx.tier == "quick" else 300)):
        layout = IV_LAYOUTS[it_ % len(IV_LAYOUTS)] if it_ < len(IV_LAYOUTS) * 2 else g.choice(IV_LAYOUTS)
        dec = bool(it_ % 2) if it_ < len(IV_LAYOUTS) * 2 else g.chance(0.5)
        if it_ < len(IV_LAYOUTS) * 2 and it_ >= len(IV_LAYOUTS):
            dec = not dec
        form = g.choice(["exp", "affine", "square"])
        N, T = g.choice([2, 3]), g.choice([2, 3, 4])
        sh_a, sh_b, sh_v = iv_layout_shapes(layout, N, T)
        full = tuple(torch.broadcast_shapes(sh_a, sh_b, sh_v))
        sg = -1.0 if dec else 1.0
        A = [g.r.uniform(0.5, 3.0) for _ in range(math.prod(sh_a))]
        B = [g.r.uniform(0.5, 2.0) for _ in range(math.prod(sh_b))]
        sigs = [g.r.uniform(0.002, 0.999) for _ in range(math.prod(sh_v))]
        At, Bt, Vt = (torch.tensor(x_, dtype=torch.float64).reshape(sh_) for x_, sh_ in ((A, sh_a), (B, sh_b), (sigs, sh_v)))

        def pricer(volatility, scale, shape, form=form, sg=sg):
            hv = torch.exp(shape * volatility) if form == "exp" else (volatility + shape) * (volatility + shape) if form == "square" else shape * volatility
            return sg * scale * hv
        price = pricer(Vt, At, Bt)
        prec = g.choice([1e-4, 1e-6, 1e-9])
        kw, bracket = {}, g.choice(["default", "per_element"])
        case = {"user_pricer": form, "decreasing": dec, "layout": layout, "scale": At.tolist(), "shape": Bt.tolist(), "sigma": Vt.tolist(), "precision": prec,
                "bracket": bracket}
        if bracket == "per_element":
            lo_b = [g.choice([0.001, 0.0005, 0.00025]) for _ in A]
            hi_b = [g.choice([1.0, 1.5, 2.0]) for _ in A]
            kw = dict(lower=torch.tensor(lo_b, dtype=torch.float64).reshape(sh_a), upper=torch.tensor(hi_b, dtype=torch.float64).reshape(sh_a))
            case |= {"lower": kw["lower"].tolist(), "upper": kw["upper"].tolist()}
        direction = "decreasing" if dec else "increasing"
        kp = f"find_implied_volatility:{direction}:singleton-dims"
        st, val, mut = call_impl(find_implied_volatility, pricer, price, precision=prec, scale=At, shape=Bt, **kw)
        ctx.case(case, True, tag="find_iv_layout")
        ctx.stats[f"find_iv_layout={layout}"] += 1
        ctx.traces += 1
        if mut:
            ctx.mutated("find_implied_volatility", mut, case)
        if st != "ok":
            ctx.fail("find_implied_volatility raised for a price generated by the same (monotone) pricer (inputs with singleton dimensions: " + layout + ")",
                     case, key=kp + ":error", detail=val)
            continue
        if tuple(val.shape) != full:
            ctx.fail("find_implied_volatility of inputs with singleton dimensions (" + layout + ") returned a tensor whose shape is not the broadcast shape "
                     "of the inputs", case, key=kp + ":shape", detail={"result_shape": list(val.shape), "broadcast_shape_of_the_inputs": list(full)})
            continue
        # slope of the pricer >= 0.25 on the bracket: its float evaluation moves the root by < 1e-12
        off_ = (val - Vt).abs()
        if bool((off_ > prec * (1 + 1e-9) + 1e-12).any()):
            idx = tuple(int(z) for z in (off_ > prec * (1 + 1e-9) + 1e-12).nonzero()[0])
            ctx.fail(f"find_implied_volatility does not recover, element by element, the volatility that generated the price of a pricer that is {direction} in "
                     "volatility (inputs with singleton dimensions: " + layout + ")", case, key=kp,
                     detail={"element": list(idx), "iv": float(val[idx]), "sigma": float(Vt.expand(full)[idx]), "precision": prec})
    # ---------------- modules built from a simulated derivative: the state (all of it, or a part) is taken from the derivative
    from pfhedge.instruments import BrownianStock, EuropeanOption, LookbackOption
    for _ in range(40 if ctx.tier == "quick" else 400):
        which = g.weighted([("lookback", 3), ("european", 1), ("european_put", 1)])
        sig = g.r.uniform(0.05, 0.9)
        k = g.choice([0.9, 1.0, 1.05, 1.1, 1.25])
        n_steps = g.randint(2, 8)
        dt_ = g.choice([1 / 250, 1 / 50, 1 / 12])
        n_paths = g.randint(2, 6)
        seed = g.randint(0, 2 ** 31 - 1)
        prec = g.choice([1e-6, 1e-9, 1e-4])
        torch.manual_seed(seed)
        stock = BrownianStock(sigma=sig, dt=dt_, dtype=torch.float64)
        if which == "lookback":
            deriv = LookbackOption(stock, strike=k, maturity=n_steps * dt_)
            mod, ref = BSLookbackOption.from_derivative(deriv), BSLookbackOption(strike=k)
            omit = g.choice(["all", "max_log_moneyness", "all_but_max"])
        else:
            deriv = EuropeanOption(stock, call=which == "european", strike=k, maturity=n_steps * dt_)
            mod, ref = BSEuropeanOption.from_derivative(deriv), BSEuropeanOption(call=which == "european", strike=k)
            omit = "all"
        deriv.simulate(n_paths=n_paths)
        case = {"which": which + ".from_derivative", "sigma": sig, "k": k, "n_steps": n_steps, "dt": dt_, "n_paths": n_paths,
                "torch_seed": seed, "omitted": omit, "precision": prec}
        S, T_ = deriv.log_moneyness(), deriv.time_to_maturity()
        M = deriv.max_log_moneyness() if which == "lookback" else None
        # explicit state, module without derivative: the pricing function whose volatility is to be recovered
        reprice = (lambda vv: ref.price(S, M, T_, vv)) if which == "lookback" else (lambda vv: ref.price(S, T_, vv))
        # two calls with the same price tensor (and the same explicit state tensors): the second one is judged like the first
        p = None
        for rnd in range(2):
            sfx = ":reused-tensors" if rnd else ""
            if rnd:
                case = case | {"call_with_the_same_tensors": rnd + 1}
            try:
                if p is None:
                    p = mod.price()
                if which != "lookback":
                    iv = mod.implied_volatility(price=p, precision=prec)
                elif omit == "all":
                    iv = mod.implied_volatility(price=p, precision=prec)
                elif omit == "max_log_moneyness":
                    iv = mod.implied_volatility(S, None, T_, p, precision=prec)
                else:
                    iv = mod.implied_volatility(None, M, None, p, precision=prec)
            except Exception as e:  # noqa
                ctx.fail("implied_volatility raised for the price of a module built from a simulated derivative", case,
                         key=f"implied_volatility:{which}:from_derivative{sfx}:error", detail=repr(e)[:200])
                break
            below_max = int(((M - S) > 0).sum()) if which == "lookback" else 0
            ctx.case(case, True, tag="iv_from_derivative_" + which + ("_reused_tensors" if rnd else ""))
            ctx.stats["iv_from_derivative_points_below_running_max"] += below_max
            ctx.traces += 1
            if not torch.allclose(p, reprice(torch.full_like(S, sig)), rtol=1e-12, atol=1e-14):
                ctx.stats["iv_from_derivative_price_differs_from_explicit_state (skipped: premise of the round trip; C07/C18 matter)"] += 1
                break
            # same predicate as above, element-wise over (path, time): within the requested precision of the underlier's volatility, or
            # (no vega: at maturity, deep in / out of the money) any volatility that reproduces the price to float resolution
            far = (iv - sig).abs() > 2 * prec
            if bool(far.any()):
                resid = (reprice(iv) - p).abs()
                bad = far & ~(resid <= 1e-13 * max(k, 1.0))
                ctx.stats["iv_ill_conditioned"] += int((far & ~bad).sum())
                if bool(bad.any()):
                    i, j = [int(x) for x in bad.nonzero()[0]]
                    ctx.fail("implied volatility with the state taken from the derivative does not reproduce the underlier's volatility to the "
                             "requested precision", case, key=f"implied_volatility:{which}:from_derivative:{omit}{sfx}",
                             detail={"path": i, "step": j, "iv": float(iv[i, j]), "log_moneyness": float(S[i, j]),
                                     "max_log_moneyness": float(M[i, j]) if M is not None else None, "time_to_maturity": float(T_[i, j])})
    # ---------------- the MODULES' implied_volatility with precisions at / below the floating-point resolution of the data (float32 -- pfhedge's
    # default dtype -- with 1e-8 .. 1e-12, float64 with 1e-16 .. 1e-18, precision 0): all module kinds, calls and puts, prices increasing and
    # decreasing in volatility, vectors, modules built directly and from a simulated derivative (state omitted).  The outcome is RuntimeError
    # (find_implied_volatility allows 100 steps) or a volatility that really is within `precision` -- never a looser answer handed back in
    # silence.  Independent oracle of "cannot be reached": for some element the price crosses the target between 0.75 sigma and 1.25 sigma by a
    # margin far above the rounding noise (checked with a float64 module on the same state), so the search ends on two NEIGHBOURING floats near
    # sigma, and `precision` is below half the spacing of the floats in the binade of 0.75 sigma: the bracket cannot get narrower than that.
    # A counting subclass of the module bounds the number of price evaluations (max_iter = 100 inside find_implied_volatility).
    IV_CLASSES = {"european": BSEuropeanOption, "european_put": BSEuropeanOption, "lookback": BSLookbackOption, "american_binary": BSAmericanBinaryOption}
    IV_KINDS = ["european", "european_put", "lookback", "binary", "american_binary"] + BINARY_KINDS
    IV_BELOW = {"float32": [1e-8, 1e-9, 1e-10, 1e-12, 2.0 ** -30, 0.0], "float64": [1e-17, 1e-18, 1e-16, 2.0 ** -60, 0.0]}
    IV_REACH = {"float32": [None, 1e-5, 1e-4, 1e-6], "float64": [None, 1e-9, 1e-15]}

    def counted_module(cls, budget):
        calls = [0]

        class Counted(cls):
            def price(self, *args, **kwargs):
                calls[0] += 1
                if calls[0] > budget:
                    raise BudgetExceeded(f"{calls[0]} price evaluations")
                return super().price(*args, **kwargs)
        Counted.__name__ = cls.__name__
        return Counted, calls

    def iv_true_root(ref, state64, P64, dec):
        """the volatility in [0.001, 1] at which the float64 price equals P: own bisection, 90 halvings (used only to judge a returned value)"""
        lo, hi = torch.full_like(P64, 0.001), torch.full_like(P64, 1.0)
        for _i in range(90):
            mid = (lo + hi) / 2
            below = (ref.price(*state64, mid) < P64) != dec          # the root is above mid
            lo, hi = torch.where(below, mid, lo), torch.where(below, hi, mid)
        return (lo + hi) / 2

    # (the "+atm" batches -- elements exactly at the money next to elements off the money, see above -- take part here too: corpus entries with a
    # precision the dtype can resolve, where a value must come back, and with one it cannot)
    iv_res_corpus = [(w_, "float32", 1e-10, "direct") for w_ in IV_KINDS] + [(w_, "float64", 1e-17, "direct") for w_ in ("european", "binary_itm", "lookback")] + \
                    [(w_, "float32", pr_, "from_derivative") for w_, pr_ in (("european", 1e-10), ("lookback", 0.0), ("american_binary", 1e-9), ("european_put", 1e-12))] + \
                    [(w_, dtn_, pr_, "direct") for w_ in MIXED_ATM for dtn_, pr_ in (("float32", 1e-5), ("float64", 1e-9))] + \
                    [("binary_itm+atm", "float32", 1e-10, "direct"), ("binary_put_otm+atm", "float64", 1e-17, "direct")]
    for it_ in range(len(iv_res_corpus) + (70 if ctx.tier == "quick" else 900)):
        which = g.choice(IV_KINDS + list(MIXED_ATM))
        dtn = g.choice(["float32", "float32", "float64"])
        prec = g.choice(IV_BELOW[dtn]) if g.chance(0.8) else g.choice(IV_REACH[dtn])
        source = g.weighted([("direct", 4), ("from_derivative", 1)])
        corpus = it_ < len(iv_res_corpus)
        if corpus:
            which, dtn, prec, source = iv_res_corpus[it_]
        label = which                                # the input class (tags, failure keys); `which` = the module kind
        which = MIXED_ATM.get(label, label)
        if source == "from_derivative" and (which not in IV_CLASSES or label in MIXED_ATM):
            source = "direct"
        dt = getattr(torch, dtn)
        mant = MANT[dtn]
        k = g.choice([0.5, 1.0, 2.0])
        cls = IV_CLASSES.get(which, BSEuropeanBinaryOption)
        Counted, calls = counted_module(cls, eval_budget(100))
        ckw = {"strike": k} if which in ("lookback", "american_binary") else {"strike": k, "call": which in ("european", "binary", "binary_itm", "binary_atm")}
        dec = which in ("binary_itm", "binary_atm", "binary_put_itm")      # the price falls with the volatility
        ref = cls(**ckw)
        if source == "direct":
            n_ = 3 if corpus else g.small((1, 2, 3, 5))
            roles = {}
            if label in MIXED_ATM:
                n_ = max(n_, 2)
                roles = atm_roles(g, label, n_)
            ss, ts, ms, sigs = [], [], [], []
            for i_ in range(n_):
                t = g.choice([0.1, 0.5, 1.0, 2.0])
                if which in ("binary", "american_binary", "binary_put_itm"):
                    s = g.r.uniform(-0.3, -0.02)
                    if which != "american_binary":
                        t = -s
                elif which in ("binary_itm", "binary_put_otm"):
                    s = g.r.uniform(0.0, 0.3)
                elif which == "binary_atm":
                    s = 0.0
                else:
                    s = g.r.uniform(-0.3, 0.3)
                if corpus:
                    s = 0.0 if which == "binary_atm" else [0.05, 0.1, 0.08][i_] * (-1 if which in ("european", "lookback", "binary", "american_binary", "binary_put_itm") else 1)
                    t = -s if which in ("binary", "binary_put_itm") else [0.5, 1.0, 0.25][i_]
                    if label in MIXED_ATM:          # at the money, and 0.1 / 0.08 off the money on the side(s) of the kind
                        s = [0.0, 0.1, -0.08 if label in ("european+atm", "european_put+atm", "lookback+atm") else 0.08][i_] * (-1 if which == "american_binary" else 1)
                else:
                    s = atm_value(g, roles.get(i_), s)
                ss.append(s)
                ts.append(t)
                ms.append(s if which == "american_binary" else max(s, 0.0) + g.choice([0.0, 0.1]))
                sigs.append([0.2, 0.45, 0.7][i_] + 1e-8 / 3 if corpus else g.r.uniform(0.02, 0.95))
            m = Counted(**ckw)
            S, T_, V = torch.tensor(ss, dtype=dt), torch.tensor(ts, dtype=dt), torch.tensor(sigs, dtype=dt)
            state = (S, torch.tensor(ms, dtype=dt), T_) if which in ("lookback", "american_binary") else (S, T_)
            P = ref.price(*state, V).detach()
            args = state + (P,)
            case = {"which": label, "dtype": dtn, "s": S.tolist(), "t": T_.tolist(), "sigma": V.tolist(), "k": k, "precision": prec, "built": "direct"}
            if len(state) == 3:
                case["max_log_moneyness"] = state[1].tolist()
        else:
            sig = 0.2 if corpus else g.choice([0.2, 0.3, 0.5, 0.8])
            k = g.choice([1.05, 1.1]) if which == "american_binary" else g.choice([0.9, 1.0, 1.1])
            ckw["strike"] = k
            ref = cls(**ckw)
            n_steps, dt_, n_paths, tseed = g.randint(2, 6), g.choice([1 / 250, 1 / 50, 1 / 12]), g.randint(1, 4), g.randint(0, 2 ** 31 - 1)
            torch.manual_seed(tseed)
            stock = BrownianStock(sigma=sig, dt=dt_, dtype=dt)
            from pfhedge.instruments import AmericanBinaryOption
            dcls = {"european": EuropeanOption, "european_put": EuropeanOption, "lookback": LookbackOption, "american_binary": AmericanBinaryOption}[which]
            deriv = dcls(stock, strike=k, maturity=n_steps * dt_, **({"call": which == "european"} if dcls is EuropeanOption else {}))
            deriv.simulate(n_paths=n_paths)
            m = Counted.from_derivative(deriv)
            S, T_ = deriv.log_moneyness().detach(), deriv.time_to_maturity().detach()
            state = (S, deriv.max_log_moneyness().detach(), T_) if which in ("lookback", "american_binary") else (S, T_)
            V = torch.full_like(S, sig)
            P = ref.price(*state, V).detach()
            args = ()
            case = {"which": which, "dtype": dtn, "sigma": float(V[0, 0]), "k": k, "precision": prec, "built": "from_derivative (state omitted)", "n_steps": n_steps,
                    "dt": dt_, "n_paths": n_paths, "torch_seed": tseed, "spot": stock.spot.tolist()}
        kw = {} if prec is None else {"precision": prec}
        preq = 1e-6 if prec is None else prec
        calls[0] = 0
        if source == "direct":
            st, iv, mut = call_impl(m.implied_volatility, *args, **kw)
        else:
            st, iv, mut = call_impl(m.implied_volatility, price=P, **kw)
        ctx.case(case, True, tag="iv_resolution")
        ctx.traces += 1
        if mut:
            ctx.mutated(f"implied_volatility:{which}", mut, case)
        # oracle (float64 module, the numbers of the tensors taken exactly)
        state64, P64, V64 = tuple(x.double() for x in state), P.double(), V.double()
        a_, b_ = (0.75 * V64).clamp(min=0.001), (1.25 * V64).clamp(max=1.0)
        scale = torch.maximum(P64.abs(), torch.full_like(P64, k))
        margin = (2e-5 if dtn == "float32" else 1e-12) * scale
        pa, pb = ref.price(*state64, a_), ref.price(*state64, b_)
        crossing = ((pa > P64 + margin) & (pb < P64 - margin)) if dec else ((pa < P64 - margin) & (pb > P64 + margin))
        crossing = crossing & (0.75 * V64 > 0.001)
        gap = torch.tensor([binade_gap(x, mant) / 2 for x in (0.75 * V64).reshape(-1).tolist()], dtype=torch.float64).reshape(V64.shape)
        stuck = crossing & (preq < gap)                   # elements whose bracket cannot get as narrow as `precision`
        unreachable = bool(stuck.any())
        reachable = preq >= 2.0 ** -mant * 2               # not below the spacing of the floats anywhere in [0.001, 1]; at most 60 halvings
        ctx.stats[f"iv_resolution:{dtn}:{'certainly-unreachable' if unreachable else ('reachable' if reachable else 'undecided')}:{st if st == 'ok' else iv}"] += 1
        kp = f"implied_volatility:{label}:{dtn}"
        if st != "ok":
            if iv == "other:BudgetExceeded":
                ctx.fail("implied_volatility keeps evaluating the price far beyond the 100 steps of find_implied_volatility instead of stopping with an error", case,
                         key=f"implied_volatility:{which}:evaluations-beyond-max_iter", detail={"price_evaluations": calls[0]})
            elif iv != "runtime_error":
                ctx.fail("implied_volatility raised something else than RuntimeError for a price generated by the same module", case, key=kp + ":resolution:error", detail=iv)
            elif reachable:
                ctx.fail("implied_volatility stopped with an error although the requested precision is not below the resolution of the dtype", case,
                         key=kp + ":reachable:error", detail=iv)
            continue
        if tuple(iv.shape) != tuple(P.shape) or iv.dtype != P.dtype:
            ctx.fail("implied_volatility returned a tensor of another shape / dtype than the price", case, key=kp + ":resolution:error", detail=[list(iv.shape), str(iv.dtype)])
            continue
        iv64 = iv.detach().double()
        if unreachable:
            # it returned although the bracket of some element cannot have become narrower than `precision`: fine only if the returned values
            # really are within `precision` of the volatility at which the (float64) price equals the given price
            root = iv_true_root(ref, state64, P64, dec)
            off_ = (iv64 - root).abs()
            if bool((stuck & ~(off_ <= preq)).any()):
                idx = [int(z) for z in (stuck & ~(off_ <= preq)).nonzero()[0]]
                at = tuple(idx)
                ctx.fail("implied_volatility returned WITHOUT an error although the requested precision is below the floating-point resolution of the data, and "
                         "the returned volatility is not within that precision: a looser answer is handed back silently", case,
                         key=kp + ":precision-below-resolution",
                         detail={"element": idx, "iv": float(iv64[at]), "volatility_reproducing_the_price": float(root[at]), "generating_sigma": float(V64[at]),
                                 "|iv-root|": float(off_[at]), "precision": preq, "spacing_of_floats_near_sigma >=": float(gap[at])})
            continue
        far = (iv64 - V64).abs() > preq * (1 + 1e-9) + 1e-300
        if bool(far.any()):
            tol = (4e-6 if dtn == "float32" else 1e-13) * torch.maximum(scale, torch.ones_like(scale))
            bad = far & ~((ref.price(*state64, iv64) - P64).abs() <= tol)
            ctx.stats["iv_ill_conditioned"] += int((far & ~bad).sum())
            if bool(bad.any()):
                idx = [int(z) for z in bad.nonzero()[0]]
                ctx.fail("implied volatility does not reproduce the generating volatility to the requested precision", case, key=kp + ":value",
                         detail={"element": idx, "iv": float(iv64[tuple(idx)]), "sigma": float(V64[tuple(idx)]), "precision": preq})
    # ---------------- find_implied_volatility with the caller's max_iter (0 .. 1000) and precisions from ordinary to below the resolution of the
    # dtype (float64 and float32 prices), user pricers increasing / decreasing in volatility and the pricing method of a Black-Scholes module:
    # an error when the precision cannot be reached within max_iter steps, the volatility within `precision` when it clearly can, and never
    # more evaluations of the pricer than max_iter allows
    for it_ in range(110 if ctx.tier == "quick" else 1200):
        form = g.choice(["exp", "rational", "square", "affine", "bs_european", "bs_binary_itm"])
        dtn = g.choice(["float64", "float64", "float32"])
        dt, mant = getattr(torch, dtn), MANT[dtn]
        n_ = g.small((1, 2, 3, 5))
        max_iter = g.choice([0, 3, 10, 25, 60, 100, 1000])
        prec = g.choice([1e-4, 1e-6, 1e-9, 1e-2] if g.chance(0.6) else IV_BELOW[dtn])
        sigs = [g.r.uniform(0.02, 0.95) for _ in range(n_)]
        calls = [0]

        def count():
            calls[0] += 1
            if calls[0] > eval_budget(max_iter):
                raise BudgetExceeded(f"{calls[0]} evaluations with max_iter={max_iter}")
        if form.startswith("bs_"):
            dec = form == "bs_binary_itm"
            mod = BSEuropeanBinaryOption() if dec else BSEuropeanOption(call=g.chance(0.5), strike=g.choice([1.0, 2.0]))
            ss_ = [g.r.uniform(0.02, 0.3) if dec else g.r.uniform(-0.2, 0.2) for _ in range(n_)]
            if n_ >= 2 and g.chance(0.4):          # an element exactly at the money in the batch (the binary call falls with the volatility there as well)
                ss_[g.randint(0, n_ - 1)] = 0.0
            ts_ = [g.choice([0.25, 0.5, 1.0]) for _ in range(n_)]
            S, T_ = torch.tensor(ss_, dtype=dt), torch.tensor(ts_, dtype=dt)

            def pricer(volatility, log_moneyness, time_to_maturity):
                count()
                return mod.price(log_moneyness, time_to_maturity, volatility)
            params = dict(log_moneyness=S, time_to_maturity=T_)
            price = mod.price(S, T_, torch.tensor(sigs, dtype=dt)).detach()
            desc = {"pricer": repr(mod) + ".price", "log_moneyness": ss_, "time_to_maturity": ts_}
            well_conditioned = False
        else:
            dec = g.chance(0.6)
            sg = -1.0 if dec else 1.0
            A = [g.r.uniform(0.5, 3.0) for _ in range(n_)]
            B = [g.r.uniform(0.5, 2.0) for _ in range(n_)]
            off = g.choice([0.0, g.r.uniform(-1, 1)])

            def h(b, v, tt, form=form):
                if form == "exp":
                    return tt.exp(b * v)
                if form == "rational":
                    return v / (b + v) + v
                if form == "square":
                    return (v + b) * (v + b)
                return b * v

            def pricer(volatility, scale, shape, offset=0.0, sg=sg):
                count()
                return sg * scale * h(shape, volatility, torch) + offset
            params = dict(scale=torch.tensor(A, dtype=dt), shape=torch.tensor(B, dtype=dt), offset=off)
            price = pricer(torch.tensor(sigs, dtype=dt), **params).detach()
            desc = {"pricer": form, "scale": A, "shape": B, "offset": off}
            well_conditioned = True
        sig_t = torch.tensor(sigs, dtype=dt).double()
        calls[0] = 0
        st, val, mut = call_impl(find_implied_volatility, pricer, price, precision=prec, max_iter=max_iter, **params)
        direction = "decreasing" if dec else "increasing"
        case = desc | {"dtype": dtn, "decreasing": dec, "sigma": sig_t.tolist(), "precision": prec, "max_iter": max_iter}
        ctx.case(case, True, tag="find_iv_max_iter")
        ctx.traces += 1
        if mut:
            ctx.mutated("find_implied_volatility", mut, case)
        # halvings of the default bracket [0.001, 1]: the float widths follow 0.999 / 2^j up to rounding (one step of slack either way)
        need, w = 0, 0.999
        while w > prec and need < 5000:
            w /= 2
            need += 1
        below = any(prec < binade_gap(0.75 * v, mant) / 2 for v in sig_t.tolist())
        must_raise = need > max_iter + 1 or (below and well_conditioned)
        must_return = (not below) and prec >= 64 * 2.0 ** -mant and need <= max_iter - 1
        ctx.stats[f"find_iv_max_iter:{dtn}:{'must-raise' if must_raise else ('must-return' if must_return else 'either')}:{st if st == 'ok' else val}"] += 1
        kp = f"find_implied_volatility:{direction}:max_iter"
        if st != "ok" and val == "other:BudgetExceeded":
            ctx.fail("find_implied_volatility keeps evaluating the pricer far beyond max_iter instead of stopping with an error", case,
                     key=f"find_implied_volatility:{direction}:evaluations-beyond-max_iter", detail={"evaluations": calls[0], "max_iter": max_iter})
            continue
        if st != "ok" and val != "runtime_error":
            ctx.fail("find_implied_volatility raised something else than RuntimeError for a price generated by the same (monotone) pricer", case,
                     key=kp + ":error", detail=val)
            continue
        if must_raise and st == "ok":
            ctx.fail("find_implied_volatility did not stop with an error although the requested precision cannot be reached within max_iter steps", case,
                     key=kp + ":not-raised", detail={"halvings_needed": need, "max_iter": max_iter, "precision_below_resolution": below,
                                                    "returned": val.reshape(-1).tolist()[:5]})
            continue
        if must_return and st != "ok":
            ctx.fail("find_implied_volatility stopped with an error although the precision is reachable within max_iter steps", case,
                     key=kp + ":raised", detail={"halvings_needed": need, "max_iter": max_iter})
            continue
        if st == "ok" and well_conditioned:
            # slope of the pricer >= 0.05: its float evaluation moves the root by < 1e-12 (float64); float32: 64 ulps of the price over the slope
            noise = 1e-12 if dtn == "float64" else 64 * 2.0 ** -24 * (float(price.abs().max()) + abs(off) + 1.0) / 0.05
            got = val.double().reshape(-1).tolist()
            for r_, x_ in zip(sig_t.tolist(), got):
                if not abs(x_ - r_) <= prec * (1 + 1e-9) + noise:
                    ctx.fail(f"find_implied_volatility (caller's max_iter) does not recover the volatility that generated the price of a pricer that is {direction} "
                             "in volatility", case, key=kp + ":value", detail={"sigma": r_, "iv": x_, "precision": prec})
                    break
    # ---------------- precisions at / below the resolution of the bracket's dtype (exact affine family, judged with Fractions)
    fp_reqs, fp_impl = [], []
    for _ in range(200 if ctx.tier == "quick" else 2500):
        bracket = None
        for c in gen_resolution_case(g):
            (st, val, odt, bits), mut, bracket = run_resolution_case(torch, c, bracket)
            again = ":reused-bracket" if c.get("round") else ""
            fp_reqs.append(to_fp_req(c))
            fp_impl.append({"ok": bits, "dtype": odt} if st == "ok" else {"err": val})
            canon = {k_: (enc_rat(v_) if isinstance(v_, list) and k_ not in ("k", "e") else v_) for k_, v_ in c.items()}
            if mut:
                ctx.mutated("bisect", mut, canon)
            prec = F(c["precision"])
            spacing = F(1, 1 << (MANT[c["bracket_dtype"]] - 1))      # of the floats in [1, 2), where the bracket lives
            reachable = prec >= spacing
            ctx.case(canon, True, tag="bisect_resolution" + ("_reused_bracket" if again else ""))
            ctx.stats[f"resolution:{c['bracket_dtype']}:{'reachable' if reachable else 'below-resolution'}:{st if st == 'ok' else val}"] += 1
            ctx.traces += 1
            roots = [ci + F(ki, 1 << ei) for ci, ki, ei in zip(c["c"], c["k"], c["e"])]
            cls = "root" if reachable else "precision-below-resolution"
            entry = c.get("entry", "bisect")
            ctx.stats[f"resolution:entry={entry}"] += 1
            if entry != "bisect":
                again = ":" + entry + again
            if st != "ok" and val == "other:BudgetExceeded":
                ctx.fail("the search keeps evaluating the function far beyond max_iter instead of stopping with an error", canon,
                         key=f"bisect:{c['bracket_dtype']}:evaluations-beyond-max_iter{again}", detail={"max_iter": c["max_iter"], "decreasing": c["dec"]})
                continue
            # halvings needed from the widest bracket (exact: the brackets are dyadic and `precision` is not below their resolution)
            need0, w0 = 0, max(u - l for l, u in zip(c["lower"], c["upper"]))
            while reachable and w0 > prec:
                w0 /= 2
                need0 += 1
            if st == "ok" and reachable and need0 > c["max_iter"]:
                ctx.fail("bisect did not stop with an error when max_iter is insufficient", canon, key=f"bisect:{c['bracket_dtype']}:max_iter{again}",
                         detail={"needed": need0, "max_iter": c["max_iter"]})
                continue
            if st == "ok":
                for i, (x, r) in enumerate(zip(val, roots)):
                    if isinstance(x, str) or abs(x - r) > prec:
                        ctx.fail("bisect returned a point that is not within `precision` of the true root (it neither converged nor stopped "
                                 "with an error)" if not reachable else "bisect result is not within `precision` of the true root", canon,
                                 key=f"bisect:{c['bracket_dtype']}:{cls}{again}",
                                 detail={"i": i, "x": rat_str(x), "true_root": rat_str(r), "|x-root|": float(abs(x - r)) if not isinstance(x, str) else x,
                                         "precision": c["precision"], "float_spacing": float(spacing)})
                        break
                continue
            if val != "runtime_error":
                ctx.fail("bisect raised something else than RuntimeError on a monotone function with the target inside the range", canon,
                         key=f"bisect:{c['bracket_dtype']}:{cls}{again}:error", detail=val)
                continue
            # an error is the right outcome exactly when the precision cannot be reached within max_iter halvings
            need, w = 0, max(u - l for l, u in zip(c["lower"], c["upper"]))
            while reachable and w > prec:
                w /= 2
                need += 1
            if reachable and need <= c["max_iter"]:
                ctx.fail("bisect stopped with an error although the precision is reachable within max_iter", canon,
                         key=f"bisect:{c['bracket_dtype']}:root{again}:error", detail={"needed": need})
    # -- correspondence with the generic model in IEEE arithmetic: bit for bit (error kind / dtype / every element)
    try:
        fp_model = ctx.driver(fp_reqs)
    except DriverBroken as e:
        ctx.ties_broken.append({"kind": "driver", "detail": str(e)[:1500]})
        fp_model = [{"bad": "driver"}] * len(fp_reqs)
    for rq, ri, rm in zip(fp_reqs, fp_impl, fp_model):
        if isinstance(rm, dict) and "ok" in rm:
            rm = {"ok": rm["ok"], "dtype": rq["bracket"]}      # the model's result carrier is the bracket's
        ctx.traces += 1
        if ri != rm:
            ctx.disagree("bisect_fp", rq, ri, rm, note="bitwise")
        else:
            ctx.stats[f"bisect_fp:{rq['bracket']}/{rq['value']}:{'ok' if 'ok' in ri else ri['err']}:bitwise_equal"] += 1
    return ctx.finish(
        rule="bisect on dyadic-coefficient affine/cubic/square families (increasing and decreasing, per-element coefficients, tensor and scalar "
             "brackets, targets at/near the bracket ends, precisions 2^-2..2^-20, max_iter in {0,3,100,1000}, lower>=upper), exp/logistic in floats, "
             "implied-volatility round trips for the four BS modules (European binary call/put on both sides of the money: increasing and decreasing in "
             "volatility), find_implied_volatility on increasing/decreasing user pricers, modules built from simulated derivatives with omitted state, "
             "precisions below the float32/float64 resolution on an exactly evaluated affine family (also run bit for bit against the generic model in "
             "IEEE binary32/binary64 arithmetic, op bisect_fp); the caller's bracket / target / state / price tensors used again for a second and third call "
             "(bisect on all families incl. the model ops, find_implied_volatility with per-element tensor brackets, the modules' implied_volatility on "
             "vectors); the resolution family also through find_implied_volatility (bracket converted to the dtype of the prices) and with max_iter in "
             "{0,5,30}, every function / pricer counted (no more evaluations than max_iter allows); the modules' implied_volatility (all kinds, calls / puts, "
             "increasing / decreasing, direct and from a simulated derivative) on float32 / float64 data with precisions 1e-8..1e-12 / 1e-16..1e-18 / 0: "
             "RuntimeError or really within precision (oracle: float64 module, crossing certified by a margin, spacing of the floats near sigma); "
             "find_implied_volatility with the caller's max_iter in {0..1000} on user pricers and module prices; batches with elements exactly at the money next to "
             "elements off the money for every module kind (European binary: at + above the strike, calls and puts), fixed corpus + random; "
             "inputs with singleton dimensions ((N,1), (N,T,1), (1,N), 0-dim, (1,1)) and broadcastable mixtures for bisect (model op + predicate), every module "
             "kind's implied_volatility and find_implied_volatility: result shape = broadcast shape, element-wise round trip; "
             "non-trivial = valid bracket; distinct = sha1 of canonical case")
