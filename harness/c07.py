"""C07 — Black-Scholes prices equal the expected payoff under the model.

correspondence: bs_*_price functional forms over the property's box and the BS modules built from a
derivative (strike, call flag, simulated state) vs the Lean model (Model/BS.lean, Float carrier).
predicate / search support (labelled as such): numerical integration of the payoff against the
lognormal law (European, binary) and against the joint law of (W_T, max W) (American binary,
lookback) with scipy.integrate — independent of the closed forms.
"""
import math
from common import *  # noqa
from bs_common import *  # noqa
from hedge_common import gen_market, build_derivative, inject, tens, OPTION_TYPES, market_json, close_ulp

SQ2PI = math.sqrt(2 * math.pi)


def npdf(x):
    return math.exp(-x * x / 2) / SQ2PI


def expectation_terminal(payoff, s, t, v, k):
    """E payoff(S_T), S_T = K e^{s + w z - w^2/2}  (mpmath quadrature, split at the kink S_T = K)"""
    import mpmath as mp
    mp.mp.dps = 20
    w = v * math.sqrt(t)
    f = lambda z: payoff(k * mp.exp(s + w * z - w * w / 2)) * mp.exp(-z * z / 2) / mp.sqrt(2 * mp.pi)
    z0 = min(max((-s + w * w / 2) / w, -12.0), 12.0)
    return float(mp.quad(f, [-12, z0, 12 + abs(w)]))


def expectation_pathdep(payoff, s, m0, t, v, k, kink=None, mu=None):
    """E payoff(S_T, max(M_0, max_t S_t)) for X_u = mu u + W_u (volatility units), mu = -v/2:
    joint density of (X_T = x, max X = y), y >= max(x,0):
        f(x,y) = 2(2y-x)/(T sqrt(2 pi T)) exp(-(2y-x)^2/(2T)) exp(mu x - mu^2 T/2)
    (reflection principle + Girsanov) — independent of the closed forms under test.
    `mu` (default -v/2) is only passed by expectation_pathdep_put (the reflected process)."""
    import mpmath as mp
    mp.mp.dps = 15
    mu = -v / 2.0 if mu is None else mu
    T = t
    sq = math.sqrt(T)

    def dens(x, y):
        return 2 * (2 * y - x) / (T * mp.sqrt(2 * mp.pi * T)) * mp.exp(-(2 * y - x) ** 2 / (2 * T)) * mp.exp(mu * x - mu * mu * T / 2)

    def inner(y):
        Mx = k * mp.exp(max(m0, s + v * y))
        return mp.quad(lambda x: payoff(k * mp.exp(s + v * x), Mx) * dens(x, y), [y - 12 * sq - 1, y])
    pts = [0.0]
    if kink is not None and 0 < kink < 10 * sq + 1:
        pts.append(kink)
    pts.append(10 * sq + 1)
    return float(mp.quad(inner, pts))


def expectation_pathdep_put(kind, s, t, v, k):
    """expected payoff of the PUT lookback max(K - min S, 0) / the put American binary 1{min S <= K} from log-moneyness s
    with no history: Y = -log(S/K) starts at -s, has drift +v/2 (volatility units), and min S = K^2 / (K e^{max Y})"""
    sp = -s
    if kind == "LookbackOption":
        return expectation_pathdep(lambda ST, M: max(k - k * k / M, 0.0), sp, sp, t, v, k, kink=(max(sp, 0.0) - sp) / v, mu=v / 2.0)
    return 1.0 if sp >= 0 else expectation_pathdep(lambda ST, M: 1.0 if M >= k else 0.0, sp, sp, t, v, k, kink=-sp / v, mu=v / 2.0)


MODULE_FN = {"EuropeanOption": "european", "EuropeanBinaryOption": "european_binary",
             "AmericanBinaryOption": "american_binary", "LookbackOption": "lookback"}
STATE_NAMES = ["log_moneyness", "max_log_moneyness", "time_to_maturity", "volatility"]
# documented parameter order (signatures / docstrings of pfhedge/nn/functional.py) of the price and delta functionals, and the
# documented defaults of their trailing parameters
_ST, _SM = ("log_moneyness", "time_to_maturity", "volatility"), ("log_moneyness", "max_log_moneyness", "time_to_maturity", "volatility")
POS_ORDER = {
    "european_price": _ST + ("strike", "call"), "european_delta": _ST + ("call",),
    "european_binary_price": _ST + ("call",), "european_binary_delta": _ST + ("call", "strike"),
    "american_binary_price": _SM, "american_binary_delta": _SM + ("strike",),
    "lookback_price": _SM + ("strike",), "lookback_delta": _SM + ("strike",),
}
POS_DEFAULT = {"european_price": {"strike": 1.0, "call": True}, "european_delta": {"call": True}, "european_binary_price": {"call": True},
               "european_binary_delta": {"call": True, "strike": 1.0}}


def derivative_state(torch, spot, vol, K, dt):
    """log moneyness, running-maximum log moneyness, time to maturity and volatility at every (path, step) of a spot
    tensor, computed here from their definitions (not through the derivative's methods)"""
    T = spot.size(1)
    t = torch.tensor([(T - 1 - j) * dt for j in range(T)], dtype=torch.float64).to(spot.dtype)
    return {"log_moneyness": (spot / K).log(), "max_log_moneyness": (spot.cummax(dim=1).values / K).log(),
            "time_to_maturity": t.unsqueeze(0).expand_as(spot), "volatility": vol}


def functional_at(torch, option, what, state, K, call):
    """the functional form bs_<option>_<what> at a state (tensors broadcast by the functional form itself)"""
    return call_bs(torch, MODULE_FN[option] + "_" + what, state["log_moneyness"], state["time_to_maturity"], state["volatility"],
                   K, state["max_log_moneyness"], call)


def compare_grid(ctx, got, exp, valid, case, key, what, tol=(1e-9, 1e-11)):
    """got == exp at every valid (path, step); one failing input per call"""
    if tuple(got.shape) != tuple(exp.shape):
        ctx.fail(what + " (shape)", case, key=key + ":shape", detail={"module": list(got.shape), "functional": list(exp.shape)})
        return False
    gl, el, vl = got.detach().reshape(-1).tolist(), exp.detach().reshape(-1).tolist(), valid.reshape(-1).tolist()
    for i, (a, b, ok) in enumerate(zip(gl, el, vl)):
        if ok and not rel_close(a, b, *tol):
            ctx.fail(what, case | {"element": i}, key=key, detail={"module": a, "functional@state": b})
            return False
    return True


def rand_rows(g, shape, lo, hi):
    return [[g.r.uniform(lo, hi) for _ in range(shape[1])] for _ in range(shape[0])]


KIND_JSON = {"EuropeanOption": "european", "EuropeanBinaryOption": "european_binary",
             "AmericanBinaryOption": "american_binary", "LookbackOption": "lookback"}
LOG_STATE = {"log_moneyness", "max_log_moneyness"}


class ModuleTie:
    """correspondence of the input-resolution layer (nn/modules/bs/_base.py acquire_params_from_derivative_*, the modules'
    constructors and price / delta methods) with its Lean model (Model/Acquire.lean, driver op `bs_module`): every scenario
    records what the real code did — construction (error kind, or the module's call flag and strike), the resolved input tuple
    returned by the real acquire_params_from_derivative_1/2 (or its error kind), the method's value (or its error kind) — and
    the same scenario is executed by the model, one request per path; compared after one driver call.
      resolved tuple: explicitly given entries and the derivative's time to maturity / volatility bit for bit (copies of
      inputs, dyadic arithmetic); the derivative's (running-max) log-moneyness within 4 ulp (libm `log`);
      value: within `tol` (transcendental functions); error kinds: equal."""

    def __init__(self, ctx, torch):
        self.ctx, self.torch = ctx, torch
        self.reqs, self.metas = [], []

    def add(self, case, option, what, build, N, T, markets, deriv, ctor, ov, construct, resolved, value, tol=(1e-9, 1e-11)):
        """markets: per-path market JSON (or None: no derivative); deriv: dict(call, simulated, has_vol) | None;
        ctor: (call, strike) for build == "init"; ov: name -> explicit tensor (any broadcastable shape);
        construct: ("ok", call flag, strike) | ("err", kind); resolved / value: ("ok", tensors | tensor) | ("err", kind) | None"""
        torch = self.torch
        names = [n_ for n_ in STATE_NAMES if option in ("LookbackOption", "AmericanBinaryOption") or n_ != "max_log_moneyness"]
        full = {k_: torch.broadcast_to(v_.detach().to(torch.float64), (N, T)).tolist() for k_, v_ in ov.items()}
        obs = {"construct": construct, "names": names, "given": sorted(ov), "resolved": None, "value": None}
        if resolved is not None:
            obs["resolved"] = ("err", resolved[1]) if resolved[0] != "ok" else \
                ("ok", [torch.broadcast_to(x.detach().to(torch.float64), (N, T)).tolist() for x in resolved[1]])
        if value is not None:
            if value[0] != "ok":
                obs["value"] = ("err", value[1])
            elif tuple(value[1].shape) != (N, T):
                obs["value"] = ("shape", list(value[1].shape))
            else:
                obs["value"] = ("ok", value[1].detach().to(torch.float64).tolist())
        for p_ in range(N):
            req = {"op": "bs_module", "kind": KIND_JSON[option], "method": what, "build": build,
                   "derivative": None if deriv is None else {"market": markets[p_], "call": deriv["call"],
                                                             "simulated": deriv["simulated"], "has_vol": deriv["has_vol"]},
                   "given": {k_: enc_flt(v_[p_]) for k_, v_ in full.items()}, "cells": list(range(T))}
            if build == "init":
                req["call"], req["strike"] = bool(ctor[0]), float_bits(ctor[1])
            self.reqs.append(req)
            self.metas.append((case, p_, obs, tol))

    def compare(self):
        ctx = self.ctx
        try:
            outs = ctx.driver(self.reqs)
        except DriverBroken as e:
            ctx.ties_broken.append({"kind": "driver", "detail": str(e)[:1500]})
            return
        bad_cases = set()
        for (case, p_, obs, tol), r in zip(self.metas, outs):
            cid = id(case)
            if cid in bad_cases:
                continue

            def dis(part, impl, model, cid=cid, case=case, p_=p_):
                bad_cases.add(cid)
                ctx.disagree("bs_module:" + part, case | {"path": p_}, impl, model)
            if "bad" in r:
                dis("protocol", None, r)
                continue
            ctx.evaluations += 1
            con = r["construct"]
            if "err" in con:
                if obs["construct"] != ("err", con["err"]):
                    dis("construct", list(obs["construct"]), con)
                else:
                    ctx.stats["bs_module:agreed:construct_error"] += 1
                continue
            if obs["construct"][0] != "ok":
                dis("construct", list(obs["construct"]), con)
                continue
            if bool(obs["construct"][1]) != con["ok"]["call"] or float_bits(obs["construct"][2]) != con["ok"]["strike"]:
                dis("construct", list(obs["construct"]), con)
                continue
            res, val = obs["resolved"], obs["value"]
            for j, cell in enumerate(r["cells"]):
                mres, mval = cell["resolved"], cell["value"]
                if res is not None:
                    if res[0] == "err" or "err" in mres:
                        if res[0] != "err" or mres.get("err") != res[1]:
                            dis("resolved", res[1] if res[0] == "err" else "ok", mres | {"step": j})
                            break
                        ctx.stats["bs_module:agreed:resolve_error:" + res[1]] += 1
                    else:
                        mt = dec_flt(mres["ok"])
                        if len(mt) != len(res[1]):
                            dis("resolved", len(res[1]), mres | {"step": j})
                            break
                        stop = False
                        for name, impl_rows, mv in zip(obs["names"], res[1], mt):
                            iv = impl_rows[p_][j]
                            exact = name in obs["given"] or name not in LOG_STATE
                            same = (float_bits(iv) == float_bits(mv) or (iv == mv)) if exact else close_ulp(iv, mv, 4)
                            if not same:
                                dis("resolved:" + name, {"step": j, "value": iv, "bits": float_bits(iv), "explicit": name in obs["given"]},
                                    {"value": mv, "bits": float_bits(mv)})
                                stop = True
                                break
                        if stop:
                            break
                        ctx.stats["bs_module:agreed:resolved_cells"] += 1
                if val is not None:
                    if val[0] == "shape":
                        dis("value:shape", val[1], "one value per (path, step)")
                        break
                    if val[0] == "err" or "err" in mval:
                        if val[0] != "err" or mval.get("err") != val[1]:
                            dis("value", val[1] if val[0] == "err" else "ok", mval | {"step": j})
                            break
                        ctx.stats["bs_module:agreed:value_error:" + val[1]] += 1
                    else:
                        iv, mv = val[1][p_][j], float_of_bits(mval["ok"])
                        if not rel_close(iv, mv, *tol):
                            dis("value", {"step": j, "value": iv}, {"value": mv, "resolved": dec_flt(mres["ok"]) if "ok" in mres else mres})
                            break
                        ctx.stats["bs_module:agreed:value_cells"] += 1


def check(ctx):
    torch, pfhedge = import_impl()
    g = ctx.gen
    ctx.lean_gate()
    fns = ["european_price", "european_binary_price", "american_binary_price", "lookback_price"]
    n = 1200 if ctx.tier == "quick" else 20000
    items, metas = [], []
    for _ in range(n):
        fn = g.choice(fns)
        pd = fn in ("american_binary_price", "lookback_price")
        s, t, v, k, m = gen_point(g, pd)
        call = g.chance(0.5) if not pd else True
        dtype = g.weighted([("float64", 4), ("float32", 1)])
        st, val, _ = call_impl(call_bs, torch, fn, s, t, v, k, m, call, getattr(torch, dtype))
        case = {"fn": fn, "s": s, "t": t, "v": v, "k": k, "m": m, "call": call, "dtype": dtype}
        ctx.stats[f"fn={fn}"] += 1
        ctx.stats[f"dtype={dtype}"] += 1
        ctx.case(case, True, tag="price")
        ctx.traces += 1
        if st != "ok":
            ctx.fail("bs price raised inside the parameter box", case, key=f"bs_{fn}:error", detail=val)
            continue
        items.append((fn, call, [s, t, v, k, m]))
        metas.append((case, float(val), dtype))
    # broadcasting: a (2,1) log-moneyness against (3,) maturities
    for _ in range(40 if ctx.tier == "quick" else 400):
        fn = g.choice(fns[:2])
        ss = [[g.r.uniform(-1, 1)], [g.r.uniform(-1, 1)]]
        ts = [g.r.uniform(0.05, 3) for _ in range(3)]
        v, k = g.r.uniform(0.05, 1.5), g.choice([1.0, 2.5])
        call = g.chance(0.5)
        st, val, _ = call_impl(call_bs, torch, fn, ss, ts, v, k, None, call)
        case = {"fn": fn, "s": ss, "t": ts, "v": v, "k": k, "call": call, "broadcast": True}
        ctx.case(case, True, tag="broadcast")
        ctx.traces += 1
        if st != "ok" or tuple(val.shape) != (2, 3):
            ctx.fail("bs price does not broadcast its arguments", case, key=f"bs_{fn}:broadcast", detail=str(val)[:100])
            continue
        for i in range(2):
            for j in range(3):
                items.append((fn, call, [ss[i][0], ts[j], v, k, ss[i][0]]))
                metas.append((case | {"i": i, "j": j}, float(val[i, j]), "float64"))
    try:
        mv = model_vals(ctx, items)
    except DriverBroken as e:
        ctx.ties_broken.append({"kind": "driver", "detail": str(e)[:1500]})
        mv = []
    for (case, got, dtype), m_ in zip(metas, mv):
        tol = (1e-10, 1e-12) if dtype == "float64" else (2e-4, 2e-5)
        if isinstance(m_, tuple) or not rel_close(got, m_, *tol):
            ctx.disagree("bs_price", case, got, m_)
    # -------- modules built from a derivative use its strike / call flag / simulated state
    from pfhedge.nn import BlackScholes
    items2, metas2 = [], []
    for _ in range(150 if ctx.tier == "quick" else 1000):
        mk = gen_market(g, primary=g.choice(["BrownianStock", "HestonStock"]))
        mk["vol"] = [[x if x > 0 else type(x)(1) / 4 for x in r] for r in mk["vol"]]
        mk["var"] = [[x * x for x in r] for r in mk["vol"]]
        if mk["option"] in ("LookbackOption", "AmericanBinaryOption"):
            mk["call"] = True      # the BS modules for these two support calls only
        d, u = build_derivative(torch, mk)
        try:
            mod = BlackScholes(d)
        except Exception as e:  # noqa
            raise InternalError("BlackScholes(derivative) failed: " + repr(e))
        with torch.no_grad():
            st, pr, mut = call_impl(mod.price, watch=[("derivative", d)])
        case = {"option": mk["option"], "primary": mk["primary"], "call": mk["call"], "strike": rat_str(mk["strike"]),
                "spot": enc_rat(mk["spot"]), "vol": enc_rat(mk["vol"]), "dt": rat_str(mk["dt"])}
        if mut:
            ctx.mutated("BSModule.price", mut, case)
        ctx.case(case, True, tag="module")
        ctx.stats[f"module={mk['option']}"] += 1
        ctx.traces += 1
        if st != "ok":
            ctx.fail("BlackScholes(derivative).price() raised", case, key=f"bs_module:{mk['option']}:error", detail=pr)
            continue
        N, T = mk["N"], mk["T"]
        if tuple(pr.shape) != (N, T):
            ctx.fail("BlackScholes(derivative).price() has the wrong shape", case, key=f"bs_module:{mk['option']}:shape", detail=list(pr.shape))
            continue
        K = float(mk["strike"])
        fn = {"EuropeanOption": "european_price", "EuropeanBinaryOption": "european_binary_price",
              "AmericanBinaryOption": "american_binary_price", "LookbackOption": "lookback_price"}[mk["option"]]
        for p in range(N):
            run = -math.inf
            for j in range(T):
                S = float(mk["spot"][p][j])
                run = max(run, S)
                s_, m_ = math.log(S / K), math.log(run / K)
                t_ = (T - 1 - j) * float(mk["dt"])
                v_ = float(mk["vol"][p][j])
                if t_ == 0:
                    continue
                items2.append((fn, mk["call"], [s_, t_, v_, K, m_]))
                metas2.append((case | {"path": p, "step": j}, float(pr[p, j])))
    try:
        mv2 = model_vals(ctx, items2)
    except DriverBroken as e:
        ctx.ties_broken.append({"kind": "driver", "detail": str(e)[:1500]})
        mv2 = []
    for (case, got), m_ in zip(metas2, mv2):
        if isinstance(m_, tuple) or not rel_close(got, m_, 1e-9, 1e-11):
            ctx.disagree("bs_module_price", case, got, m_)
            ctx.fail("the pricing module built from a derivative disagrees with the functional form at the derivative's strike, call flag and simulated state",
                     case, key=f"bs_module:{case['option']}:value", detail={"module": got, "functional@state": m_})
    # -------- independent expectation oracle (search support; also run without a disagreement)
    k_or = 16 if ctx.tier == "quick" else 250
    for _ in range(k_or):
        fn = g.choice(fns)
        pd = fn in ("american_binary_price", "lookback_price")
        s, t, v, k, m = gen_point(g, pd)
        t = min(t, 3.0)
        v = max(v, 0.05)
        call = g.chance(0.5) if not pd else True
        got = float(call_bs(torch, fn, s, t, v, k, m, call))
        try:
            if fn == "european_price":
                exp = expectation_terminal((lambda S: max(S - k, 0.0)) if call else (lambda S: max(k - S, 0.0)), s, t, v, k)
            elif fn == "european_binary_price":
                exp = expectation_terminal((lambda S: 1.0 if S >= k else 0.0) if call else (lambda S: 1.0 if S <= k else 0.0), s, t, v, k)
            elif fn == "american_binary_price":
                exp = 1.0 if m >= 0 else expectation_pathdep(lambda ST, M: 1.0 if M >= k else 0.0, s, m, t, v, k, kink=-s / v)
            else:
                exp = expectation_pathdep(lambda ST, M: max(M - k, 0.0), s, m, t, v, k, kink=(max(m, 0.0) - s) / v)
        except Exception as e:  # noqa
            raise InternalError("expectation oracle failed: " + repr(e))
        case = {"fn": fn, "s": s, "t": t, "v": v, "k": k, "m": m, "call": call}
        ctx.case(case, True, tag="oracle")
        ctx.stats[f"oracle:{fn}"] += 1
        if abs(got - exp) > 2e-6 * max(1.0, k):
            ctx.fail(f"bs_{fn} differs from the numerically integrated expected payoff", case, key=f"bs_{fn}:expectation",
                     detail={"impl": got, "integral": exp})
    # -------- modules built from a derivative, called the way a user calls them (round 3): the three blocks below evaluate
    # "uses that derivative's strike, call/put flag and simulated state, and agrees with the functional forms" on
    #   (a) calls that give SOME inputs explicitly and leave the others to the derivative,
    #   (b) one underlier / derivative / module reused over several simulations with changed parameters,
    #   (c) put derivatives of every option type handed to BlackScholes(...) / BS*.from_derivative(...)
    import pfhedge.nn as pnn
    import pfhedge.instruments as pin

    def build_module(how, option, d):
        return BlackScholes(d) if how == "BlackScholes" else getattr(pnn, "BS" + option).from_derivative(d)

    from pfhedge.nn.modules.bs import _base as bs_base
    tie = ModuleTie(ctx, torch)

    def acquire_fn(pd_):
        """the real resolution function the methods of this module kind call"""
        return bs_base.acquire_params_from_derivative_2 if pd_ else bs_base.acquire_params_from_derivative_1

    def shaped(N, T, form, lo, hi):
        sh = {"full": (N, T), "col": (N, 1), "row": (1, T), "scalar": (1, 1)}[form]
        x = torch.tensor(rand_rows(g, sh, lo, hi), dtype=torch.float64)
        return x.reshape(()) if form == "scalar" else x

    def extreme(x, form, how):
        """the minimum / maximum of an (N, T) tensor over the dimensions along which an override of this form is broadcast"""
        f = torch.amin if how == "min" else torch.amax
        if form == "col":
            return f(x, dim=1, keepdim=True)
        if form == "row":
            return f(x, dim=0, keepdim=True)
        return f(x).reshape(()) if form == "scalar" else x

    # (a) partial overrides
    for _ in range(160 if ctx.tier == "quick" else 1500):
        mk = gen_market(g, primary=g.choice(["BrownianStock", "HestonStock"]))
        mk["vol"] = [[x if x > 0 else type(x)(1) / 4 for x in r] for r in mk["vol"]]
        mk["var"] = [[x * x for x in r] for r in mk["vol"]]
        option = mk["option"]
        pd = option in ("LookbackOption", "AmericanBinaryOption")
        if pd:
            mk["call"] = True
        d, u = build_derivative(torch, mk)
        how = g.choice(["BlackScholes", "from_derivative"])
        what = g.choice(["price", "price", "price", "delta"])
        N, T, K = mk["N"], mk["T"], float(mk["strike"])
        names = [n_ for n_ in STATE_NAMES if pd or n_ != "max_log_moneyness"]
        given = sorted(g.r.sample(names, g.randint(1, len(names) - 1)))
        form = "full" if what == "delta" else g.choice(["full", "full", "col", "row", "scalar"])
        own = derivative_state(torch, tens(torch, mk["spot"]), tens(torch, mk["vol"]), K, float(mk["dt"]))
        ov = {}
        if "time_to_maturity" in given:
            ov["time_to_maturity"] = shaped(N, T, form, 0.01, 5.0)
        if "volatility" in given:
            ov["volatility"] = shaped(N, T, form, 0.02, 2.0)
        if "log_moneyness" in given:
            if pd and "max_log_moneyness" not in given:      # stay below the derivative's running maximum
                ov["log_moneyness"] = extreme(own["max_log_moneyness"], form, "min") - shaped(N, T, form, 0.0, 0.5)
            else:
                ov["log_moneyness"] = shaped(N, T, form, -1.0, 1.0)
        if "max_log_moneyness" in given:                      # running maximum >= spot (given or the derivative's)
            base = ov["log_moneyness"] if "log_moneyness" in given else extreme(own["log_moneyness"], form, "max")
            ov["max_log_moneyness"] = base + shaped(N, T, form, 0.0, 0.6) if g.chance(0.7) else base.clone()
        case = {"option": option, "primary": mk["primary"], "call": mk["call"], "strike": rat_str(mk["strike"]), "built": how,
                "method": what, "given": {k_: v_.tolist() for k_, v_ in ov.items()}, "spot": enc_rat(mk["spot"]),
                "vol": enc_rat(mk["vol"]), "dt": rat_str(mk["dt"])}
        ctx.case(case, True, tag="module_partial")
        ctx.stats[f"partial:{option}:{what}"] += 1
        ctx.stats["partial:given=" + "+".join(given)] += 1
        ctx.traces += 1
        st, mod, _ = call_impl(build_module, how, option, d)
        if st != "ok":
            ctx.fail("building the pricing module from a derivative raised", case, key=f"bs_module:{option}:construct:error", detail=mod)
            continue
        st, got, mut = call_impl(getattr(mod, what), watch=[("derivative", d)], **ov)
        if mut:
            ctx.mutated(f"BSModule.{what}", mut, case)
        # the same call in the model of the resolution layer (op bs_module): resolved tuple of the real acquire function + value
        rst, rres, _ = call_impl(acquire_fn(pd), derivative=getattr(mod, "derivative", None), **ov)
        tie.add(case, option, what, "from_derivative", N, T, [market_json(mk, p_) for p_ in range(N)],
                {"call": mk["call"], "simulated": True, "has_vol": True}, None, ov,
                ("ok", getattr(mod, "call", None), getattr(mod, "strike", float("nan"))), (rst, rres), (st, got))
        if st != "ok":
            ctx.fail(f"module.{what}() with some inputs given explicitly raised", case, key=f"bs_module:{option}:partial-override:error", detail=got)
            continue
        state = own | ov
        exp = functional_at(torch, option, what, state, K, mk["call"])
        valid = torch.broadcast_to((state["time_to_maturity"] > 0) & (state["volatility"] > 0), (N, T))
        compare_grid(ctx, got, exp, valid, case, f"bs_module:{option}:partial-override:{what}",
                     f"module.{what}() with some inputs given explicitly differs from the functional form at the given inputs and the "
                     "derivative's strike, call flag and remaining simulated state")
    # (b) one underlier, derivative and module over several simulations
    for _ in range(14 if ctx.tier == "quick" else 150):
        option = g.choice(OPTION_TYPES)
        pd = option in ("LookbackOption", "AmericanBinaryOption")
        call = True if pd else g.chance(0.6)
        K = g.choice([0.9, 1.0, 1.1, 1.25])
        primary = g.choice(["BrownianStock", "BrownianStock", "MertonJumpStock", "HestonStock"])
        dt = g.choice([1 / 250, 1 / 256, 1 / 100])
        steps = g.choice([3, 5, 10])
        sigmas = g.r.sample([0.05, 0.1, 0.2, 0.3, 0.45, 0.8], 3)
        how = g.choice(["BlackScholes", "from_derivative"])
        what = g.choice(["price", "price", "delta"])
        if primary == "HestonStock":
            u = pin.HestonStock(dt=dt, dtype=torch.float64)
        else:
            u = getattr(pin, primary)(sigma=sigmas[0], dt=dt, dtype=torch.float64)
        d = getattr(pin, option)(u, call=call, strike=K, maturity=steps * dt)
        mod = build_module(how, option, d)
        n_paths = g.choice([1, 2, 4])
        for rnd in range(3):
            if rnd > 0 and g.chance(0.25):
                n_paths = g.choice([1, 2, 4])
            if primary != "HestonStock":
                u.sigma = sigmas[rnd]
            tseed = g.randint(0, 2 ** 31 - 1)
            torch.manual_seed(tseed)
            d.simulate(n_paths=n_paths)
            spot = u.spot.detach().clone()
            vol = u.variance.detach().clamp(min=0.0).sqrt() if primary == "HestonStock" else torch.full_like(spot, sigmas[rnd])
            case = {"option": option, "primary": primary, "call": call, "strike": K, "built": how, "method": what, "dt": dt,
                    "round": rnd, "sigma_by_round": None if primary == "HestonStock" else sigmas[:rnd + 1], "n_paths": n_paths,
                    "torch_seed": tseed, "spot": spot.tolist()}
            ctx.case(case, True, tag="module_reuse")
            ctx.stats[f"reuse:{primary}"] += 1
            ctx.traces += 1
            st, got, mut = call_impl(getattr(mod, what), watch=[("derivative", d)])
            if mut:
                ctx.mutated(f"BSModule.{what}", mut, case)
            if st != "ok":
                ctx.fail(f"module.{what}() raised after the derivative was simulated again", case, key=f"bs_module:{option}:reuse:error", detail=got)
                break
            state = derivative_state(torch, spot, vol, K, dt)
            exp = functional_at(torch, option, what, state, K, call)
            valid = (state["time_to_maturity"] > 0) & (state["volatility"] > 0)
            if not compare_grid(ctx, got, exp, valid, case, f"bs_module:{option}:reuse:stale-state",
                                f"module.{what}() of a module whose derivative was simulated again (same objects, changed volatility) "
                                "differs from the functional form at the CURRENT simulated state"):
                break
    # (c) puts of every option type
    put_oracle_done = set()
    for rnd in range(2 if ctx.tier == "quick" else 12):
        for option in OPTION_TYPES:
            for how in ("BlackScholes", "from_derivative"):
                pd = option in ("LookbackOption", "AmericanBinaryOption")
                mk = gen_market(g, T=g.choice([3, 4, 5, 8]), primary="BrownianStock")
                mk["sigma"] = g.choice([type(mk["sigma"])(1, 4), type(mk["sigma"])(1, 2)])
                mk["vol"] = [[mk["sigma"]] * mk["T"] for _ in range(mk["N"])]
                mk["var"] = [[x * x for x in r] for r in mk["vol"]]
                mk["dt"] = g.choice([type(mk["sigma"])(1, 4), type(mk["sigma"])(1, 8)])
                mk["option"], mk["call"] = option, False
                d, u = build_derivative(torch, mk)
                N, T, K = mk["N"], mk["T"], float(mk["strike"])
                case = {"option": option, "call": False, "strike": rat_str(mk["strike"]), "built": how, "spot": enc_rat(mk["spot"]),
                        "sigma": rat_str(mk["sigma"]), "dt": rat_str(mk["dt"])}
                ctx.case(case, True, tag="module_put")
                ctx.traces += 1
                st, mod, _ = call_impl(build_module, how, option, d)
                if st != "ok":
                    ctx.stats[f"put:{option}:rejected"] += 1
                    if not pd:      # European and European-binary puts are offered (the functional forms take call=False)
                        ctx.fail("building the pricing module from a put derivative raised", case, key=f"bs_module:{option}:put:construct:error", detail=mod)
                    continue
                ctx.stats[f"put:{option}:built"] += 1
                flag = getattr(mod, "call", None)
                if flag is None or bool(flag):
                    ctx.fail("the pricing module built from a PUT derivative is a call module (the derivative's call/put flag is not used; "
                             "the construction is not rejected either)", case, key=f"bs_module:{option}:put:call-flag", detail={"module.call": flag, "repr": repr(mod)})
                with torch.no_grad():
                    st, got, _ = call_impl(mod.price, watch=[("derivative", d)])
                if st != "ok":
                    ctx.fail("the pricing module built from a put derivative raised in price()", case, key=f"bs_module:{option}:put:error", detail=got)
                    continue
                state = derivative_state(torch, tens(torch, mk["spot"]), tens(torch, mk["vol"]), K, float(mk["dt"]))
                if not pd:
                    exp = functional_at(torch, option, "price", state, K, False)
                    compare_grid(ctx, got, exp, state["time_to_maturity"] > 0, case, f"bs_module:{option}:put:value",
                                 "the pricing module built from a put derivative differs from the functional form with call=False")
                elif option not in put_oracle_done and tuple(got.shape) == (N, T):
                    # no functional form for these puts: the quoted price at the first step (no history) against the numerically
                    # integrated expectation of the PUT payoff (once per option type and run: the quadrature takes seconds)
                    put_oracle_done.add(option)
                    s0, t0, v0 = float(state["log_moneyness"][0, 0]), float(state["time_to_maturity"][0, 0]), float(mk["sigma"])
                    try:
                        exp0 = expectation_pathdep_put(option, s0, t0, v0, K)
                    except Exception as e:  # noqa
                        raise InternalError("expectation oracle failed: " + repr(e))
                    if abs(float(got[0, 0]) - exp0) > 2e-6 * max(1.0, K):
                        ctx.fail("the price quoted by the module built from a put derivative differs from the numerically integrated expected PUT payoff",
                                 case | {"s": s0, "t": t0, "v": v0}, key=f"bs_module:{option}:put:value", detail={"module": float(got[0, 0]), "integral": exp0})
    # (d) the resolution layer at its edges (correspondence with Model/Acquire.lean only; the expected outcome is the MODEL's):
    #   modules without a derivative (everything must be explicit: ValueError otherwise; an unexpected max_log_moneyness keyword
    #   is a TypeError), derivatives whose underlier has not been simulated (AttributeError for the first omitted input),
    #   underliers with a spot but no volatility (HestonStock without its variance buffer) and with a volatility but no spot,
    #   put derivatives (rejected at construction by the American-binary / lookback modules), no overrides at all
    def empty_market(K_, dt_, spot=None, vol=None):
        return {"spot": enc_flt(spot or []), "variance": enc_flt([x * x for x in (vol or [])]), "volatility": enc_flt(vol or []),
                "listed": enc_flt(spot or []), "dt": float_bits(dt_), "strike": float_bits(K_), "oracle": enc_flt([0.0] * len(spot or []))}

    for _ in range(120 if ctx.tier == "quick" else 1200):
        mk = gen_market(g, primary="HestonStock")
        mk["vol"] = [[x if x > 0 else type(x)(1) / 4 for x in r] for r in mk["vol"]]
        mk["var"] = [[x * x for x in r] for r in mk["vol"]]
        option = mk["option"]
        pd = option in ("LookbackOption", "AmericanBinaryOption")
        scen = g.weighted([("no_derivative", 4), ("not_simulated", 3), ("no_volatility", 3), ("volatility_only", 2),
                           ("put", 2), ("all_from_derivative", 1)])
        if scen != "put" and pd:
            mk["call"] = True
        if scen == "put":
            mk["call"] = False
        N, T, K, dt = mk["N"], mk["T"], float(mk["strike"]), float(mk["dt"])
        how = g.choice(["BlackScholes", "from_derivative"])
        what = g.choice(["price", "price", "delta"])
        names = [n_ for n_ in STATE_NAMES if pd or n_ != "max_log_moneyness"]
        # which inputs are explicit: everything / everything but one / any subset / nothing
        r_ = g.r.random()
        if scen in ("put", "all_from_derivative"):
            given = []
        elif r_ < 0.3:
            given = list(names)
        elif r_ < 0.6:
            given = [n_ for n_ in names if n_ != g.choice(names)]
        else:
            given = [n_ for n_ in names if g.chance(0.5)]
        if not pd and scen == "no_derivative" and g.chance(0.12):
            given = given + ["max_log_moneyness"]           # not a keyword of the European / European-binary methods
        ov = {}
        if "log_moneyness" in given:
            ov["log_moneyness"] = shaped(N, T, "full", -1.0, 1.0)
        if "max_log_moneyness" in given:
            ov["max_log_moneyness"] = (ov["log_moneyness"] if "log_moneyness" in given else torch.zeros(N, T, dtype=torch.float64) + 1.0) \
                + shaped(N, T, "full", 0.0, 0.6)
        if "time_to_maturity" in given:
            ov["time_to_maturity"] = shaped(N, T, "full", 0.01, 5.0)
        if "volatility" in given:
            ov["volatility"] = shaped(N, T, "full", 0.02, 2.0)
        spot_rows = [[float(x) for x in r] for r in mk["spot"]]
        vol_rows = [[float(x) for x in r] for r in mk["vol"]]
        case = {"scenario": scen, "option": option, "call": mk["call"], "strike": rat_str(mk["strike"]), "built": how, "method": what,
                "given": {k_: v_.tolist() for k_, v_ in ov.items()}, "spot": enc_rat(mk["spot"]), "vol": enc_rat(mk["vol"]), "dt": rat_str(mk["dt"])}
        ctx.case(case, True, tag="module_edge")
        ctx.stats[f"edge:{scen}"] += 1
        ctx.traces += 1
        deriv, markets, ctor, build = None, None, None, "from_derivative"
        if scen == "no_derivative":
            ctor, build = (mk["call"], K), "init"
            cst, mod, _ = call_impl(getattr(pnn, "BS" + option), call=mk["call"], strike=K)
        else:
            if scen in ("put", "all_from_derivative"):
                d, u = build_derivative(torch, mk)
                deriv = {"call": mk["call"], "simulated": True, "has_vol": True}
                markets = [market_json(mk, p_) for p_ in range(N)]
            else:
                if scen == "volatility_only":
                    u = pin.LocalVolatilityStock(lambda t_, s_: s_, dt=dt, dtype=torch.float64)
                    u.register_buffer("volatility", tens(torch, mk["vol"]))
                    deriv = {"call": mk["call"], "simulated": False, "has_vol": True}
                    markets = [empty_market(K, dt, None, vol_rows[p_]) for p_ in range(N)]
                elif scen == "no_volatility":
                    u = pin.HestonStock(dt=dt, dtype=torch.float64)
                    u.register_buffer("spot", tens(torch, mk["spot"]))
                    deriv = {"call": mk["call"], "simulated": True, "has_vol": False}
                    markets = [empty_market(K, dt, spot_rows[p_], None) for p_ in range(N)]
                else:
                    u = (pin.BrownianStock(sigma=float(mk["sigma"]), dt=dt, dtype=torch.float64) if g.chance(0.5)
                         else pin.HestonStock(dt=dt, dtype=torch.float64))
                    deriv = {"call": mk["call"], "simulated": False, "has_vol": False}
                    markets = [empty_market(K, dt) for p_ in range(N)]
                d = getattr(pin, option)(u, call=mk["call"], strike=K, maturity=(T - 1) * dt)
            cst, mod, _ = call_impl(build_module, how, option, d)
        if cst != "ok":
            tie.add(case, option, what, build, N, T, markets, deriv, ctor, ov, ("err", mod), None, None)
            ctx.stats[f"edge:construct:{mod}"] += 1
            continue
        rst, rres, _ = call_impl(acquire_fn(pd), derivative=getattr(mod, "derivative", None), **ov)
        st, got, _ = call_impl(getattr(mod, what), **ov)
        ctx.stats[f"edge:outcome:{'ok' if st == 'ok' else got}"] += 1
        tie.add(case, option, what, build, N, T, markets, deriv, ctor, ov,
                ("ok", getattr(mod, "call", None), getattr(mod, "strike", float("nan"))), (rst, rres), (st, got))
    # (e) the functional forms (prices and deltas of all four option types) and the modules' methods called with their arguments
    #   POSITIONALLY in the documented order (trailing arguments that equal their documented default left out half of the time;
    #   the strike a number or a tensor; one element or a vector): the quoted value is the value for the GIVEN strike / flag /
    #   running maximum, i.e. equals the all-keyword call bit for bit, the module form BS<Option>(call, strike).<what>(...)
    #   (itself called positionally and by keyword), the Lean model (op bs) and, on a subsample, the integrated expected payoff
    import pfhedge.nn.functional as fnl
    items3, metas3 = [], []
    q_ = ctx.tier == "quick"
    # (the two-dimensional quadrature of the path-dependent payoffs takes seconds per point: thorough tier only)
    n_or = {"european_price": 4 if q_ else 40, "european_binary_price": 4 if q_ else 40, "american_binary_price": 0 if q_ else 8,
            "lookback_price": 0 if q_ else 8}
    for _ in range(240 if ctx.tier == "quick" else 3000):
        option = g.choice(OPTION_TYPES)
        what = g.choice(["price", "price", "delta"])
        fn = MODULE_FN[option] + "_" + what
        order = POS_ORDER[fn]
        pd = option in ("LookbackOption", "AmericanBinaryOption")
        call = True if pd else g.chance(0.5)
        n_el = g.choice([1, 1, 3])
        pts = [gen_point(g, pd) for _ in range(n_el)]
        k = g.choice([pts[0][3], 1.0, 2.5, 0.35])
        strike_tensor = "strike" in order and g.chance(0.3)
        vec = lambda i: torch.tensor([p_[i] for p_ in pts], dtype=torch.float64)
        vals = {"log_moneyness": vec(0), "time_to_maturity": vec(1), "volatility": vec(2), "max_log_moneyness": vec(4),
                "strike": torch.full((n_el,), k, dtype=torch.float64) if strike_tensor else k, "call": call}
        if n_el == 1 and g.chance(0.3):      # 0-dimensional tensors
            vals = {a: (x.reshape(()) if isinstance(x, torch.Tensor) else x) for a, x in vals.items()}
        args = [vals[a] for a in order]
        while len(args) > 3 and order[len(args) - 1] in POS_DEFAULT.get(fn, {}) and not isinstance(args[-1], torch.Tensor) \
                and args[-1] == POS_DEFAULT[fn][order[len(args) - 1]] and g.chance(0.5):
            args.pop()
        case = {"fn": fn, "positional": [a for a in order[:len(args)]], "s": [p_[0] for p_ in pts], "t": [p_[1] for p_ in pts],
                "v": [p_[2] for p_ in pts], "m": [p_[4] for p_ in pts], "k": k, "strike_is_tensor": strike_tensor, "call": call,
                "shape": list(vals["log_moneyness"].shape)}
        ctx.case(case, True, tag="positional")
        ctx.stats[f"positional:{fn}"] += 1
        ctx.traces += 1
        f = getattr(fnl, "bs_" + fn)
        st, pos, mut = call_impl(f, *args)
        if mut:
            ctx.mutated("bs_" + fn, mut, case)
        if st != "ok":
            ctx.fail(f"bs_{fn} called with its arguments in the documented positional order raised", case, key=f"bs_{fn}:positional:error", detail=pos)
            continue
        st, kw, _ = call_impl(f, **{a: vals[a] for a in order})
        if st != "ok":
            ctx.fail("bs price raised inside the parameter box", case, key=f"bs_{fn}:error", detail=kw)
            continue
        shape = tuple(vals["log_moneyness"].shape)
        if tuple(pos.shape) != shape or tuple(kw.shape) != shape:
            ctx.fail(f"bs_{fn} does not return one value per element", case, key=f"bs_{fn}:positional:shape", detail=[list(pos.shape), list(kw.shape)])
            continue
        pl, kl = pos.detach().reshape(-1).tolist(), kw.detach().reshape(-1).tolist()
        if any(float_bits(a) != float_bits(b) and not (a != a and b != b) for a, b in zip(pl, kl)):
            ctx.fail(f"bs_{fn}(...) with the arguments given positionally in the documented order {order} differs from the same call by keyword "
                     "(the value quoted is not the one for the given strike / call flag / running maximum)", case, key=f"bs_{fn}:positional",
                     detail={"positional": pl, "keyword": kl})
        # the module form, positionally and by keyword
        st, mod, _ = call_impl(getattr(pnn, "BS" + option), call, k)
        if st != "ok":
            ctx.fail("constructing BS<Option>(call, strike) positionally raised", case, key=f"bs_module:{option}:positional:construct", detail=mod)
            continue
        if bool(getattr(mod, "call", None)) != call or getattr(mod, "strike", None) != k:
            ctx.fail("BS<Option>(call, strike) built positionally does not carry the given flag and strike", case,
                     key=f"bs_module:{option}:positional:construct", detail={"call": getattr(mod, "call", None), "strike": getattr(mod, "strike", None)})
            continue
        names = [a for a in order if a not in ("strike", "call")]
        st1, mpos, _ = call_impl(getattr(mod, what), *[vals[a] for a in names])
        st2, mkw, _ = call_impl(getattr(mod, what), **{a: vals[a] for a in names})
        if st1 != "ok" or st2 != "ok":
            ctx.fail(f"module.{what}() with all inputs given raised", case, key=f"bs_module:{option}:positional:error", detail=[str(mpos)[:100], str(mkw)[:100]])
            continue
        ml, mkl = mpos.detach().reshape(-1).tolist(), mkw.detach().reshape(-1).tolist()
        if tuple(mpos.shape) != shape or any(float_bits(a) != float_bits(b) and not (a != a and b != b) for a, b in zip(ml, mkl)):
            ctx.fail(f"module.{what}(...) with the inputs given positionally in the documented order differs from the same call by keyword", case,
                     key=f"bs_module:{option}:positional:{what}", detail={"positional": ml, "keyword": mkl})
        for i, (a, b) in enumerate(zip(pl, mkl)):
            if not rel_close(a, b, 1e-9, 1e-11):
                ctx.fail(f"bs_{fn} called positionally differs from the module form BS{option}(call, strike).{what} at the same inputs", case | {"element": i},
                         key=f"bs_{fn}:positional:module", detail={"functional": a, "module": b})
                break
        for i, p_ in enumerate(pts):
            if fn != "lookback_delta":          # no closed form in the model (autograd of the price)
                items3.append((fn, call, [p_[0], p_[1], p_[2], k, p_[4]]))
                metas3.append((case | {"element": i}, pl[i]))
        # the defining expectation on a subsample
        if n_or.get(fn, 0) > 0 and pts[0][1] <= 3.0 and pts[0][2] >= 0.05:
            n_or[fn] -= 1
            s, t, v, _, m = pts[0]
            try:
                if fn == "european_price":
                    exp = expectation_terminal((lambda S: max(S - k, 0.0)) if call else (lambda S: max(k - S, 0.0)), s, t, v, k)
                elif fn == "european_binary_price":
                    exp = expectation_terminal((lambda S: 1.0 if S >= k else 0.0) if call else (lambda S: 1.0 if S <= k else 0.0), s, t, v, k)
                elif fn == "american_binary_price":
                    exp = 1.0 if m >= 0 else expectation_pathdep(lambda ST, M: 1.0 if M >= k else 0.0, s, m, t, v, k, kink=-s / v)
                else:
                    exp = expectation_pathdep(lambda ST, M: max(M - k, 0.0), s, m, t, v, k, kink=(max(m, 0.0) - s) / v)
            except Exception as e:  # noqa
                raise InternalError("expectation oracle failed: " + repr(e))
            ctx.stats[f"oracle:positional:{fn}"] += 1
            if abs(pl[0] - exp) > 2e-6 * max(1.0, k):
                ctx.fail(f"bs_{fn} called positionally differs from the numerically integrated expected payoff", case | {"element": 0},
                         key=f"bs_{fn}:positional:expectation", detail={"impl": pl[0], "integral": exp})
    # (f) underliers BUILT with non-default attributes that must not enter the zero-rate risk-neutral price (round 5): a physical drift
    #   mu != 0 (BrownianStock, MertonJumpStock, KouJumpStock, a user-defined BrownianStock subclass whose DEFAULTS are a drifted, costly,
    #   weekly-stepped stock), non-default transaction cost, time step and jump parameters, HestonStock with non-default kappa / theta /
    #   sigma / rho.  The underlier is really simulated (torch seed drawn from g), the module is built from the derivative both ways and
    #   priced from its state, without inputs and with a proper subset given explicitly: the quote must be the functional form at the
    #   SIMULATED state (spot, running maximum, remaining steps * dt, the underlier's volatility) and the derivative's strike / flag —
    #   only these enter the expectation — and, at the first step, the numerically integrated expected payoff; every call is also sent
    #   to the model of the resolution layer (op bs_module: the model's market has no drift, cost or jump parameters at all).
    #   The (option type x drifted primary) corpus runs on every tier and for every seed; every scenario has mu != 0.
    class DriftStock(pin.BrownianStock):
        """a user-defined primary: BrownianStock with other defaults"""

        def __init__(self, sigma=0.3, mu=0.25, cost=1e-3, dt=1 / 52, dtype=None, device=None):
            super().__init__(sigma=sigma, mu=mu, cost=cost, dt=dt, dtype=dtype, device=device)

    DRIFTED = ["BrownianStock", "MertonJumpStock", "KouJumpStock", "DriftStock"]
    scen_f = [(o_, p_) for o_ in OPTION_TYPES for p_ in DRIFTED]
    scen_f += [(g.choice(OPTION_TYPES), g.choice(DRIFTED + ["HestonStock", "DriftStock(defaults)"])) for _ in range(4 if q_ else 80)]
    n_pd_or = 1 if q_ else 6
    for i_f, (option, primary) in enumerate(scen_f):
        pd = option in ("LookbackOption", "AmericanBinaryOption")
        call = True if pd else g.chance(0.5)
        K = g.choice([0.9, 1.0, 1.1, 1.25, round(g.r.uniform(0.8, 1.3), 2)])
        mu = g.choice([0.15, -0.4, 0.05, -0.1, 0.5, 1.0, -1.0, round(g.r.uniform(0.02, 0.6), 3), -round(g.r.uniform(0.02, 0.6), 3)])
        sigma = g.choice([0.1, 0.2, 0.3, 0.5])
        cost = g.choice([1e-4, 1e-3, 0.01])
        dt = g.choice([1 / 50, 1 / 100, 1 / 365, 0.01, 1 / 52, 1 / 12 if primary in ("BrownianStock", "DriftStock") else 1 / 64])
        steps = g.choice([3, 4, 6])
        n_paths = g.choice([1, 2, 3])
        attrs = {"sigma": sigma, "mu": mu, "cost": cost, "dt": dt}
        if primary == "MertonJumpStock":
            attrs |= {"jump_per_year": g.choice([20.0, 68, 40.0]), "jump_mean": g.choice([-0.02, 0.0, 0.03]), "jump_std": g.choice([0.01, 0.03])}
        elif primary == "KouJumpStock":
            attrs |= {"jump_per_year": g.choice([20.0, 68.0, 40.0]), "jump_mean_up": g.choice([0.02, 0.04]), "jump_mean_down": g.choice([0.05, 0.03]),
                      "jump_up_prob": g.choice([0.3, 0.5, 0.7])}
        elif primary == "HestonStock":
            attrs = {"kappa": g.choice([0.5, 2.0, 3.0]), "theta": g.choice([0.02, 0.09, 0.16]), "sigma": g.choice([0.1, 0.3]),
                     "rho": g.choice([-0.3, 0.0, 0.5]), "cost": cost, "dt": dt}
        elif primary == "DriftStock(defaults)":
            attrs = {}
        cls_u = DriftStock if primary.startswith("DriftStock") else getattr(pin, primary)
        u = cls_u(dtype=torch.float64, **attrs)
        d = getattr(pin, option)(u, call=call, strike=K, maturity=steps * u.dt)
        drift = float(getattr(u, "mu", 0.0))
        for _try in range(8):       # keep the simulated state inside the property's box (log-moneyness in [-1,1], volatility > 0)
            tseed = g.randint(0, 2 ** 31 - 1)
            torch.manual_seed(tseed)
            d.simulate(n_paths=n_paths)
            spot = u.spot.detach().clone()
            vol = u.variance.detach().clamp(min=0.0).sqrt() if primary == "HestonStock" else torch.full_like(spot, float(u.sigma))
            if bool(((spot / K).log().abs() <= 1.0).all()) and bool((vol > 0).all()) and bool((vol <= 2.0).all()):
                break
        else:
            raise InternalError(f"scenario construction: no simulated state of {primary} {attrs} inside the box")
        N, T = spot.shape
        state = derivative_state(torch, spot, vol, K, float(u.dt))
        valid = (state["time_to_maturity"] > 0) & (state["volatility"] > 0)
        how_tie = ("BlackScholes", "from_derivative")[i_f % 2]
        case0 = {"option": option, "primary": primary, "attributes": attrs, "mu": drift, "call": call, "strike": K, "steps": steps,
                 "n_paths": n_paths, "torch_seed": tseed, "spot": spot.tolist(), "volatility": vol[:, 0].tolist() if primary != "HestonStock" else vol.tolist()}
        ctx.stats[f"attributes:{primary}"] += 1
        ctx.stats["attributes:mu!=0" if drift != 0 else "attributes:mu==0"] += 1
        markets = [{"spot": enc_flt(spot[p_].tolist()), "variance": enc_flt((vol[p_] * vol[p_]).tolist()), "volatility": enc_flt(vol[p_].tolist()),
                    "listed": enc_flt(spot[p_].tolist()), "dt": float_bits(float(u.dt)), "strike": float_bits(K), "oracle": enc_flt([0.0] * T)}
                   for p_ in range(N)]
        names = [n_ for n_ in STATE_NAMES if pd or n_ != "max_log_moneyness"]
        for how in ("BlackScholes", "from_derivative"):
            st, mod, _ = call_impl(build_module, how, option, d)
            if st != "ok":
                ctx.fail("building the pricing module from a derivative raised", case0 | {"built": how}, key=f"bs_module:{option}:construct:error", detail=mod)
                continue
            calls = [("price", {}), ("delta", {})]
            # a proper, non-empty subset of the inputs given explicitly (inside the box; running maximum >= spot)
            given = sorted(g.r.sample(names, g.randint(1, len(names) - 1)))
            ov = {}
            if "time_to_maturity" in given:
                ov["time_to_maturity"] = shaped(N, T, "full", 0.01, 5.0)
            if "volatility" in given:
                ov["volatility"] = shaped(N, T, "full", 0.02, 2.0)
            if "log_moneyness" in given:
                ov["log_moneyness"] = (state["max_log_moneyness"] - shaped(N, T, "full", 0.0, 0.5)) if pd and "max_log_moneyness" not in given \
                    else shaped(N, T, "full", -1.0, 1.0)
            if "max_log_moneyness" in given:
                ov["max_log_moneyness"] = (ov["log_moneyness"] if "log_moneyness" in given else state["log_moneyness"]) + shaped(N, T, "full", 0.0, 0.6)
            calls.append((g.choice(["price", "price", "delta"]), ov))
            for what, ov_ in calls:
                case = case0 | {"built": how, "method": what, "given": {k_: v_.tolist() for k_, v_ in ov_.items()}}
                ctx.case(case, True, tag="module_attributes")
                ctx.traces += 1
                st, got, mut = call_impl(getattr(mod, what), watch=[("derivative", d)], **ov_)
                if mut:
                    ctx.mutated(f"BSModule.{what}", mut, case)
                if how == how_tie:
                    rst, rres, _ = call_impl(acquire_fn(pd), derivative=getattr(mod, "derivative", None), **ov_)
                    tie.add(case, option, what, "from_derivative", N, T, markets, {"call": call, "simulated": True, "has_vol": True}, None, ov_,
                            ("ok", getattr(mod, "call", None), getattr(mod, "strike", float("nan"))), (rst, rres), (st, got))
                if st != "ok":
                    ctx.fail(f"module.{what}() of a module built from a derivative on an underlier with non-default attributes raised", case,
                             key=f"bs_module:{option}:underlier-attributes:error", detail=got)
                    continue
                st_ = state | ov_
                exp = functional_at(torch, option, what, st_, K, call)
                ok_ = torch.broadcast_to((st_["time_to_maturity"] > 0) & (st_["volatility"] > 0), (N, T))
                compare_grid(ctx, got, exp, ok_, case, f"bs_module:{option}:underlier-attributes:{'partial-override' if ov_ else what}",
                             f"module.{what}() of a module built from a derivative whose underlier was constructed with non-default attributes "
                             f"(drift mu = {drift}, cost, dt, jump / mean-reversion parameters) differs from the functional form at the "
                             + ("given inputs and the remaining simulated state" if ov_ else "simulated state (spot, running maximum, remaining steps * dt, volatility)")
                             + ": an attribute that does not enter the zero-rate risk-neutral expectation enters the quote")
                # the defining expectation at the first step (no history: running maximum = spot), from the state formed here
                if what == "price" and not ov_ and how == how_tie and tuple(got.shape) == (N, T) and bool(valid[0, 0]) \
                        and float(state["time_to_maturity"][0, 0]) <= 3.0 and float(vol[0, 0]) >= 0.05 and (not pd or n_pd_or > 0):
                    s0, t0, v0 = float(state["log_moneyness"][0, 0]), float(state["time_to_maturity"][0, 0]), float(vol[0, 0])
                    try:
                        if option == "EuropeanOption":
                            exp0 = expectation_terminal((lambda S: max(S - K, 0.0)) if call else (lambda S: max(K - S, 0.0)), s0, t0, v0, K)
                        elif option == "EuropeanBinaryOption":
                            exp0 = expectation_terminal((lambda S: 1.0 if S >= K else 0.0) if call else (lambda S: 1.0 if S <= K else 0.0), s0, t0, v0, K)
                        elif option == "AmericanBinaryOption":
                            n_pd_or -= 1
                            exp0 = 1.0 if s0 >= 0 else expectation_pathdep(lambda ST, M: 1.0 if M >= K else 0.0, s0, s0, t0, v0, K, kink=-s0 / v0)
                        else:
                            n_pd_or -= 1
                            exp0 = expectation_pathdep(lambda ST, M: max(M - K, 0.0), s0, s0, t0, v0, K, kink=(max(s0, 0.0) - s0) / v0)
                    except Exception as e:  # noqa
                        raise InternalError("expectation oracle failed: " + repr(e))
                    ctx.stats[f"oracle:attributes:{option}"] += 1
                    if abs(float(got[0, 0]) - exp0) > 2e-6 * max(1.0, K):
                        ctx.fail("the price quoted by the module built from a derivative on an underlier with non-default attributes differs from the "
                                 "numerically integrated zero-rate expected payoff at the simulated state", case | {"s": s0, "t": t0, "v": v0},
                                 key=f"bs_module:{option}:underlier-attributes:expectation", detail={"module": float(got[0, 0]), "integral": exp0})
    # (g) simulated states whose TIME GRID ENDS AFTER derivative.maturity (round 6).  A primary simulates the minimum number of steps
    #   covering the horizon, the payoff is a function of the whole simulated series, and derivative.time_to_maturity() is grid based:
    #   at step i of T the payoff is fixed (T - 1 - i) * dt later.  Whenever the maturity is not a multiple of dt, the underlier was
    #   simulated directly over a longer horizon, is shared with a longer-dated derivative that ran the simulation, or carries a
    #   registered series longer than the maturity, the grid time at the early steps EXCEEDS derivative.maturity.  The module built from
    #   the derivative, priced without an explicit time_to_maturity (no inputs at all, or a proper subset that leaves the time to the
    #   derivative; a subset that gives it as control), must quote the functional form at the state formed here from spot, dt and the
    #   grid, which is the expected payoff from that state (integrated at the first step); every call also goes to the model of the
    #   resolution layer (op bs_module: its time to maturity is the grid's).  Option type x origin corpus on every tier and seed.
    ORIGINS_G = ["non_multiple", "longer_horizon", "shared_underlier", "registered_series"]
    scen_g = [(o_, og_) for o_ in OPTION_TYPES for og_ in ORIGINS_G]
    scen_g += [(g.choice(OPTION_TYPES), g.choice(ORIGINS_G)) for _ in range(0 if q_ else 60)]
    n_pd_or_g = 0 if q_ else 4
    for i_g, (option, origin) in enumerate(scen_g):
        pd = option in ("LookbackOption", "AmericanBinaryOption")
        call = True if pd else g.chance(0.5)
        if origin == "registered_series":
            mk = gen_market(g, primary=g.choice(["BrownianStock", "HestonStock"]))
            mk["vol"] = [[x if x > 0 else type(x)(1) / 4 for x in r] for r in mk["vol"]]
            mk["var"] = [[x * x for x in r] for r in mk["vol"]]
            mk["option"], mk["call"] = option, call
            d_full, u = build_derivative(torch, mk)
            dt, K, primary = float(mk["dt"]), float(mk["strike"]), mk["primary"]
            short = g.choice([0.5, 1.0, 1.5, 2.0, 0.25, (mk["T"] - 1) / 2, mk["T"] - 1.5])
            maturity = max((mk["T"] - 1) - short, 0.5) * dt
            d = getattr(pin, option)(u, call=call, strike=K, maturity=maturity)
            spot, vol = tens(torch, mk["spot"]), tens(torch, mk["vol"])
            tseed, n_paths = None, mk["N"]
        else:
            primary = g.choice(["BrownianStock", "BrownianStock", "MertonJumpStock", "HestonStock"]) if i_g >= len(OPTION_TYPES) * len(ORIGINS_G) else "BrownianStock"
            K = g.choice([0.9, 1.0, 1.04, 1.1, 1.25])
            sigma = g.choice([0.1, 0.2, 0.25, 0.3, 0.5])
            dt = g.choice([0.01, 1 / 50, 1 / 250, 1 / 64, 1 / 100])
            steps = g.choice([3, 4, 6, 12])
            n_paths = g.choice([1, 2, 3])
            u = pin.HestonStock(dt=dt, dtype=torch.float64) if primary == "HestonStock" else getattr(pin, primary)(sigma=sigma, dt=dt, dtype=torch.float64)
            extra = g.choice([1, 2, 5])
            if origin == "non_multiple":
                maturity = (steps - 1 + g.choice([0.5, 0.33, 0.25, 0.75, 0.9, 0.1])) * dt
            else:
                maturity = steps * dt
            d = getattr(pin, option)(u, call=call, strike=K, maturity=maturity)
            for _try in range(8):
                tseed = g.randint(0, 2 ** 31 - 1)
                torch.manual_seed(tseed)
                if origin == "non_multiple":
                    d.simulate(n_paths=n_paths)
                elif origin == "longer_horizon":
                    u.simulate(n_paths=n_paths, time_horizon=(steps + extra) * dt)
                else:
                    pin.EuropeanOption(u, strike=K, maturity=(steps + extra) * dt).simulate(n_paths=n_paths)
                spot = u.spot.detach().clone()
                vol = u.variance.detach().clamp(min=0.0).sqrt() if primary == "HestonStock" else torch.full_like(spot, sigma)
                if bool(((spot / K).log().abs() <= 1.0).all()) and bool((vol > 0).all()) and bool((vol <= 2.0).all()):
                    break
            else:
                raise InternalError(f"scenario construction: no simulated state of {primary} inside the box")
        N, T = spot.shape
        if not (T - 1) * dt > maturity * (1 + 1e-9):
            raise InternalError(f"scenario construction: the time grid ({T} points, dt {dt}) does not end after the maturity {maturity}")
        state = derivative_state(torch, spot, vol, K, dt)
        valid = (state["time_to_maturity"] > 0) & (state["volatility"] > 0)
        case0 = {"grid_beyond_maturity": origin, "option": option, "primary": primary, "call": call, "strike": K, "dt": dt, "maturity": maturity,
                 "grid_points": T, "grid_end": (T - 1) * dt, "n_paths": N, "torch_seed": tseed, "spot": spot.tolist(), "volatility": vol.tolist()}
        ctx.stats[f"grid-beyond-maturity:{origin}"] += 1
        markets = [{"spot": enc_flt(spot[p_].tolist()), "variance": enc_flt((vol[p_] * vol[p_]).tolist()), "volatility": enc_flt(vol[p_].tolist()),
                    "listed": enc_flt(spot[p_].tolist()), "dt": float_bits(dt), "strike": float_bits(K), "oracle": enc_flt([0.0] * T)}
                   for p_ in range(N)]
        names = [n_ for n_ in STATE_NAMES if pd or n_ != "max_log_moneyness"]
        how_tie = ("BlackScholes", "from_derivative")[i_g % 2]
        for how in ("BlackScholes", "from_derivative"):
            st, mod, _ = call_impl(build_module, how, option, d)
            if st != "ok":
                ctx.fail("building the pricing module from a derivative raised", case0 | {"built": how}, key=f"bs_module:{option}:construct:error", detail=mod)
                continue
            calls = [("price", {}), ("delta", {})]
            for with_time in (False, True):       # a proper subset given explicitly: the time left to the derivative / given (control)
                rest = [n_ for n_ in names if n_ != "time_to_maturity"]
                given = sorted(g.r.sample(rest, g.randint(1, len(rest) - (1 if with_time else 0)))) + (["time_to_maturity"] if with_time else [])
                ov = {}
                if "time_to_maturity" in given:
                    ov["time_to_maturity"] = shaped(N, T, "full", 0.01, 5.0)
                if "volatility" in given:
                    ov["volatility"] = shaped(N, T, "full", 0.02, 2.0)
                if "log_moneyness" in given:
                    ov["log_moneyness"] = (state["max_log_moneyness"] - shaped(N, T, "full", 0.0, 0.5)) if pd and "max_log_moneyness" not in given \
                        else shaped(N, T, "full", -1.0, 1.0)
                if "max_log_moneyness" in given:
                    ov["max_log_moneyness"] = (ov["log_moneyness"] if "log_moneyness" in given else state["log_moneyness"]) + shaped(N, T, "full", 0.0, 0.6)
                calls.append((g.choice(["price", "price", "delta"]), ov))
            for what, ov_ in calls:
                case = case0 | {"built": how, "method": what, "given": {k_: v_.tolist() for k_, v_ in ov_.items()}}
                ctx.case(case, True, tag="module_grid_beyond_maturity")
                ctx.traces += 1
                st, got, mut = call_impl(getattr(mod, what), watch=[("derivative", d)], **ov_)
                if mut:
                    ctx.mutated(f"BSModule.{what}", mut, case)
                if how == how_tie:
                    rst, rres, _ = call_impl(acquire_fn(pd), derivative=getattr(mod, "derivative", None), **ov_)
                    tie.add(case, option, what, "from_derivative", N, T, markets, {"call": call, "simulated": True, "has_vol": True}, None, ov_,
                            ("ok", getattr(mod, "call", None), getattr(mod, "strike", float("nan"))), (rst, rres), (st, got))
                if st != "ok":
                    ctx.fail(f"module.{what}() of a module built from a derivative whose simulated time grid ends after its maturity raised", case,
                             key=f"bs_module:{option}:grid-beyond-maturity:error", detail=got)
                    continue
                st_ = state | ov_
                exp = functional_at(torch, option, what, st_, K, call)
                ok_ = torch.broadcast_to((st_["time_to_maturity"] > 0) & (st_["volatility"] > 0), (N, T))
                compare_grid(ctx, got, exp, ok_, case, f"bs_module:{option}:grid-beyond-maturity:{'partial-override' if ov_ else what}",
                             f"module.{what}() of a module built from a derivative whose simulated time grid ends after derivative.maturity ({origin}: "
                             f"{T} points, dt {dt}, maturity {maturity}) differs from the functional form at the simulated state with the grid-based "
                             "time to maturity (T - 1 - i) * dt, the time after which the payoff of the simulated series is fixed")
                if what == "price" and not ov_ and how == how_tie and tuple(got.shape) == (N, T) and bool(valid[0, 0]) \
                        and float(state["time_to_maturity"][0, 0]) <= 3.0 and float(vol[0, 0]) >= 0.05 and (not pd or n_pd_or_g > 0):
                    s0, t0, v0 = float(state["log_moneyness"][0, 0]), float(state["time_to_maturity"][0, 0]), float(vol[0, 0])
                    try:
                        if option == "EuropeanOption":
                            exp0 = expectation_terminal((lambda S: max(S - K, 0.0)) if call else (lambda S: max(K - S, 0.0)), s0, t0, v0, K)
                        elif option == "EuropeanBinaryOption":
                            exp0 = expectation_terminal((lambda S: 1.0 if S >= K else 0.0) if call else (lambda S: 1.0 if S <= K else 0.0), s0, t0, v0, K)
                        elif option == "AmericanBinaryOption":
                            n_pd_or_g -= 1
                            exp0 = 1.0 if s0 >= 0 else expectation_pathdep(lambda ST, M: 1.0 if M >= K else 0.0, s0, s0, t0, v0, K, kink=-s0 / v0)
                        else:
                            n_pd_or_g -= 1
                            exp0 = expectation_pathdep(lambda ST, M: max(M - K, 0.0), s0, s0, t0, v0, K, kink=(max(s0, 0.0) - s0) / v0)
                    except Exception as e:  # noqa
                        raise InternalError("expectation oracle failed: " + repr(e))
                    ctx.stats[f"oracle:grid-beyond-maturity:{option}"] += 1
                    if abs(float(got[0, 0]) - exp0) > 2e-6 * max(1.0, K):
                        ctx.fail("the price quoted by the module built from a derivative whose simulated time grid ends after its maturity differs from "
                                 "the numerically integrated expected payoff of the simulated series' last element, from the state at the first step",
                                 case | {"s": s0, "t": t0, "v": v0}, key=f"bs_module:{option}:grid-beyond-maturity:expectation",
                                 detail={"module": float(got[0, 0]), "integral": exp0})
    # (h) call / put flags that are truthy / falsy objects but NOT Python bools (round 6): numpy.bool_ (a flag read from an array or a
    #   data frame), the integers 1 / 0, a 0-dimensional boolean tensor.  The payoff functions, derivatives and modules take the flag by
    #   truth value; EVERY functional form of pfhedge.nn.functional with a `call` parameter (payoffs, prices and Greeks: found by
    #   inspection of the signatures), every BS<Option>(call=flag, strike) module (price and all Greeks; construction outcome) and
    #   every derivative <Option>(underlier, call=flag) with the module built from it both ways must behave bit for bit as with the
    #   corresponding Python bool: same payoff, same price, same Greeks, same error kind.  The flag-valued results also go to the Lean
    #   model (ops bs / bs_module, with the bool), to the functional form at the state formed here and, for puts, to the integrated
    #   expected payoff.  The (entry point x flag form x truth value) corpus runs on every tier and seed.
    import inspect
    import numpy

    def eq_bits(a, b):
        if not (isinstance(a, torch.Tensor) and isinstance(b, torch.Tensor)) or tuple(a.shape) != tuple(b.shape) or a.dtype != b.dtype:
            return False
        al, bl = a.detach().reshape(-1).tolist(), b.detach().reshape(-1).tolist()
        return all(float_bits(x) == float_bits(y) or (x != x and y != y) for x, y in zip(al, bl))

    FLAG_FORMS = {"numpy.bool_": lambda b: numpy.bool_(b), "int": lambda b: int(b), "0-dim bool tensor": lambda b: torch.tensor(b)}
    call_fns = sorted(nm for nm, f in vars(fnl).items() if inspect.isfunction(f) and not nm.startswith("_") and "call" in inspect.signature(f).parameters)
    if not {"european_payoff", "bs_european_price", "bs_european_binary_price", "bs_european_delta"} <= set(call_fns):
        raise InternalError(f"functional forms with a call parameter: {call_fns}")
    n_or_h = {"bs_european_price": 3, "bs_european_binary_price": 3}
    for rnd in range(1 if q_ else 6):
        for nm in call_fns:
            f = getattr(fnl, nm)
            params = list(inspect.signature(f).parameters)
            for form, mkflag in FLAG_FORMS.items():
                for b in (False, True):
                    n_el = g.choice([1, 3])
                    pts = [gen_point(g, False) for _ in range(n_el)]
                    k = g.choice([pts[0][3], 1.0, 1.1, 0.35])
                    vec = lambda i: torch.tensor([p_[i] for p_ in pts], dtype=torch.float64)
                    n_in = g.choice([2, 4])
                    vals = {"log_moneyness": vec(0), "time_to_maturity": vec(1), "volatility": vec(2), "strike": k,
                            "input": torch.tensor([[g.r.uniform(0.5, 2.0) for _ in range(n_in)] + [k] for _ in range(n_el)], dtype=torch.float64)}
                    unknown = [a for a in params if a not in vals and a != "call"]
                    if unknown:
                        raise InternalError(f"{nm}: parameters {unknown} not known to the harness")
                    case = {"fn": nm[3:] if nm.startswith("bs_") else nm, "call_flag": form, "truth": b, "s": [p_[0] for p_ in pts], "t": [p_[1] for p_ in pts],
                            "v": [p_[2] for p_ in pts], "k": k, "input": vals["input"].tolist() if "input" in params else None}
                    ctx.case(case, True, tag="call_flag:functional")
                    ctx.stats[f"call_flag:{form}"] += 1
                    ctx.traces += 1
                    kw = {a: vals[a] for a in params if a != "call"}
                    st1, got, mut = call_impl(f, call=mkflag(b), **kw)
                    st2, ref, _ = call_impl(f, call=b, **kw)
                    if mut:
                        ctx.mutated(nm, mut, case)
                    if st2 != "ok":
                        ctx.fail(f"{nm} raised inside the parameter box", case, key=f"{nm}:error", detail=ref)
                        continue
                    if st1 != "ok" or not eq_bits(got, ref):
                        ctx.fail(f"{nm}(..., call={form}({b})) differs from the same call with the Python bool {b}: a {'truthy' if b else 'falsy'} call/put "
                                 f"flag that is not a bool is not treated as a {'call' if b else 'put'}", case, key=f"{nm}:call-flag",
                                 detail={"flag": got.tolist() if st1 == "ok" else got, "bool": ref.tolist()})
                        continue
                    if nm.startswith("bs_"):
                        gl = got.reshape(-1).tolist()
                        for i, p_ in enumerate(pts):
                            items3.append((nm[3:], b, [p_[0], p_[1], p_[2], k, p_[0]]))
                            metas3.append((case | {"element": i}, gl[i]))
                    if not b and n_or_h.get(nm, 0) > 0 and pts[0][1] <= 3.0 and pts[0][2] >= 0.05:
                        n_or_h[nm] -= 1
                        s, t, v = pts[0][0], pts[0][1], pts[0][2]
                        try:
                            exp = expectation_terminal((lambda S: max(k - S, 0.0)) if nm == "bs_european_price" else (lambda S: 1.0 if S <= k else 0.0), s, t, v, k)
                        except Exception as e:  # noqa
                            raise InternalError("expectation oracle failed: " + repr(e))
                        ctx.stats[f"oracle:call_flag:{nm}"] += 1
                        if abs(float(got.reshape(-1)[0]) - exp) > 2e-6 * max(1.0, k):
                            ctx.fail(f"{nm} with a falsy non-bool call flag differs from the numerically integrated expected PUT payoff", case | {"element": 0},
                                     key=f"{nm}:call-flag:expectation", detail={"impl": float(got.reshape(-1)[0]), "integral": exp})
        # modules BS<Option>(call=flag, strike) and derivatives <Option>(underlier, call=flag)
        for option in OPTION_TYPES:
            pd = option in ("LookbackOption", "AmericanBinaryOption")
            for form, mkflag in FLAG_FORMS.items():
                for b in (False, True):
                    # -- the module form
                    n_el = g.choice([1, 3])
                    pts = [gen_point(g, pd) for _ in range(n_el)]
                    k = g.choice([pts[0][3], 1.0, 1.1, 0.35])
                    vec = lambda i: torch.tensor([[p_[i] for p_ in pts]], dtype=torch.float64)
                    ins = {"log_moneyness": vec(0), "time_to_maturity": vec(1), "volatility": vec(2)} | ({"max_log_moneyness": vec(4)} if pd else {})
                    case = {"module": "BS" + option, "call_flag": form, "truth": b, "s": [p_[0] for p_ in pts], "t": [p_[1] for p_ in pts],
                            "v": [p_[2] for p_ in pts], "m": [p_[4] for p_ in pts], "k": k}
                    ctx.case(case, True, tag="call_flag:module")
                    ctx.traces += 1
                    cs1, mod1, _ = call_impl(getattr(pnn, "BS" + option), call=mkflag(b), strike=k)
                    cs2, mod2, _ = call_impl(getattr(pnn, "BS" + option), call=b, strike=k)
                    if cs1 != cs2 or (cs1 != "ok" and mod1 != mod2):
                        ctx.fail(f"BS{option}(call={form}({b})) is {'built' if cs1 == 'ok' else 'rejected (' + str(mod1) + ')'} while the same construction with "
                                 f"the Python bool {b} is {'built' if cs2 == 'ok' else 'rejected (' + str(mod2) + ')'}", case, key=f"bs_module:{option}:call-flag:construct")
                    elif cs1 == "ok":
                        if bool(getattr(mod1, "call", None)) != b:
                            ctx.fail(f"BS{option}(call={form}({b})) does not carry the truth value of the given flag", case,
                                     key=f"bs_module:{option}:call-flag:construct", detail=repr(getattr(mod1, "call", None)))
                        for what in ("price", "delta", "gamma", "vega", "theta"):
                            s1, a1, _ = call_impl(getattr(mod1, what), **ins)
                            s2, a2, _ = call_impl(getattr(mod2, what), **ins)
                            if s2 != "ok":
                                ctx.fail(f"module.{what}() with all inputs given raised", case, key=f"bs_module:{option}:positional:error", detail=a2)
                            elif s1 != "ok" or not eq_bits(a1, a2):
                                ctx.fail(f"BS{option}(call={form}({b}), strike).{what}(...) differs from the module built with the Python bool {b}", case | {"method": what},
                                         key=f"bs_module:{option}:call-flag:{what}", detail={"flag": a1.tolist() if s1 == "ok" else a1, "bool": a2.tolist()})
                            if what in ("price", "delta"):
                                rst, rres, _ = call_impl(acquire_fn(pd), derivative=None, **ins)
                                tie.add(case | {"method": what}, option, what, "init", 1, n_el, None, None, (b, k), ins,
                                        ("ok", getattr(mod1, "call", None), getattr(mod1, "strike", float("nan"))), (rst, rres), (s1, a1))
                    else:
                        tie.add(case, option, "price", "init", 1, n_el, None, None, (b, k), ins, ("err", mod1), None, None)
                    # -- the derivative, its payoff and the module built from it
                    mk = gen_market(g, T=g.choice([3, 4, 5]), primary="BrownianStock")
                    mk["vol"] = [[x if x > 0 else type(x)(1) / 4 for x in r] for r in mk["vol"]]
                    mk["var"] = [[x * x for x in r] for r in mk["vol"]]
                    mk["option"], mk["call"] = option, b
                    d_b, u = build_derivative(torch, mk)
                    N, T, K, dt = mk["N"], mk["T"], float(mk["strike"]), float(mk["dt"])
                    d_f = getattr(pin, option)(u, call=mkflag(b), strike=K, maturity=(T - 1) * dt)
                    how = g.choice(["BlackScholes", "from_derivative"])
                    case = {"option": option, "call_flag": form, "truth": b, "built": how, "strike": rat_str(mk["strike"]), "spot": enc_rat(mk["spot"]),
                            "vol": enc_rat(mk["vol"]), "dt": rat_str(mk["dt"])}
                    ctx.case(case, True, tag="call_flag:derivative")
                    ctx.traces += 1
                    ps1, pay1, _ = call_impl(d_f.payoff)
                    ps2, pay2, _ = call_impl(d_b.payoff)
                    if ps1 != "ok" or ps2 != "ok" or not eq_bits(pay1, pay2):
                        ctx.fail(f"the payoff of {option}(underlier, call={form}({b})) differs from the payoff with the Python bool {b}", case,
                                 key=f"derivative:{option}:call-flag:payoff", detail={"flag": str(pay1)[:200], "bool": str(pay2)[:200]})
                    cs1, mod1, _ = call_impl(build_module, how, option, d_f)
                    cs2, mod2, _ = call_impl(build_module, how, option, d_b)
                    if cs1 != cs2 or (cs1 != "ok" and mod1 != mod2):
                        ctx.fail(f"the pricing module of {option}(underlier, call={form}({b})) is {'built' if cs1 == 'ok' else 'rejected'} while for the Python "
                                 f"bool {b} it is {'built' if cs2 == 'ok' else 'rejected'}", case, key=f"bs_module:{option}:call-flag:construct", detail=[str(mod1)[:80], str(mod2)[:80]])
                        continue
                    markets = [market_json(mk, p_) for p_ in range(N)]
                    if cs1 != "ok":
                        tie.add(case, option, "price", "from_derivative", N, T, markets, {"call": b, "simulated": True, "has_vol": True}, None, {}, ("err", mod1), None, None)
                        continue
                    state = derivative_state(torch, tens(torch, mk["spot"]), tens(torch, mk["vol"]), K, dt)
                    for what in ("price", "delta"):
                        with torch.no_grad():
                            s1, a1, _ = call_impl(getattr(mod1, what))
                            s2, a2, _ = call_impl(getattr(mod2, what))
                        if what == "price" or g.chance(0.5):
                            rst, rres, _ = call_impl(acquire_fn(pd), derivative=getattr(mod1, "derivative", None))
                            tie.add(case | {"method": what}, option, what, "from_derivative", N, T, markets, {"call": b, "simulated": True, "has_vol": True}, None, {},
                                    ("ok", getattr(mod1, "call", None), getattr(mod1, "strike", float("nan"))), (rst, rres), (s1, a1))
                        if s2 != "ok":
                            ctx.fail(f"BlackScholes(derivative).{what}() raised", case, key=f"bs_module:{option}:error", detail=a2)
                            continue
                        if s1 != "ok" or not eq_bits(a1, a2):
                            ctx.fail(f"the module built from {option}(underlier, call={form}({b})) quotes a {what} that differs from the one for the Python bool {b}",
                                     case | {"method": what}, key=f"bs_module:{option}:call-flag:{what}", detail={"flag": a1.tolist() if s1 == "ok" else a1, "bool": a2.tolist()})
                            continue
                        exp = functional_at(torch, option, what, state, K, b)
                        compare_grid(ctx, a1, exp, (state["time_to_maturity"] > 0) & (state["volatility"] > 0), case | {"method": what},
                                     f"bs_module:{option}:call-flag:{what}",
                                     f"the module built from {option}(underlier, call={form}({b})) differs from the functional form with call={b} at the simulated state")
    # (i) results of the accessors of the simulated state MODIFIED IN PLACE by the caller (round 7).  derivative.moneyness / log_moneyness /
    #   max_moneyness / max_log_moneyness / time_to_maturity (time_step None and given, log False / True) and underlier.volatility hand
    #   out results computed from the simulated state (on the unchanged code none of them is the buffer: underlier.spot and Heston's
    #   variance ARE the buffers and are not part of this class).  A caller that post-processes such a result in place (percent, excess
    #   over 1, log, clamp, ...) works on its own tensor: the module built from the derivative (the accessor's derivative itself, or a
    #   sibling derivative on the same underlier) must afterwards still quote the functional form at the state that was SIMULATED — formed
    #   here from copies of the buffers taken before the accessor was called — and the same call goes to the model of the resolution
    #   layer (op bs_module, market = the copies).  Strike exactly 1.0 and another strike for every option type on every tier and seed.
    ACCESSORS = [(nm_, ts_, lg_) for ts_ in (False, True) for nm_, lgs_ in (("moneyness", (False, True)), ("log_moneyness", (None,)),
                 ("max_moneyness", (False, True)), ("max_log_moneyness", (None,)), ("time_to_maturity", (None,))) for lg_ in lgs_]
    ACCESSORS.append(("ul().volatility", False, None))
    INPLACE = {"mul_(100.0)": lambda r: r.mul_(100.0), "sub_(1.0)": lambda r: r.sub_(1.0), "log_()": lambda r: r.log_(), "zero_()": lambda r: r.zero_(),
               "neg_()": lambda r: r.neg_(), "exp_()": lambda r: r.exp_(), "r *= 100": lambda r: r.__imul__(100), "r[...] = 2.5": lambda r: r.__setitem__(..., 2.5),
               "add_(0.75)": lambda r: r.add_(0.75), "clamp_(max=0.25)": lambda r: r.clamp_(max=0.25)}
    scen_i = [(o_, unit_, "own") for o_ in OPTION_TYPES for unit_ in (True, False)]
    scen_i += [(g.choice(OPTION_TYPES), g.chance(0.5), g.choice(["own", "sibling", "sibling"])) for _ in range(4 if q_ else 60)]
    for i_i, (option, unit, via) in enumerate(scen_i):
        pd = option in ("LookbackOption", "AmericanBinaryOption")
        call = True if pd else g.chance(0.5)
        K = 1.0 if unit else g.choice([0.9, 1.1, 1.25, 2.0, round(g.r.uniform(0.8, 1.3), 2)])
        primary = g.choice(["BrownianStock", "BrownianStock", "HestonStock"])
        sigma, dt, steps, n_paths = g.choice([0.1, 0.2, 0.3, 0.5]), g.choice([1 / 50, 1 / 250, 1 / 100]), g.choice([3, 4, 6]), g.choice([1, 2, 3])
        u = pin.HestonStock(dt=dt, dtype=torch.float64) if primary == "HestonStock" else pin.BrownianStock(sigma=sigma, dt=dt, dtype=torch.float64)
        d = getattr(pin, option)(u, call=call, strike=K, maturity=steps * dt)
        if via == "sibling":      # another derivative on the same underlier (it shares the simulated state)
            K2 = g.choice([1.0, 1.0, K, 1.2])
            src = getattr(pin, g.choice(OPTION_TYPES))(u, strike=K2, maturity=steps * dt)
        else:
            K2, src = K, d
        for _try in range(8):
            tseed = g.randint(0, 2 ** 31 - 1)
            torch.manual_seed(tseed)
            d.simulate(n_paths=n_paths)
            spot0 = u.spot.detach().clone()
            var0 = u.variance.detach().clone() if primary == "HestonStock" else None
            vol0 = var0.clamp(min=0.0).sqrt() if primary == "HestonStock" else torch.full_like(spot0, sigma)
            if bool(((spot0 / K).log().abs() <= 1.0).all()) and bool((vol0 > 0).all()) and bool((vol0 <= 2.0).all()):
                break
        else:
            raise InternalError(f"scenario construction: no simulated state of {primary} inside the box")
        N, T = spot0.shape
        state = derivative_state(torch, spot0, vol0, K, dt)
        valid = (state["time_to_maturity"] > 0) & (state["volatility"] > 0)
        markets = [{"spot": enc_flt(spot0[p_].tolist()), "variance": enc_flt((vol0[p_] * vol0[p_]).tolist()), "volatility": enc_flt(vol0[p_].tolist()),
                    "listed": enc_flt(spot0[p_].tolist()), "dt": float_bits(dt), "strike": float_bits(K), "oracle": enc_flt([0.0] * T)}
                   for p_ in range(N)]
        case0 = {"option": option, "primary": primary, "call": call, "strike": K, "dt": dt, "n_paths": N, "torch_seed": tseed,
                 "accessor_of": via if via == "own" else {"sibling": type(src).__name__, "strike": K2}, "spot": spot0.tolist(), "volatility": vol0.tolist()}
        mods = {}
        for how in ("BlackScholes", "from_derivative"):
            st, mod, _ = call_impl(build_module, how, option, d)
            if st != "ok":
                ctx.fail("building the pricing module from a derivative raised", case0 | {"built": how}, key=f"bs_module:{option}:construct:error", detail=mod)
            else:
                mods[how] = mod
        if len(mods) < 2:
            continue
        for nm_, with_ts, lg_ in ACCESSORS:
            ts_ = g.randint(0, T - 1) if with_ts else None
            op_ = g.choice(sorted(INPLACE))
            how, what = g.choice(["BlackScholes", "from_derivative"]), g.choice(["price", "price", "delta"])
            label = nm_ + ("" if nm_.startswith("ul()") else "(" + ", ".join(([f"time_step={ts_}"] if with_ts else []) + ([f"log={lg_}"] if lg_ is not None else [])) + ")")
            case = case0 | {"accessor": label, "caller_then": op_, "built": how, "method": what}
            ctx.case(case, True, tag="module_accessor_result_modified")
            ctx.stats[f"accessor-modified:{nm_}"] += 1
            ctx.traces += 1
            try:
                if nm_.startswith("ul()"):
                    res = src.ul().volatility
                else:
                    res = getattr(src, nm_)(**({"time_step": ts_} if with_ts else {}) | ({"log": lg_} if lg_ is not None else {}))
            except Exception as e:  # noqa
                ctx.fail(f"derivative.{label} raised on a simulated derivative", case, key=f"derivative:{nm_}:error", detail=repr(e)[:200])
                continue
            try:
                INPLACE[op_](res)
                ctx.stats["accessor-modified:in-place-done"] += 1
            except RuntimeError:      # an expanded result (time to maturity of several paths) refuses in-place writes: nothing was modified
                ctx.stats["accessor-modified:in-place-refused"] += 1
            changed = [b_ for b_, ref_ in (("spot", spot0), ("variance", var0)) if ref_ is not None and not eq_bits(u.get_buffer(b_), ref_)]
            mod = mods[how]
            st, got, mut = call_impl(getattr(mod, what), watch=[("derivative", d)])
            if mut:
                ctx.mutated(f"BSModule.{what}", mut, case)
            if g.chance(0.4):
                rst, rres, _ = call_impl(acquire_fn(pd), derivative=getattr(mod, "derivative", None))
                tie.add(case, option, what, "from_derivative", N, T, markets, {"call": call, "simulated": True, "has_vol": True}, None, {},
                        ("ok", getattr(mod, "call", None), getattr(mod, "strike", float("nan"))), (rst, rres), (st, got))
            why = (f"after the caller modified the RESULT of {'the sibling derivative ' + type(src).__name__ + '(strike=' + str(K2) + ') on the same underlier' if via != 'own' else 'derivative'}"
                   f".{label} in place ({op_}), module.{what}() of the module built from the derivative ")
            if st != "ok":
                ctx.fail(why + "raised: the accessor's result aliases the simulated state", case, key=f"bs_module:{option}:accessor-result-modified:{nm_}:error",
                         detail={"error": got, "buffers_rewritten": changed})
            else:
                compare_grid(ctx, got, functional_at(torch, option, what, state, K, call), valid, case | {"buffers_rewritten": changed},
                             f"bs_module:{option}:accessor-result-modified:{nm_}",
                             why + "differs from the functional form at the state that was simulated (copies of the buffers taken before): "
                             "the accessor's result aliases the simulated state and the module prices the caller's numbers")
            if changed:       # the next accessor starts from the simulated state again
                u.register_buffer("spot", spot0.clone())
                if var0 is not None:
                    u.register_buffer("variance", var0.clone())
    # (j) derivatives that carry FURTHER REGISTERED UNDERLIERS (round 8).  register_underlier(name, primary) / `derivative.name = primary`
    #   is the public way to attach a second instrument (a benchmark, a hedging instrument, a volatility proxy) to a derivative, and a
    #   user-defined option subclass may register one in its constructor.  The option's payoff, strike and state remain those of
    #   derivative.underlier: the module built from the derivative must quote the functional form at the state of THAT instrument —
    #   spot, running maximum, remaining steps * dt AND volatility, all formed here from copies of the buffers of derivative.underlier —
    #   whatever the name of the other instrument (sorting before / after "underlier", upper case, underscore), its class (a
    #   BrownianStock with another sigma and dt, HestonStock, MertonJumpStock), the way (register_underlier / attribute assignment /
    #   subclass constructor) and the moment it was registered (before simulate: simulated along with the derivative; after simulate:
    #   not simulated at all, or simulated on its own with another number of paths and horizon; registered and the derivative simulated
    #   again).  derivative.ul(), documented as the alias of derivative.underlier, must be that object.  Every call also goes to the
    #   model of the resolution layer (op bs_module: the market is the own underlier's), the European kinds to the integrated expected
    #   payoff at the first step.  Option type x name position corpus on every tier and seed (moment / way / class rotate over it).
    def fits_state(x, shape):
        try:
            return tuple(torch.broadcast_shapes(tuple(x.shape), shape)) == tuple(shape)
        except RuntimeError:
            return False

    NAMES_J = {"before": ["benchmark", "hedge", "a_stock", "Z", "_ref", "underlie", "Underlier"], "after": ["vol_proxy", "z_other", "underlier2", "underlying"]}
    WHEN_J = ["before_simulate", "after_simulate:not_simulated", "after_simulate:simulated_on_its_own", "after_simulate:derivative_simulated_again"]
    WAY_J = ["register_underlier", "setattr", "subclass"]
    OTHER_J = ["BrownianStock", "HestonStock", "MertonJumpStock"]
    scen_j = [(o_, pos_, WHEN_J[(2 * i_ + j_) % 4], WAY_J[(i_ + 2 * j_) % 3], OTHER_J[(i_ + j_) % 3], "BrownianStock")
              for i_, o_ in enumerate(OPTION_TYPES) for j_, pos_ in enumerate(("before", "after"))]
    scen_j += [(g.choice(OPTION_TYPES), g.choice(["before", "before", "after"]), g.choice(WHEN_J), g.choice(WAY_J), g.choice(OTHER_J),
                g.choice(["BrownianStock", "BrownianStock", "HestonStock"])) for _ in range(4 if q_ else 80)]
    for i_j, (option, pos, when, way, other_cls, primary) in enumerate(scen_j):
        pd = option in ("LookbackOption", "AmericanBinaryOption")
        call = True if pd else g.chance(0.5)
        name = g.choice(NAMES_J[pos])
        K = g.choice([0.9, 1.0, 1.05, 1.1, 1.25])
        sigma = g.choice([0.1, 0.2, 0.3])
        sigma2 = g.choice([0.45, 0.6, 0.8, 0.05])
        dt, steps, n_paths = g.choice([1 / 50, 1 / 250, 1 / 100]), g.choice([3, 4, 6]), g.choice([1, 2, 3])
        dt2 = g.choice([dt, dt, 1 / 64, 1 / 365])
        if way == "subclass":     # a user-defined option whose constructor registers the second instrument
            when = "before_simulate"
        n_paths2, horizon2 = n_paths + g.choice([0, 1, 2]), (steps + g.choice([0, 2, 5])) * dt2
        for _try in range(8):       # fresh objects per attempt: the simulated state must lie inside the property's box
            u = pin.HestonStock(dt=dt, dtype=torch.float64) if primary == "HestonStock" else pin.BrownianStock(sigma=sigma, dt=dt, dtype=torch.float64)
            other = pin.HestonStock(theta=0.25, dt=dt2, dtype=torch.float64) if other_cls == "HestonStock" \
                else getattr(pin, other_cls)(sigma=sigma2, dt=dt2, dtype=torch.float64)
            tseed = g.randint(0, 2 ** 31 - 1)
            torch.manual_seed(tseed)
            if way == "subclass":

                class TwoUnderliers(getattr(pin, option)):
                    def __init__(self, underlier, second, second_name, **kw):
                        super().__init__(underlier, **kw)
                        self.register_underlier(second_name, second)

                d = TwoUnderliers(u, other, name, call=call, strike=K, maturity=steps * dt)
                d.simulate(n_paths=n_paths)
            else:
                d = getattr(pin, option)(u, call=call, strike=K, maturity=steps * dt)
                if when != "before_simulate":
                    d.simulate(n_paths=n_paths)
                if way == "register_underlier":
                    d.register_underlier(name, other)
                else:
                    setattr(d, name, other)
                if when == "before_simulate" or when == "after_simulate:derivative_simulated_again":
                    d.simulate(n_paths=n_paths)
                elif when == "after_simulate:simulated_on_its_own":
                    other.simulate(n_paths=n_paths2, time_horizon=horizon2)
            spot = u.spot.detach().clone()
            vol = u.variance.detach().clamp(min=0.0).sqrt() if primary == "HestonStock" else torch.full_like(spot, sigma)
            if bool(((spot / K).log().abs() <= 1.0).all()) and bool((vol > 0).all()) and bool((vol <= 2.0).all()):
                break
        else:
            raise InternalError(f"scenario construction: no simulated state of {primary} inside the box")
        N, T = spot.shape
        state = derivative_state(torch, spot, vol, K, dt)
        valid = (state["time_to_maturity"] > 0) & (state["volatility"] > 0)
        try:
            other_vol = other.volatility.detach()
            other_vol = {"shape": list(other_vol.shape), "first": float(other_vol.reshape(-1)[0])}
        except Exception:  # noqa  (not simulated)
            other_vol = "not simulated"
        case0 = {"option": option, "primary": primary, "call": call, "strike": K, "dt": dt, "n_paths": N, "torch_seed": tseed,
                 "further_underlier": {"name": name, "sorts": pos + " 'underlier'", "class": other_cls, "sigma": sigma2 if other_cls != "HestonStock" else None, "dt": dt2,
                                       "registered": when, "by": way, "volatility": other_vol},
                 "spot": spot.tolist(), "volatility": vol.tolist()}
        ctx.stats[f"extra-underlier:{pos}:{when}"] += 1
        ctx.stats[f"extra-underlier:{way}:{other_cls}"] += 1
        reg = dict(d._underliers) if hasattr(d, "_underliers") else {}
        if not (reg.get("underlier") is u and reg.get(name) is other and len(reg) == 2 and d.underlier is u):
            raise InternalError(f"scenario construction: the derivative's registry is {sorted(reg)}")
        ctx.case(case0, True, tag="module_extra_underlier")
        st, first, _ = call_impl(d.ul)
        if st != "ok" or first is not u:
            ctx.fail(f"derivative.ul() (documented as the alias of derivative.underlier) is not derivative.underlier once a further instrument is registered "
                     f"under the name '{name}' ({when}, by {way})", case0, key=f"derivative:{option}:extra-underlier:ul",
                     detail=first if st != "ok" else {"ul()": repr(first), "underlier": repr(u)})
        markets = [{"spot": enc_flt(spot[p_].tolist()), "variance": enc_flt((vol[p_] * vol[p_]).tolist()), "volatility": enc_flt(vol[p_].tolist()),
                    "listed": enc_flt(spot[p_].tolist()), "dt": float_bits(dt), "strike": float_bits(K), "oracle": enc_flt([0.0] * T)}
                   for p_ in range(N)]
        names = [n_ for n_ in STATE_NAMES if pd or n_ != "max_log_moneyness"]
        hows = ("from_derivative",) if way == "subclass" else ("BlackScholes", "from_derivative")   # BlackScholes(...) looks the class name up
        how_tie = hows[i_j % len(hows)]
        for how in hows:
            st, mod, _ = call_impl(build_module, how, option, d)
            if st != "ok":
                ctx.fail("building the pricing module from a derivative raised", case0 | {"built": how}, key=f"bs_module:{option}:construct:error", detail=mod)
                continue
            if getattr(mod, "strike", None) != K or bool(getattr(mod, "call", None)) != call:
                ctx.fail("the module built from a derivative with a further registered underlier does not carry the derivative's strike / call flag",
                         case0 | {"built": how}, key=f"bs_module:{option}:extra-underlier:construct", detail={"strike": getattr(mod, "strike", None), "call": getattr(mod, "call", None)})
            calls = [("price", {}), ("delta", {})]
            # a proper subset given explicitly; the volatility is left to the derivative in the first, drawn in the second
            for leave_vol in (True, False):
                rest = [n_ for n_ in names if n_ != "volatility"] if leave_vol else names
                given = sorted(g.r.sample(rest, g.randint(1, len(rest) - (0 if leave_vol else 1))))
                ov = {}
                if "time_to_maturity" in given:
                    ov["time_to_maturity"] = shaped(N, T, "full", 0.01, 5.0)
                if "volatility" in given:
                    ov["volatility"] = shaped(N, T, "full", 0.02, 2.0)
                if "log_moneyness" in given:
                    ov["log_moneyness"] = (state["max_log_moneyness"] - shaped(N, T, "full", 0.0, 0.5)) if pd and "max_log_moneyness" not in given \
                        else shaped(N, T, "full", -1.0, 1.0)
                if "max_log_moneyness" in given:
                    ov["max_log_moneyness"] = (ov["log_moneyness"] if "log_moneyness" in given else state["log_moneyness"]) + shaped(N, T, "full", 0.0, 0.6)
                calls.append((g.choice(["price", "price", "delta"]), ov))
            for what, ov_ in calls:
                case = case0 | {"built": how, "method": what, "given": {k_: v_.tolist() for k_, v_ in ov_.items()}}
                ctx.case(case, True, tag="module_extra_underlier")
                ctx.traces += 1
                st, got, mut = call_impl(getattr(mod, what), watch=[("derivative", d)], **ov_)
                if mut:
                    ctx.mutated(f"BSModule.{what}", mut, case)
                if how == how_tie:
                    rst, rres, _ = call_impl(acquire_fn(pd), derivative=getattr(mod, "derivative", None), **ov_)
                    if rst == "ok" and not all(fits_state(x, (N, T)) for x in rres):
                        rst, rres = "err", "resolved input of another shape than the derivative's state"   # (reported below by the predicate)
                    tie.add(case, option, what, "from_derivative", N, T, markets, {"call": call, "simulated": True, "has_vol": True}, None, ov_,
                            ("ok", getattr(mod, "call", None), getattr(mod, "strike", float("nan"))), (rst, rres), (st, got))
                if st != "ok":
                    ctx.fail(f"module.{what}() of a module built from a simulated derivative that carries a further registered underlier ('{name}', {when}) raised",
                             case, key=f"bs_module:{option}:extra-underlier:error", detail=got)
                    continue
                st_ = state | ov_
                exp = functional_at(torch, option, what, st_, K, call)
                ok_ = torch.broadcast_to((st_["time_to_maturity"] > 0) & (st_["volatility"] > 0), (N, T))
                compare_grid(ctx, got, exp, ok_, case, f"bs_module:{option}:extra-underlier:{'partial-override' if ov_ else what}",
                             f"module.{what}() of a module built from a derivative on which a further instrument is registered (name '{name}' sorting {pos} "
                             f"'underlier', {other_cls}, {when}, by {way}) differs from the functional form at the "
                             + ("given inputs and the remaining state" if ov_ else "state")
                             + " of derivative.underlier (spot, running maximum, remaining steps * dt and ITS volatility): the quote mixes in the other instrument")
                if what == "price" and not ov_ and how == how_tie and not pd and tuple(got.shape) == (N, T) and bool(valid[0, 0]) \
                        and float(state["time_to_maturity"][0, 0]) <= 3.0 and float(vol[0, 0]) >= 0.05:
                    s0, t0, v0 = float(state["log_moneyness"][0, 0]), float(state["time_to_maturity"][0, 0]), float(vol[0, 0])
                    try:
                        if option == "EuropeanOption":
                            exp0 = expectation_terminal((lambda S: max(S - K, 0.0)) if call else (lambda S: max(K - S, 0.0)), s0, t0, v0, K)
                        else:
                            exp0 = expectation_terminal((lambda S: 1.0 if S >= K else 0.0) if call else (lambda S: 1.0 if S <= K else 0.0), s0, t0, v0, K)
                    except Exception as e:  # noqa
                        raise InternalError("expectation oracle failed: " + repr(e))
                    ctx.stats[f"oracle:extra-underlier:{option}"] += 1
                    if abs(float(got[0, 0]) - exp0) > 2e-6 * max(1.0, K):
                        ctx.fail("the price quoted by the module built from a derivative with a further registered underlier differs from the numerically "
                                 "integrated expected payoff under the volatility of the option's own underlier, from the state at the first step",
                                 case | {"s": s0, "t": t0, "v": v0}, key=f"bs_module:{option}:extra-underlier:expectation",
                                 detail={"module": float(got[0, 0]), "integral": exp0})
    try:
        mv3 = model_vals(ctx, items3)
    except DriverBroken as e:
        ctx.ties_broken.append({"kind": "driver", "detail": str(e)[:1500]})
        mv3 = []
    for (case, got), m_ in zip(metas3, mv3):
        tol = (1e-10, 1e-12) if case["fn"].endswith("_price") else (1e-9, 1e-11)
        if isinstance(m_, tuple) or not rel_close(got, m_, *tol):
            ctx.disagree("bs_positional", case, got, m_)
    tie.compare()
    ctx.stats["bs_module:requests"] = len(tie.reqs)
    return ctx.finish(
        rule="prices over log-moneyness [-1,1] x t (0,5] x v (0,2] x K (0.1,10], running max >= spot incl. equality and exactly at the strike, "
             "float64/float32, broadcast shapes; BS modules from derivatives on injected markets (all inputs from the derivative; a proper subset given explicitly in "
             "full / column / row / scalar shapes; the same stock, derivative and module over three simulations with changed sigma / paths; put derivatives of "
             "all four option types through BlackScholes and from_derivative; underliers CONSTRUCTED with non-default attributes that do not enter the price — drift mu != 0 "
             "(BrownianStock / MertonJumpStock / KouJumpStock / a user-defined BrownianStock subclass with other defaults), cost, dt, jump parameters, Heston kappa / theta / "
             "sigma / rho — really simulated, every option type x drifted primary on every tier, priced without inputs and with a proper subset given, price and delta, "
             "against the functional form at the simulated state, the integrated expected payoff at the first step and the model of the resolution layer); the resolution layer against its model (op bs_module: partial overrides, modules "
             "without a derivative, unsimulated underliers, underliers without volatility / without spot, puts, unexpected keyword: resolved tuple, value and "
             "error kind per (path, step)); simulated states whose time grid ends after derivative.maturity (maturity not a multiple of dt, underlier simulated over a "
             "longer horizon / by a longer-dated derivative, registered series longer than the maturity) priced without an explicit time_to_maturity against the "
             "functional form at the grid-based time, the integrated expected payoff and the model of the resolution layer; call/put flags given as numpy.bool_ / int / "
             "0-dim bool tensor to every functional form with a call parameter, every BS module (price and Greeks) and every derivative (payoff, module built from it), "
             "bitwise against the Python bool, the model and the functional form; results of the derivative's accessors (moneyness / log_moneyness / max_moneyness / "
             "max_log_moneyness / time_to_maturity with time_step None and given, log False / True; underlier.volatility; own derivative or a sibling on the same underlier; "
             "strike exactly 1.0 and other strikes) modified in place by the caller, then the module built from the derivative against the functional form at copies of the "
             "simulated buffers taken before and the model of the resolution layer; derivatives carrying a FURTHER REGISTERED UNDERLIER (name sorting before / after "
             "'underlier'; BrownianStock with another sigma and dt / HestonStock / MertonJumpStock; by register_underlier / attribute assignment / a user subclass's constructor; "
             "before simulate, after simulate unsimulated / simulated on its own / derivative simulated again; every option type x name position on every tier): ul() is "
             "derivative.underlier, the module built from the derivative (no inputs, proper subsets given) against the functional form at the state AND volatility of "
             "derivative.underlier, the integrated expected payoff (European kinds) and the model of the resolution layer; numerical-integration oracle on a subsample; "
             "every case non-trivial; distinct = sha1 of canonical case",
        explanation="European and European-binary prices: equality with the defining expectation is a theorem (Props/C07). American binary and lookback: "
                    "the expectation identity is NOT proved (no Brownian-motion/reflection principle in Mathlib) — partial; validated numerically by the "
                    "scipy dblquad oracle against the joint law of (W_T, max W).")
