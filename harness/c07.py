"""C07 — Black-Scholes prices equal the expected payoff under the model.

correspondence: bs_*_price functional forms over the property's box and the BS modules built from a
derivative (strike, call flag, simulated state) vs the Lean model (Model/BS.lean, Float carrier).
predicate / search support (labelled as such): numerical integration of the payoff against the
lognormal law (European, binary) and against the joint law of (W_T, max W) (American binary,
lookback) with scipy.integrate — independent of the closed forms.
"""
import math
from common import *  # noqa
from bs_common import *  # noqa
from hedge_common import gen_market, build_derivative, inject

SQ2PI = math.sqrt(2 * math.pi)


def npdf(x):
    return math.exp(-x * x / 2) / SQ2PI


def expectation_terminal(payoff, s, t, v, k):
    """E payoff(S_T), S_T = K e^{s + w z - w^2/2}  (mpmath quadrature, split at the kink S_T = K)"""
    import mpmath as mp
    mp.mp.dps = 20
    w = v * math.sqrt(t)
    f = lambda z: payoff(k * mp.exp(s + w * z - w * w / 2)) * mp.exp(-z * z / 2) / mp.sqrt(2 * mp.pi)
    z0 = min(max((-s + w * w / 2) / w, -12.0), 12.0)
    return float(mp.quad(f, [-12, z0, 12 + abs(w)]))


def expectation_pathdep(payoff, s, m0, t, v, k, kink=None):
    """E payoff(S_T, max(M_0, max_t S_t)) for X_u = mu u + W_u (volatility units), mu = -v/2:
    joint density of (X_T = x, max X = y), y >= max(x,0):
        f(x,y) = 2(2y-x)/(T sqrt(2 pi T)) exp(-(2y-x)^2/(2T)) exp(mu x - mu^2 T/2)
    (reflection principle + Girsanov) — independent of the closed forms under test."""
    import mpmath as mp
    mp.mp.dps = 15
    mu = -v / 2.0
    T = t
    sq = math.sqrt(T)

    def dens(x, y):
        return 2 * (2 * y - x) / (T * mp.sqrt(2 * mp.pi * T)) * mp.exp(-(2 * y - x) ** 2 / (2 * T)) * mp.exp(mu * x - mu * mu * T / 2)

    def inner(y):
        Mx = k * mp.exp(max(m0, s + v * y))
        return mp.quad(lambda x: payoff(k * mp.exp(s + v * x), Mx) * dens(x, y), [y - 12 * sq - 1, y])
    pts = [0.0]
    if kink is not None and 0 < kink < 10 * sq + 1:
        pts.append(kink)
    pts.append(10 * sq + 1)
    return float(mp.quad(inner, pts))


def check(ctx):
    torch, pfhedge = import_impl()
    g = ctx.gen
    ctx.lean_gate()
    fns = ["european_price", "european_binary_price", "american_binary_price", "lookback_price"]
    n = 1200 if ctx.tier == "quick" else 20000
    items, metas = [], []
    for _ in range(n):
        fn = g.choice(fns)
        pd = fn in ("american_binary_price", "lookback_price")
        s, t, v, k, m = gen_point(g, pd)
        call = g.chance(0.5) if not pd else True
        dtype = g.weighted([("float64", 4), ("float32", 1)])
        st, val, _ = call_impl(call_bs, torch, fn, s, t, v, k, m, call, getattr(torch, dtype))
        case = {"fn": fn, "s": s, "t": t, "v": v, "k": k, "m": m, "call": call, "dtype": dtype}
        ctx.stats[f"fn={fn}"] += 1
        ctx.stats[f"dtype={dtype}"] += 1
        ctx.case(case, True, tag="price")
        ctx.traces += 1
        if st != "ok":
            ctx.fail("bs price raised inside the parameter box", case, key=f"bs_{fn}:error", detail=val)
            continue
        items.append((fn, call, [s, t, v, k, m]))
        metas.append((case, float(val), dtype))
    # broadcasting: a (2,1) log-moneyness against (3,) maturities
    for _ in range(40 if ctx.tier == "quick" else 400):
        fn = g.choice(fns[:2])
        ss = [[g.r.uniform(-1, 1)], [g.r.uniform(-1, 1)]]
        ts = [g.r.uniform(0.05, 3) for _ in range(3)]
        v, k = g.r.uniform(0.05, 1.5), g.choice([1.0, 2.5])
        call = g.chance(0.5)
        st, val, _ = call_impl(call_bs, torch, fn, ss, ts, v, k, None, call)
        case = {"fn": fn, "s": ss, "t": ts, "v": v, "k": k, "call": call, "broadcast": True}
        ctx.case(case, True, tag="broadcast")
        ctx.traces += 1
        if st != "ok" or tuple(val.shape) != (2, 3):
            ctx.fail("bs price does not broadcast its arguments", case, key=f"bs_{fn}:broadcast", detail=str(val)[:100])
            continue
        for i in range(2):
            for j in range(3):
                items.append((fn, call, [ss[i][0], ts[j], v, k, ss[i][0]]))
                metas.append((case | {"i": i, "j": j}, float(val[i, j]), "float64"))
    try:
        mv = model_vals(ctx, items)
    except DriverBroken as e:
        ctx.ties_broken.append({"kind": "driver", "detail": str(e)[:1500]})
        mv = []
    for (case, got, dtype), m_ in zip(metas, mv):
        tol = (1e-10, 1e-12) if dtype == "float64" else (2e-4, 2e-5)
        if isinstance(m_, tuple) or not rel_close(got, m_, *tol):
            ctx.disagree("bs_price", case, got, m_)
    # -------- modules built from a derivative use its strike / call flag / simulated state
    from pfhedge.nn import BlackScholes
    items2, metas2 = [], []
    for _ in range(150 if ctx.tier == "quick" else 1000):
        mk = gen_market(g, primary=g.choice(["BrownianStock", "HestonStock"]))
        mk["vol"] = [[x if x > 0 else type(x)(1) / 4 for x in r] for r in mk["vol"]]
        mk["var"] = [[x * x for x in r] for r in mk["vol"]]
        if mk["option"] in ("LookbackOption", "AmericanBinaryOption"):
            mk["call"] = True      # the BS modules for these two support calls only
        d, u = build_derivative(torch, mk)
        try:
            mod = BlackScholes(d)
        except Exception as e:  # noqa
            raise InternalError("BlackScholes(derivative) failed: " + repr(e))
        with torch.no_grad():
            st, pr, mut = call_impl(mod.price, watch=[("derivative", d)])
        case = {"option": mk["option"], "primary": mk["primary"], "call": mk["call"], "strike": rat_str(mk["strike"]),
                "spot": enc_rat(mk["spot"]), "vol": enc_rat(mk["vol"]), "dt": rat_str(mk["dt"])}
        if mut:
            ctx.mutated("BSModule.price", mut, case)
        ctx.case(case, True, tag="module")
        ctx.stats[f"module={mk['option']}"] += 1
        ctx.traces += 1
        if st != "ok":
            ctx.fail("BlackScholes(derivative).price() raised", case, key=f"bs_module:{mk['option']}:error", detail=pr)
            continue
        N, T = mk["N"], mk["T"]
        if tuple(pr.shape) != (N, T):
            ctx.fail("BlackScholes(derivative).price() has the wrong shape", case, key=f"bs_module:{mk['option']}:shape", detail=list(pr.shape))
            continue
        K = float(mk["strike"])
        fn = {"EuropeanOption": "european_price", "EuropeanBinaryOption": "european_binary_price",
              "AmericanBinaryOption": "american_binary_price", "LookbackOption": "lookback_price"}[mk["option"]]
        for p in range(N):
            run = -math.inf
            for j in range(T):
                S = float(mk["spot"][p][j])
                run = max(run, S)
                s_, m_ = math.log(S / K), math.log(run / K)
                t_ = (T - 1 - j) * float(mk["dt"])
                v_ = float(mk["vol"][p][j])
                if t_ == 0:
                    continue
                items2.append((fn, mk["call"], [s_, t_, v_, K, m_]))
                metas2.append((case | {"path": p, "step": j}, float(pr[p, j])))
    try:
        mv2 = model_vals(ctx, items2)
    except DriverBroken as e:
        ctx.ties_broken.append({"kind": "driver", "detail": str(e)[:1500]})
        mv2 = []
    for (case, got), m_ in zip(metas2, mv2):
        if isinstance(m_, tuple) or not rel_close(got, m_, 1e-9, 1e-11):
            ctx.disagree("bs_module_price", case, got, m_)
            ctx.fail("the pricing module built from a derivative disagrees with the functional form at the derivative's strike, call flag and simulated state",
                     case, key=f"bs_module:{case['option']}:value", detail={"module": got, "functional@state": m_})
    # -------- independent expectation oracle (search support; also run without a disagreement)
    k_or = 16 if ctx.tier == "quick" else 250
    for _ in range(k_or):
        fn = g.choice(fns)
        pd = fn in ("american_binary_price", "lookback_price")
        s, t, v, k, m = gen_point(g, pd)
        t = min(t, 3.0)
        v = max(v, 0.05)
        call = g.chance(0.5) if not pd else True
        got = float(call_bs(torch, fn, s, t, v, k, m, call))
        try:
            if fn == "european_price":
                exp = expectation_terminal((lambda S: max(S - k, 0.0)) if call else (lambda S: max(k - S, 0.0)), s, t, v, k)
            elif fn == "european_binary_price":
                exp = expectation_terminal((lambda S: 1.0 if S >= k else 0.0) if call else (lambda S: 1.0 if S <= k else 0.0), s, t, v, k)
            elif fn == "american_binary_price":
                exp = 1.0 if m >= 0 else expectation_pathdep(lambda ST, M: 1.0 if M >= k else 0.0, s, m, t, v, k, kink=-s / v)
            else:
                exp = expectation_pathdep(lambda ST, M: max(M - k, 0.0), s, m, t, v, k, kink=(max(m, 0.0) - s) / v)
        except Exception as e:  # noqa
            raise InternalError("expectation oracle failed: " + repr(e))
        case = {"fn": fn, "s": s, "t": t, "v": v, "k": k, "m": m, "call": call}
        ctx.case(case, True, tag="oracle")
        ctx.stats[f"oracle:{fn}"] += 1
        if abs(got - exp) > 2e-6 * max(1.0, k):
            ctx.fail(f"bs_{fn} differs from the numerically integrated expected payoff", case, key=f"bs_{fn}:expectation",
                     detail={"impl": got, "integral": exp})
    return ctx.finish(
        rule="prices over log-moneyness [-1,1] x t (0,5] x v (0,2] x K (0.1,10], running max >= spot incl. equality and exactly at the strike, "
             "float64/float32, broadcast shapes; BS modules from derivatives on injected markets; numerical-integration oracle on a subsample; "
             "every case non-trivial; distinct = sha1 of canonical case",
        explanation="European and European-binary prices: equality with the defining expectation is a theorem (Props/C07). American binary and lookback: "
                    "the expectation identity is NOT proved (no Brownian-motion/reflection principle in Mathlib) — partial; validated numerically by the "
                    "scipy dblquad oracle against the joint law of (W_T, max W).")
