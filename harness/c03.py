"""C03 — Batched and stepwise hedge evaluation agree; prev_hedge is the last output.

correspondence: every feature's get(i) and get(None) and Hedger.compute_hedge in both modes vs
the Lean model (Model/Hedger.lean, Float carrier; bitwise on dyadic markets, few ulp for logs).
predicate (real code only): get(i) == get(None)[:, [i]]; batched hedge == forced-stepwise hedge;
recorded model inputs show prev_hedge(i) == output(i-1), zeros of width H at step 0.
Markets include options struck below zero and paths below zero (one sign per path); hedgers are also evaluated through copies
(copy.deepcopy before / after use, pickle round trip, state_dict loaded into a newly built hedger) against a hand-unrolled recurrence.
Default hedge (hedge=None = the derivative's underliers): built-in options and user-defined options with 2-3 registered underliers.
One-feature hedgers whose module works IN PLACE on its input (see `inplace_section`).
Features on user-registered price / variance / volatility series with NON-FINITE entries (NaN, +inf, -inf): get(i) == column i of get(None) only, NaN equal to NaN
(see `nonfinite_section`; real code only).
"""
from fractions import Fraction as F
from common import *  # noqa
from hedge_common import *  # noqa


def near(x, y):
    """hedges built from log features: a few ulp of the logs propagate through dyadic weights"""
    import math
    if x == y or (math.isnan(x) and math.isnan(y)):
        return True
    if math.isinf(x) or math.isinf(y) or math.isnan(x) or math.isnan(y):
        return False
    return abs(x - y) <= 1e-12 * (1 + abs(x))


def vals_equal(a, b, log):
    """nested float lists: bitwise, or within 4 ulp for log features"""
    if isinstance(a, list) != isinstance(b, list):
        return False
    if isinstance(a, list):
        return len(a) == len(b) and all(vals_equal(x, y, log) for x, y in zip(a, b))
    return a == b if not log else close_ulp(a, b, 8)


def signed_market(g, mk, strike=True):
    """legal markets the shared generator never produces: an option struck below zero (floors / caps on rates, spreads) and
    paths below zero.  A path keeps ONE sign, so that a logarithm is defined on the whole path or nowhere (torch's max / cummax
    propagate NaN, the model's `max` keeps its left argument: paths of mixed sign would only compare NaN conventions)."""
    if strike and g.chance(0.3):
        mk["strike"] = -mk["strike"]
    if g.chance(0.3):
        flip = [g.chance(0.6) for _ in range(mk["N"])]
        mk["spot"] = [[-x for x in p] if fl else p for p, fl in zip(mk["spot"], flip)]
    return mk


def sign_class(mk):
    """input class of a market for the failure keys ('' = positive strike, positive paths)"""
    return ":strike<0" if mk["strike"] < 0 else ":spot<0" if any(p[0] < 0 for p in mk["spot"]) else ""


def rebase_market(mk2, mk):
    """a replacement market `mk2` as the objects built on `mk` see it: strike, grid step, pricer of the listed derivative and the
    constant volatility of Brownian / Merton underliers belong to the instruments, not to the injected buffers"""
    mk2 = mk2 | {k: mk[k] for k in ("strike", "dt", "listed", "option", "call", "cost", "sigma")}
    if mk["primary"] in ("BrownianStock", "MertonJumpStock"):
        mk2["vol"] = [[mk["sigma"]] * mk2["T"] for _ in range(mk2["N"])]
        mk2["var"] = [[mk["sigma"] * mk["sigma"]] * mk2["T"] for _ in range(mk2["N"])]
    return mk2


def hedge_usable(name, mk):
    """inputs of a hedging MODEL must be finite (relu / 0 * x of NaN or -inf only compare conventions): a log feature is offered
    only where its argument is positive on every path"""
    a, b = mk["listed"]
    if name == "empty":
        return False
    if name in ("log_moneyness", "max_log_moneyness"):
        return all(x / mk["strike"] > 0 for p in mk["spot"] for x in p)
    if name == "underlier_log_spot":
        return all(x > 0 for p in mk["spot"] for x in p)
    if name == "log_spot":
        return all(x * a + b > 0 for p in mk["spot"] for x in p)
    return True


def blank_model(ms):
    """same architecture, every weight and bias zero (the target of a state_dict round trip)"""
    z = lambda rows: [[F(0)] * len(r) for r in rows]   # noqa
    if ms["kind"] == "linear":
        return dict(ms, w=z(ms["w"]), b=[F(0)] * len(ms["b"]))
    return dict(ms, layers=[dict(w=z(l["w"]), b=[F(0)] * len(l["b"])) for l in ms["layers"]])


def user_derivative(torch, mk, u, others, reg):
    """a USER-DEFINED derivative with several underliers: a sub-class of the built-in option on the first asset `u` that registers the
    further assets its holder trades (BaseDerivative's registry, by register_underlier or by attribute assignment); otherwise as
    hedge_common.build_derivative makes it.  Hedged with the default hedge=None its hedging instruments are ALL its underliers."""
    import pfhedge.instruments as I

    class MultiAsset(getattr(I, mk["option"])):
        def __init__(self, first, others, **kw):
            super().__init__(first, **kw)
            for i, s_ in enumerate(others):
                if reg == "attribute":
                    setattr(self, f"asset{i + 1}", s_)
                else:
                    self.register_underlier(f"asset{i + 1}", s_)
    d = MultiAsset(u, others, call=mk["call"], strike=float(mk["strike"]), maturity=(mk["T"] - 1) * float(mk["dt"]))
    a, b = mk["listed"]
    d.list(lambda dd, a=float(a), b=float(b): dd.ul().spot * a + b, cost=float(mk["cost"]))
    if [id(x) for x in d.underliers()] != [id(u)] + [id(x) for x in others]:
        raise InternalError("the user-defined derivative does not list its underliers in registration order")
    return d


# deterministic corpus (every tier, every seed) of the number of underliers of default-hedge scenarios in the hedge-modes loop
DEFAULT_HEDGE_CORPUS = [2, 3, 2, 1, 2, 3]

# deterministic corpus (every tier, every seed) of the class "the state-dependent input is NOT the last entry of `inputs`": (the
# state-independent features, H, position of prev_hedge among the inputs).  The features are never zero on the generated markets, so the
# zeros of prev_hedge at step 0 show where the model sees them.
PREV_POS_CORPUS = [(["moneyness"], 1, 0), (["moneyness", "time_to_maturity"], 1, 0), (["underlier_spot", "volatility"], 2, 1),
                   (["moneyness", "underlier_spot", "ones"], 2, 0), (["underlier_spot"], 3, 0), (["moneyness", "ones"], 1, 1),
                   (["ones", "moneyness", "underlier_spot"], 1, 2), (["spot", "moneyness"], 2, 1)]
# ... and of the class "the price series of the underlier is longer / shorter than the derivative's own maturity" among the hedgers:
# (state-independent features with the time to maturity among them, H, series length minus grid points up to maturity)
HORIZON_CORPUS = [(["time_to_maturity"], 1, 1), (["moneyness", "time_to_maturity"], 1, -1), (["time_to_maturity", "underlier_spot"], 2, 3),
                  (["time_to_maturity", "moneyness"], 1, -2), (["volatility", "time_to_maturity"], 1, 2), (["time_to_maturity"], 2, -3)]

COPY_KINDS = ["deepcopy_fresh", "deepcopy_used", "pickle_fresh", "state_dict"]


def copy_hedger(ctx, h, kind, rebuild):
    """another hedger object that must behave like `h`: a deep copy, a pickle round trip (where the hedger can be pickled: not
    with a locally defined module), or a newly built hedger of the same architecture that loads h's state_dict"""
    import copy
    import pickle
    if kind == "state_dict":
        h2 = rebuild()
        h2.load_state_dict(h.state_dict())
        return h2
    if kind == "pickle_fresh":
        try:
            h2 = pickle.loads(pickle.dumps(h))
            ctx.stats["copy=pickle(done)"] += 1
            return h2
        except Exception:  # noqa   (not picklable: not a statement of the property)
            ctx.stats["copy=pickle(not picklable -> deepcopy)"] += 1
    return copy.deepcopy(h)


ROUTES = ["inject", "inject", "underlier", "sibling", "derivative", "cast", "deepcopy", "maturity"]


def second_round(torch, g, f, d, u, mk, name):
    """the SAME feature object / derivative, already evaluated step by step on the market `mk`, is evaluated again after
    the prices of the underlier were replaced by a route chosen at random: buffers re-registered with another market
    (possibly another number of paths), the underlier simulated directly, a sibling derivative on the same underlier
    simulated, the derivative itself simulated, the derivative cast to another dtype, or a DEEP COPY of the bound feature (with its
    own derivative and underlier) given another market.  Whatever the feature / the derivative remembered from the first round must
    not show: single steps == columns of the batched value (routes with an injected dyadic market also go to the model).
    The new price series need NOT be as long as the derivative's own maturity: buffers of another length registered by hand, the underlier
    simulated over another horizon, a sibling derivative of another maturity simulated last, or (route "maturity") the derivative's maturity
    edited while the series stays."""
    import pfhedge.instruments as I
    T = mk["T"]
    route = g.choice([r for r in ROUTES if not (name == "module_output" and r == "cast")])   # (the float64 module is not cast)
    info = {"route": route, "class": ":strike<0" if mk["strike"] < 0 else ""}
    mk2 = None
    # grid points of the new series / up to the new maturity: the old ones, or (4 in 10) others
    To = T if g.chance(0.6) else g.choice([t_ for t_ in (2, 3, 4, 6, 9, 13) if t_ != T])
    if route in ("inject", "deepcopy"):
        if route == "deepcopy":
            # a deep copy of the bound feature carries its own derivative and underlier: the COPY is evaluated on another market
            import copy
            f, d = copy.deepcopy((f, d))
            u = d.ul()
        mk2 = rebase_market(signed_market(g, gen_market(g, T=To, primary=mk["primary"]), strike=False), mk)
        inject(torch, u, mk2)
        info |= {"spot": enc_rat(mk2["spot"]), "var": enc_rat(mk2["var"]), "vol": enc_rat(mk2["vol"]), "class": sign_class(mk2)}
    elif route == "cast":
        d.to(torch.float32)
    elif route == "maturity":
        if To == T:
            To = T + g.choice([1, 2, 5]) if (T == 2 or g.chance(0.5)) else g.randint(2, T - 1)
        d.maturity = (To - 1) * float(mk["dt"])
        mk2 = mk                                  # (the injected market of the first round is still there)
    else:
        n2, seed = g.choice([1, 2, 3]), g.randint(0, 10 ** 6)
        info |= {"n_paths": n2, "torch_seed": seed}
        torch.manual_seed(seed)
        horizon = d.maturity if To == T else (To - 1) * float(mk["dt"])
        if route == "underlier":
            st, v, _ = call_impl(u.simulate, n_paths=n2, time_horizon=horizon)
        elif route == "sibling":
            sib = getattr(I, g.choice(OPTION_TYPES))(u, maturity=horizon)
            st, v, _ = call_impl(sib.simulate, n_paths=n2)
        else:
            st, v, _ = call_impl(d.simulate, n_paths=n2)
        if st != "ok":
            raise InternalError(f"second round: simulation by route {route} raised: {v}")
    N2, T2 = u.spot.shape
    info |= {"maturity_steps": round(d.maturity / float(mk["dt"])), "hcls": ":series!=maturity" if round(d.maturity / float(mk["dt"])) != T2 - 1 else ""}
    steps = sorted({0, T2 - 1, g.randint(0, T2 - 1), g.randint(0, T2 - 1)})
    batched_first = g.chance(0.5)
    info |= {"steps": steps, "batched_first": batched_first, "N": N2, "T": T2}
    if batched_first:
        r_all = call_impl(f.get, None)[:2]
    ats = [call_impl(f.get, i)[:2] for i in steps]
    if not batched_first:
        r_all = call_impl(f.get, None)[:2]
    return info, r_all, ats, (N2, T2), u.spot.dtype, mk2


def judge_second_round(ctx, torch, second, case, name, log, fjson=None):
    """returns the (request, meta) pairs for the model (routes with a known dyadic market, all evaluations succeeded)"""
    info, (st_all, v_all), ats, (N, T), dtype, mk2 = second
    case = case | {"second_round": info}
    ctx.case(case, nontrivial=T >= 2, tag="feature_second_round")
    ctx.stats[f"route={info['route']}"] += 1
    key = f"feature:{name}:step-vs-all:after-market-change" + (":copy" if info["route"] == "deepcopy" else "") + info["class"] + info["hcls"]
    ctx.stats["second round: series " + ("!=" if info["hcls"] else "==") + " maturity"] += 1
    if st_all != "ok":
        ctx.fail(f"feature {name}.get(None) raised after the market was replaced ({info['route']})", case, key=key + ":error", detail=v_all)
        return []
    width = v_all.shape[-1]
    if tuple(v_all.shape) != (N, T, width):
        ctx.fail(f"feature {name}.get(None) has shape {tuple(v_all.shape)} on a market of shape {(N, T)}", case, key=key + ":shape")
        return []
    allv = v_all.to(torch.float64).tolist()
    ulp = 2.0 ** -52 if dtype == torch.float64 else 2.0 ** -23
    # tolerance: as in the first round (bitwise; 8 ulp of the dtype for logs and the time to maturity); a module applied to
    # simulated (non-dyadic) prices may accumulate its dot products in another order for one column than for all: 1e-12 relative
    ulps = 8 if (log or name == "time_to_maturity") else 0
    rel = 1e-12 if (name == "module_output" and info["route"] not in ("inject", "cast")) else 0.0

    def same(x, y):
        import math
        if x == y or (math.isnan(x) and math.isnan(y)):
            return True
        if math.isnan(x) or math.isnan(y) or math.isinf(x) or math.isinf(y):
            return False
        return abs(x - y) <= max(ulps * ulp * max(abs(x), abs(y)), rel * (1 + abs(x)))
    for i, (st, v) in zip(info["steps"], ats):
        if st != "ok":
            ctx.fail(f"feature {name}.get({i}) raised after the market was replaced ({info['route']})", case | {"i": i}, key=key + ":error", detail=v)
            continue
        if tuple(v.shape) != (N, 1, width) or v.dtype != v_all.dtype:
            ctx.fail(f"feature {name}: after the market was replaced ({info['route']}) get(i) has shape {tuple(v.shape)} / {v.dtype}, "
                     f"column i of get(None) has {(N, 1, width)} / {v_all.dtype}", case | {"i": i}, key=key)
            continue
        if name == "empty":
            continue
        at = [x for row in v.to(torch.float64).tolist() for x in row[0]]
        col = [x for row in allv for x in row[i]]
        if len(at) != len(col) or not all(same(x, y) for x, y in zip(at, col)):
            ctx.fail(f"feature {name}: after the market was replaced ({info['route']}) get(i) on the same feature object differs from "
                     "column i of get(None)", case | {"i": i}, key=key, detail={"at": at, "col": col})
    if mk2 is None or fjson is None or any(st != "ok" or tuple(v.shape) != (N, 1, width) for st, v in ats):
        return []
    # correspondence with the model on the replacement market, path by path
    return [({"op": "feat", "market": market_json(mk2, p), "feature": fjson, "steps": info["steps"], "prev": [], "n": T},
             ("feat", case | {"path": p}, name, log, [row for row in allv[p]],
              [("ok", v.to(torch.float64)[p, 0].tolist()) for _, v in ats])) for p in range(N)]


# ---- one-feature hedgers whose module works in place on its input ---------------------------------------------------------------

INPLACE_FIRST = ["relu_", "hardtanh_", "sub_", "mul_", "none"]
# single input features with a value table in the generated market (several hand out a VIEW of an instrument's buffer when asked for
# all steps: underlier_spot; spot of a derivative listed at its underlier's price; variance of a Heston stock; volatility of a
# local-volatility stock) and the hedger's own stored tensor (prev_hedge alone)
INPLACE_FEATURES = ["underlier_spot", "spot", "variance", "volatility", "moneyness", "prev_hedge"]
# deterministic corpus (every tier, every seed): (feature, primary, first operation of the module, H)
INPLACE_CORPUS = [("underlier_spot", "BrownianStock", "sub_", 1), ("underlier_spot", "HestonStock", "hardtanh_", 2),
                  ("underlier_spot", "MertonJumpStock", "mul_", 1), ("underlier_spot", "LocalVolatilityStock", "relu_", 1),
                  ("spot", "BrownianStock", "sub_", 1), ("spot", "HestonStock", "hardtanh_", 1), ("spot", "BrownianStock", "mul_", 2),
                  ("variance", "HestonStock", "sub_", 1), ("variance", "HestonStock", "relu_", 2), ("variance", "HestonStock", "hardtanh_", 1),
                  ("volatility", "LocalVolatilityStock", "sub_", 1), ("volatility", "LocalVolatilityStock", "hardtanh_", 2),
                  ("moneyness", "BrownianStock", "sub_", 1), ("prev_hedge", "BrownianStock", "relu_", 1),
                  ("prev_hedge", "BrownianStock", "sub_", 2), ("prev_hedge", "HestonStock", "hardtanh_", 2), ("prev_hedge", "BrownianStock", "mul_", 1),
                  ("prev_hedge", "MertonJumpStock", "relu_", 3), ("underlier_spot", "BrownianStock", "none", 1)]


def feature_table(name, mk):
    """[N][T] values of a single input feature from the generated market alone"""
    if name == "underlier_spot" or name == "spot":      # (the derivative is listed at its underlier's price)
        return mk["spot"]
    if name == "variance":
        return mk["var"]
    if name == "volatility":
        return mk["vol"]
    if name == "moneyness":
        return [[x / mk["strike"] for x in p] for p in mk["spot"]]
    raise InternalError("no value table for feature " + name)


def gen_inplace(g, nin, H, first, values):
    """a module whose FIRST operation overwrites its input tensor (torch's in-place activations; `input -= 1`, `input *= 1/2` in a
    user module), followed by a dyadic Linear(nin, H); 'none' = the out-of-place control.  Clip bounds around values of the input."""
    lo = g.choice(values) if values else g.choice([F(-1, 4), F(0), F(1, 4)])
    if g.chance(0.5):
        lo += g.choice([F(1, 8), F(-1, 8), F(1, 4)])
    w = [[g.choice([F(-1), F(-1, 2), F(1, 2), F(1), F(1, 4), F(-1, 4), F(2)]) for _ in range(nin)] for _ in range(H)]
    b = [g.choice([F(0), F(1, 2), F(-1, 4), F(1, 4)]) for _ in range(H)]
    return dict(first=first, lo=lo, hi=lo + g.choice([F(1, 8), F(1, 4), F(1, 2), F(1)]), w=w, b=b)


def inplace_obj(torch, ip):
    nn = torch.nn
    lin = nn.Linear(len(ip["w"][0]), len(ip["w"]), dtype=torch.float64)
    with torch.no_grad():
        lin.weight.copy_(torch.tensor([[float(x) for x in r] for r in ip["w"]], dtype=torch.float64))
        lin.bias.copy_(torch.tensor([float(x) for x in ip["b"]], dtype=torch.float64))

    class InPlaceFirst(nn.Module):
        """user module: normalises its input without a temporary"""

        def __init__(self, linear, op):
            super().__init__()
            self.linear, self.op = linear, op

        def forward(self, input):
            if self.op == "sub_":
                input -= 1.0
            else:
                input *= 0.5
            return self.linear(input)
    if ip["first"] == "relu_":
        return nn.Sequential(nn.ReLU(inplace=True), lin)
    if ip["first"] == "hardtanh_":
        return nn.Sequential(nn.Hardtanh(float(ip["lo"]), float(ip["hi"]), inplace=True), lin)
    if ip["first"] == "none":
        return nn.Sequential(nn.ReLU(), lin)
    return InPlaceFirst(lin, ip["first"])


def inplace_model_json(ip):
    """the same function of the input as a module of the Lean driver (exact on dyadic data):
    relu: Linear(identity) -> ReLU -> Linear;  clip(x, lo, hi) = lo + relu(x - lo) - relu(x - hi);  w (x - 1) + b = w x + (b - sum w);  w (x / 2) + b"""
    w, b, nin = ip["w"], ip["b"], len(ip["w"][0])
    eye = [[F(int(i == j)) for j in range(nin)] for i in range(nin)]
    if ip["first"] in ("relu_", "none"):
        ms = dict(kind="mlp", layers=[dict(w=eye, b=[F(0)] * nin), dict(w=w, b=b)])
    elif ip["first"] == "hardtanh_":
        ms = dict(kind="mlp", layers=[dict(w=eye + eye, b=[-ip["lo"]] * nin + [-ip["hi"]] * nin),
                                      dict(w=[r + [-x for x in r] for r in w], b=[bb + sum(r) * ip["lo"] for r, bb in zip(w, b)])])
    elif ip["first"] == "sub_":
        ms = dict(kind="linear", w=w, b=[bb - sum(r) for r, bb in zip(w, b)], relu=False)
    else:
        ms = dict(kind="linear", w=[[x / 2 for x in r] for r in w], b=b, relu=False)
    return model_json(ms)


def inplace_section(ctx, torch, g, reqs, metas):
    """A hedger with exactly ONE input feature and a module that overwrites its input.  Whatever tensor the feature hands out (a view of
    an instrument's buffer, the hedger's stored previous output), the module's input belongs to the module: the hedge all at once, the
    hedge one step at a time (get_input(i) -> model), P&L and loss equal those of the same module applied to private copies of the
    feature values taken from the generated market, in whatever order the evaluations are made, and the market is the same afterwards."""
    import math
    from pfhedge.nn import Hedger
    from pfhedge.nn.functional import pl as pl_fn
    n = 110 if ctx.tier == "quick" else 700
    for it in range(len(INPLACE_CORPUS) + n):
        if it < len(INPLACE_CORPUS):
            name, primary, first, H = INPLACE_CORPUS[it]
        else:
            name = g.choice(INPLACE_FEATURES + ["underlier_spot", "prev_hedge"])
            primary = g.choice(["BrownianStock", "HestonStock", "MertonJumpStock", "LocalVolatilityStock"] +
                               (["HestonStock"] * 3 if name == "variance" else ["LocalVolatilityStock"] * 3 if name == "volatility" else []))
            first, H = g.choice(INPLACE_FIRST), g.choice([1, 1, 2, 3])
        mk = signed_market(g, gen_market(g, primary=primary))
        if name == "spot":
            mk["listed"] = (F(1), F(0))
        N, T = mk["N"], mk["T"]
        prev_only = name == "prev_hedge"
        nin = H if prev_only else 1
        values = [] if prev_only else sorted({x for p in feature_table(name, mk) for x in p})
        ip = gen_inplace(g, nin, H, first, values)
        d, u = build_derivative(torch, mk)
        if name == "spot":
            d.list(lambda dd: dd.ul().spot, cost=float(mk["cost"]))       # quoted at its underlier's price: 'spot' is that buffer
        others = extra_hedges(torch, g, mk, H - 1)
        hedge = [u] + others
        others_spot = [o.spot.clone() for o in others]
        model = inplace_obj(torch, ip)
        hedger = Hedger(model, [name])
        order = g.choice(["batched_first", "stepwise_first"])
        case = {"inplace_model": {"first": first, "lo": rat_str(ip["lo"]), "hi": rat_str(ip["hi"]), "w": enc_rat(ip["w"]), "b": enc_rat(ip["b"])},
                "features": [name], "H": H, "option": mk["option"], "primary": mk["primary"], "T": T, "N": N, "order": order,
                "spot": enc_rat(mk["spot"]), "var": enc_rat(mk["var"]) if name == "variance" else None,
                "strike": rat_str(mk["strike"]), "dt": rat_str(mk["dt"])}
        ctx.case(case, nontrivial=first != "none", tag="inplace_model")
        ctx.traces += 1
        ctx.stats[f"inplace: feature={name}"] += 1
        ctx.stats[f"inplace: first={first}"] += 1
        key = "inplace-model:" + ("prev_hedge" if prev_only else "one-feature")

        def intact():
            ok = torch.equal(u.spot, tens(torch, mk["spot"])) and all(torch.equal(o.spot, sp_) for o, sp_ in zip(others, others_spot))
            if mk["primary"] == "HestonStock":
                ok = ok and torch.equal(u.variance, tens(torch, mk["var"]))
            if mk["primary"] == "LocalVolatilityStock":
                ok = ok and torch.equal(u.get_buffer("volatility"), tens(torch, mk["vol"]))
            return ok

        def market_now():
            return {"spot": u.spot.tolist()} | ({"variance": u.variance.tolist()} if mk["primary"] == "HestonStock" else {}) | \
                ({"volatility": u.volatility.tolist()} if mk["primary"] == "LocalVolatilityStock" else {})
        with torch.no_grad():
            inject(torch, u, mk)
            payoff0 = d.payoff().clone()
            # the reference: the module on private copies of the feature values (by hand: out_i = model(out_{i-1}), out_{-1} = 0, for prev_hedge)
            cols, prev_ = [], torch.zeros(N, 1, H, dtype=torch.float64)
            tab = None if prev_only else tens(torch, feature_table(name, mk))
            for i in range(T - 1):
                prev_ = model((prev_ if prev_only else tab[:, [i]].unsqueeze(-1)).clone())
                cols.append(prev_.clone())
            ref = torch.cat(cols + [cols[-1]], dim=-2).transpose(-1, -2)
            exp_pl = pl_fn(spot=torch.stack([tens(torch, mk["spot"])] + others_spot, dim=1), unit=ref, cost=[hh.cost for hh in hedge], payoff=payoff0)
            bad = False
            for mode in (["batched", "stepwise"] if order == "batched_first" else ["stepwise", "batched"]):
                if prev_only and mode == "stepwise":
                    continue
                if mode == "batched":
                    # compute_hedge, compute_pl, compute_hedge again on the SAME market (not re-injected in between)
                    st, out, _ = call_impl(hedger.compute_hedge, d, hedge)
                    ok1 = intact()
                    stp, plv, _ = call_impl(hedger.compute_pl, d, hedge)
                    stb, outb, _ = call_impl(hedger.compute_hedge, d, hedge)
                    if st != "ok" or stp != "ok" or stb != "ok":
                        ctx.fail(f"compute_hedge / compute_pl raised for a one-feature hedger ({name}) whose module works in place on its input", case,
                                 key=key + ":error", detail=[str(out)[:100], str(plv)[:100], str(outb)[:100]])
                        bad = True
                        break
                    if tuple(out.shape) != (N, H, T) or not torch.equal(out, ref):
                        ctx.fail(f"one input feature ({name}), module working in place on its input: the hedge" + (" does not follow out_i = model(out_{i-1}), out_{-1} = 0 "
                                 "(the recorded output of a step is not what the model returned)" if prev_only else " all at once differs from the module applied one step at a time to the feature values"),
                                 case, key=key + ":hedge", detail={"hedger": out.tolist(), "by_hand": ref.tolist()})
                    if not ok1 or not intact():
                        ctx.fail(f"one input feature ({name}), module working in place on its input: evaluating the hedge / P&L overwrites the market (the module's input is the "
                                 "instrument's buffer itself), so every later evaluation sees other prices", case, key=key + ":market-after-batched",
                                 detail={"after_compute_hedge_intact": ok1, "market": market_now()})
                    if tuple(plv.shape) != (N,) or not torch.equal(plv, exp_pl):
                        ctx.fail(f"one input feature ({name}), module working in place on its input: compute_pl differs from functional.pl on the step-by-step hedge, the generated "
                                 "prices, the cost rates and the payoff of the generated market", case, key=key + ":pl", detail={"hedger": plv.tolist(), "stepwise": exp_pl.tolist()})
                    if tuple(outb.shape) != (N, H, T) or not torch.equal(outb, ref):
                        ctx.fail(f"one input feature ({name}), module working in place on its input: a second evaluation of the hedge on the same market differs from the "
                                 "step-by-step hedge", case, key=key + ":second-evaluation", detail={"hedger": outb.tolist(), "by_hand": ref.tolist()})
                else:
                    # one step at a time through the real objects: get_input(i) -> model
                    try:
                        fl = hedger.inputs.of(d, hedger)
                        outs = [model(fl.get(i)) for i in range(T - 1)]
                        outs = torch.cat(outs + [outs[-1]], dim=-2).transpose(-1, -2)
                    except Exception as e:  # noqa
                        ctx.fail(f"the step-by-step evaluation get(i) -> model raised for a one-feature hedger ({name}) whose module works in place", case,
                                 key=key + ":error", detail=repr(e)[:200])
                        bad = True
                        break
                    if tuple(outs.shape) != (N, H, T) or not torch.equal(outs, ref):
                        ctx.fail(f"one input feature ({name}), module working in place on its input: the hedge one step at a time (get(i) -> model) differs from the module applied "
                                 "to the feature values of the generated market", case, key=key + ":stepwise-hedge", detail={"stepwise": outs.tolist(), "by_hand": ref.tolist()})
                    if not intact():
                        ctx.fail(f"one input feature ({name}), module working in place on its input: the step-by-step evaluation overwrites the market", case,
                                 key=key + ":market-after-stepwise", detail={"market": market_now()})
                if not intact():
                    inject(torch, u, mk)        # (already reported) go on with the generated market
                    for o, sp_ in zip(others, others_spot):
                        o.register_buffer("spot", sp_.clone())
            if bad:
                continue
            # the same module inside a ModuleOutput feature over the one input feature: all steps, then single steps, on the same market
            mo_req = None
            if not prev_only:
                from pfhedge.features import ModuleOutput
                mo_f = ModuleOutput(model, [name]).of(d, None)
                steps = sorted({0, T - 1, g.randint(0, T - 1)})
                ref_all = model(tab.unsqueeze(-1).clone())
                st_all, v_all, _ = call_impl(mo_f.get, None)
                ok_all = intact()
                ats = [call_impl(mo_f.get, i)[:2] for i in steps]
                casem = case | {"feature": f"ModuleOutput(module, ['{name}'])", "steps": steps}
                if st_all != "ok" or any(st_ != "ok" for st_, _ in ats):
                    ctx.fail(f"ModuleOutput over one input feature ({name}) with a module working in place on its input raised", casem,
                             key="inplace-model:module_output:error", detail=[str(v_all)[:100]] + [str(v_)[:100] for _, v_ in ats])
                else:
                    if tuple(v_all.shape) != (N, T, H) or not torch.equal(v_all, ref_all):
                        ctx.fail(f"ModuleOutput over one input feature ({name}) with a module working in place on its input: get(None) is not the module applied to the "
                                 "feature values of the generated market", casem, key="inplace-model:module_output:value",
                                 detail={"get(None)": v_all.tolist(), "by_hand": ref_all.tolist()})
                    for i, (_, v_) in zip(steps, ats):
                        if tuple(v_.shape) != (N, 1, H) or not torch.equal(v_, ref_all[:, [i]]):
                            ctx.fail(f"ModuleOutput over one input feature ({name}) with a module working in place on its input: get(i) after get(None) on the same market "
                                     "differs from column i of the module applied to the feature values", casem | {"i": i}, key="inplace-model:module_output:step-vs-all",
                                     detail={"at": v_.tolist(), "col": ref_all[:, [i]].tolist()})
                            break
                    if not ok_all or not intact():
                        ctx.fail(f"ModuleOutput over one input feature ({name}) with a module working in place on its input: evaluating the feature overwrites the market",
                                 casem, key="inplace-model:module_output:market", detail={"after_get(None)_intact": ok_all, "market": market_now()})
                    if tuple(v_all.shape) == (N, T, H) and all(tuple(v_.shape) == (N, 1, H) for _, v_ in ats):
                        mo_req = (casem, steps, v_all.tolist(), [v_.tolist() for _, v_ in ats])
            # loss: compute_loss simulates by itself; the same torch seed, then the module on private copies of the single-step inputs
            seed_l = g.randint(0, 10 ** 6)
            torch.manual_seed(seed_l)
            stl, loss_b, _ = call_impl(hedger.compute_loss, d, hedge, n_paths=N)
            torch.manual_seed(seed_l)
            d.simulate(n_paths=N)
            loss_s = None
            if stl == "ok" and tuple(u.spot.shape) == (N, T):
                pay_s = d.payoff().clone()
                spot_s = torch.stack([hh.spot.clone() for hh in hedge], dim=1)
                fl = hedger.inputs.of(d, hedger)
                cols, prev_ = [], torch.zeros(N, 1, H, dtype=torch.float64)
                for i in range(T - 1):
                    prev_ = model((prev_ if prev_only else fl.get(i)).clone())
                    cols.append(prev_.clone())
                unit_s = torch.cat(cols + [cols[-1]], dim=-2).transpose(-1, -2)
                loss_s = hedger.criterion(pl_fn(spot=spot_s, unit=unit_s, cost=[hh.cost for hh in hedge]), pay_s)
        if stl != "ok":
            ctx.fail(f"compute_loss raised for a one-feature hedger ({name}) whose module works in place on its input", case | {"torch_seed": seed_l},
                     key=key + ":error", detail=str(loss_b)[:100])
        elif loss_s is not None:
            la, lb = loss_b.item(), loss_s.item()
            # simulated (non-dyadic) prices: a Linear layer may round one column differently from all columns at once (1e-9 relative)
            if math.isfinite(la) and math.isfinite(lb) and abs(la - lb) > 1e-9 * (1 + abs(lb)):
                ctx.fail(f"one input feature ({name}), module working in place on its input: compute_loss differs from the loss of the step-by-step evaluation on the same "
                         "simulated paths", case | {"torch_seed": seed_l}, key=key + ":loss", detail={"compute_loss": la, "stepwise": lb})
            elif not (math.isfinite(la) and math.isfinite(lb)):
                ctx.stats["inplace: loss not finite (skipped)"] += 1
        # correspondence: the same function of the input as a driver module (batched hedge, path by path)
        fj = [feature_json(name)]
        for p in range(N):
            reqs.append({"op": "hedge", "market": market_json(mk, p), "features": fj, "model": inplace_model_json(ip), "n": T, "h": H})
            metas.append(("hedge", case | {"path": p, "mode": "recurrent" if prev_only else "batched"}, None, False,
                          [[out[p][hh][t].item() for hh in range(H)] for t in range(T)], None))
            if mo_req is not None:
                casem, steps, allv, atv = mo_req
                reqs.append({"op": "feat", "market": market_json(mk, p), "feature": ["module_output", inplace_model_json(ip), fj], "steps": steps, "prev": [], "n": T})
                metas.append(("feat", casem | {"path": p}, "module_output", False, allv[p], [("ok", a_[p][0]) for a_ in atv]))


# ---- price / variance / volatility series with non-finite entries --------------------------------------------------------------------

NONFINITE = {"nan": float("nan"), "inf": float("inf"), "-inf": float("-inf")}
NONFINITE_WHERE = ["first", "inner", "last"]
# every feature of the first section, a ModuleOutput over several of them and a FeatureList (what Hedger.get_input hands to the model)
NONFINITE_FEATURES = BASE_FEATURES + ["module_output", "feature_list"]
NONFINITE_MO_INPUTS = ["moneyness", "time_to_maturity", "volatility", "variance", "max_moneyness", "barrier_up", "barrier_down", "underlier_spot", "spot"]
OWN_BUFFER = {"HestonStock": "variance", "LocalVolatilityStock": "volatility"}


def nonfinite_section(ctx, torch, g):
    """User-registered price / variance / volatility buffers that contain NON-FINITE entries (a missing quote NaN, +inf, -inf; at the first,
    an inner or the last step; historical series with holes, a diverged simulation).  The predicate is the first sentence of the property
    and nothing else: every feature at the single step i == column i of the same feature for all steps (same shape and dtype; NaN compared
    as equal to NaN, infinities by sign; bitwise otherwise, 8 ulp of the dtype for logarithms / the time to maturity as in the first
    section) -- NO demand on what the values are, so nothing goes to the model (its `max` keeps the left argument where torch's max /
    cummax / cummin propagate NaN: only NaN conventions would be compared).  Every step 0..T-1, both orders of evaluation, float64 and float32.
    Deterministic corpus (every tier, every seed): feature x non-finite value x position; the threshold of a Barrier is the price at step 0
    of the path with the hole, so the barrier has been touched when the hole comes.  Then random numbers / places of holes."""
    import math
    from pfhedge.features import FeatureList, ModuleOutput
    from pfhedge.features._getter import get_feature
    corpus = [(name, val, where) for name in NONFINITE_FEATURES for val in NONFINITE for where in NONFINITE_WHERE]
    prims = ["BrownianStock", "HestonStock", "MertonJumpStock", "LocalVolatilityStock"]
    n = 250 if ctx.tier == "quick" else 2500
    for it in range(len(corpus) + n):
        det = it < len(corpus)
        if det:
            name, val, where = corpus[it]
            primary = (prims[1::2] if name in ("variance", "volatility") else prims)[it % (2 if name in ("variance", "volatility") else 4)]
            mk = signed_market(g, gen_market(g, T=g.choice([3, 4, 5, 6, 8]), primary=primary))
        else:
            name = g.choice(NONFINITE_FEATURES)
            mk = signed_market(g, gen_market(g))
        N, T = mk["N"], mk["T"]
        buffers = ["spot"] + ([OWN_BUFFER[mk["primary"]]] if mk["primary"] in OWN_BUFFER else [])
        at_ = lambda w: 0 if w == "first" else T - 1 if w == "last" else g.randint(1, max(1, T - 2))   # noqa
        if det:
            p = g.randint(0, N - 1)
            hits = [(b, p if b == "spot" else g.randint(0, N - 1), at_(where), val) for b in buffers]
            thr = mk["spot"][p][0]
        else:
            hits = [(g.choice(buffers), g.randint(0, N - 1), at_(g.choice(NONFINITE_WHERE)), g.choice(sorted(NONFINITE))) for _ in range(g.choice([1, 1, 2, 3]))]
            thr = g.choice([x for p in mk["spot"] for x in p] + [g.dy(F(1, 2), 4, 3)])
        dname = g.choice(["float64", "float64", "float32"])
        dtype = getattr(torch, dname)
        d, u = build_derivative(torch, mk, dtype)
        members = None
        try:
            if name == "module_output":
                members = [g.choice(NONFINITE_MO_INPUTS) for _ in range(g.choice([1, 2, 3]))]
                ms = gen_linear(g, len(members), g.choice([1, 2]))
                f = ModuleOutput(model_obj(torch, ms, dtype), [feature_obj(torch, n_, mk, thr) for n_ in members]).of(d, None)
            elif name == "feature_list":
                members = [g.choice([n_ for n_ in BASE_FEATURES if n_ != "empty"]) for _ in range(g.choice([2, 3]))]
                f = FeatureList([feature_obj(torch, n_, mk, thr) for n_ in members]).of(d, None)
            else:
                f = get_feature(feature_obj(torch, name, mk, thr)).of(d, None)
        except Exception as e:  # noqa
            raise InternalError("cannot build feature: " + repr(e))
        tables = {"spot": mk["spot"], "variance": mk["var"], "volatility": mk["vol"]}
        tables = {b: [[float(x) for x in r] for r in tables[b]] for b in buffers}
        for b, p_, s_, v_ in hits:
            tables[b][p_][s_] = NONFINITE[v_]
        case = {"non_finite": [list(h) for h in hits], "feature": name, "thr": rat_str(thr), "option": mk["option"], "primary": mk["primary"], "T": T, "N": N,
                "dtype": dname, "spot": enc_rat(mk["spot"]), "strike": rat_str(mk["strike"]), "dt": rat_str(mk["dt"])}
        if len(buffers) > 1:
            case |= {buffers[1]: enc_rat(mk["var"] if buffers[1] == "variance" else mk["vol"])}
        if members:
            case |= {"members": members} | ({"module": model_json(ms)} if name == "module_output" else {})
        if g.chance(0.2):
            Tm = g.choice([t_ for t_ in (2, 3, 4, 6, 9, 13) if t_ != T])
            d.maturity = (Tm - 1) * float(mk["dt"])
            case |= {"maturity": f"{Tm - 1} steps of dt (the series has {T - 1})"}
        batched_first = g.chance(0.5)
        case |= {"batched_first": batched_first}
        with torch.no_grad():
            for b in buffers:
                u.register_buffer(b, torch.tensor(tables[b], dtype=dtype))
            if batched_first:
                st_all, v_all, mut = call_impl(f.get, None, watch=[("derivative", d)])
            ats = [call_impl(f.get, i, watch=[("derivative", d)]) for i in range(T)]
            if not batched_first:
                st_all, v_all, mut = call_impl(f.get, None, watch=[("derivative", d)])
        for m_ in [mut] + [a_[2] for a_ in ats]:
            if m_:
                ctx.mutated(f"{name}.get on a series with non-finite entries", m_, case)
        ctx.case(case, nontrivial=True, tag="feature_nonfinite")
        ctx.traces += 1
        ctx.stats["non-finite: " + "+".join(sorted({h[3] for h in hits})) + " in " + "+".join(sorted({h[0] for h in hits}))] += 1
        key = f"feature:{name}:step-vs-all:non-finite-series"
        what = f"feature {name}" + (f" over {members}" if members else "") + " on a series with non-finite entries: "
        if st_all != "ok" or any(a_[0] != "ok" for a_ in ats):
            if st_all != "ok" and all(a_[0] != "ok" for a_ in ats):
                ctx.stats["non-finite: get(None) and every get(i) raise (nothing to compare)"] += 1
            else:
                ctx.fail(what + "one of get(None) / get(i) raises where the other returns a value", case, key=key + ":error",
                         detail=[str(v_all)[:100]] + [str(a_[1])[:100] for a_ in ats])
            continue
        width = v_all.shape[-1]
        if tuple(v_all.shape) != (N, T, width):
            ctx.fail(what + f"get(None) has shape {tuple(v_all.shape)}, expected (N,T,F)", case, key=key + ":shape")
            continue
        allv = v_all.to(torch.float64).tolist()
        ulp = 2.0 ** -52 if v_all.dtype == torch.float64 else 2.0 ** -23
        # tolerance per column of the feature: as in the first section (bitwise; 8 ulp of the dtype for logarithms and the time to maturity)
        loose = lambda n_: n_ in LOG_FEATURES or n_ == "time_to_maturity"   # noqa
        tols = [loose(n_) for n_ in members] if name == "feature_list" else [loose(name)] * width

        def same(x, y, tol):
            if x == y or (math.isnan(x) and math.isnan(y)):
                return True
            if math.isnan(x) or math.isnan(y) or math.isinf(x) or math.isinf(y):
                return False
            return tol and abs(x - y) <= 8 * ulp * max(abs(x), abs(y))
        for i, (_, v, _) in enumerate(ats):
            if tuple(v.shape) != (N, 1, width) or v.dtype != v_all.dtype:
                ctx.fail(what + f"get(i) has shape {tuple(v.shape)} / {v.dtype}, column i of get(None) has {(N, 1, width)} / {v_all.dtype}", case | {"i": i}, key=key + ":shape")
                break
            if name == "empty":
                continue
            at = [row[0] for row in v.to(torch.float64).tolist()]
            col = [row[i] for row in allv]
            if len(tols) != width or not all(same(x, y, t_) for ra, rc in zip(at, col) for x, y, t_ in zip(ra, rc, tols)):
                ctx.fail(what + "get(i) differs from column i of get(None) (NaN compared as equal to NaN)", case | {"i": i}, key=key,
                         detail={"at": at, "col": col, "buffers": tables})
                break


# ---- derivatives carrying clauses (add_clause) that alter the payoff on the generated paths ---------------------------------------------

CLAUSE_OPTIONS = ["EuropeanOption", "LookbackOption", "EuropeanBinaryOption", "AmericanBinaryOption"]
CLAUSE_PARS = {"knock_up": [1.0, 1.01, 1.03], "knock_down": [1.0, 0.99, 0.97], "cap": [0.0, 0.005, 0.02], "fee": [0.25, 0.01, -0.02],
               "scale": [0.5, 2.0, -1.0], "rebate_up": [0.125, 0.5]}
CLAUSE_CRITERIA = ["entropic_risk", "expected_shortfall", "entropic_loss"]
# (option, clauses in the order of registration, criterion, cost rate, state-dependent form): each bites on every set of paths with a non-zero payoff
CLAUSE_CORPUS = [
    ("EuropeanOption", [("fee", 0.25)], "entropic_risk", 0.0),
    ("EuropeanOption", [("knock_up", 1.0)], "expected_shortfall", 0.0),
    ("LookbackOption", [("cap", 0.005), ("scale", 0.5)], "entropic_loss", 0.001),
    ("EuropeanBinaryOption", [("knock_down", 0.99), ("fee", 0.01)], "entropic_risk", 0.0),
    ("AmericanBinaryOption", [("scale", -1.0)], "expected_shortfall", 0.002),
    ("EuropeanOption", [("rebate_up", 0.5), ("cap", 0.02)], "entropic_loss", 0.0),
]


def clause_fn(torch, kind, par):
    """a contractual clause (derivative, payoff) -> payoff, out of place"""
    if kind == "knock_up":
        return lambda d, p: p.where(~(d.ul().spot.max(-1).values >= par), torch.zeros_like(p))
    if kind == "knock_down":
        return lambda d, p: p.where(~(d.ul().spot.min(-1).values <= par), torch.zeros_like(p))
    if kind == "cap":
        return lambda d, p: p.clamp(max=par)
    if kind == "fee":
        return lambda d, p: p + par
    if kind == "scale":
        return lambda d, p: p * par
    return lambda d, p: p + par * (d.ul().spot.max(-1).values >= 1.0).to(p)     # rebate_up: paid when the start price is reached again


def clause_section(ctx, torch, g):
    """A derivative with 1-2 registered clauses that alter its payoff on the simulated paths, hedged by a state-independent hedger:
    compute_loss (same torch seed = same paths) == criterion(P&L of the hedge taken one step at a time, get_input(i) -> model, with the clauses
    applied by hand to the raw payoff) == criterion(compute_pl on the same paths); hedge and P&L all at once == one step at a time."""
    import math
    import pfhedge.instruments as pi
    import pfhedge.nn as pn
    from pfhedge.nn.functional import pl as pl_fn
    n = 10 if ctx.tier == "quick" else 80
    for it in range(len(CLAUSE_CORPUS) + n):
        if it < len(CLAUSE_CORPUS):
            option, clauses, crit, cost = CLAUSE_CORPUS[it]
        else:
            option, crit, cost = g.choice(CLAUSE_OPTIONS), g.choice(CLAUSE_CRITERIA), g.choice([0.0, 0.0, 0.001, 0.01])
            kinds = [g.choice(sorted(CLAUSE_PARS)) for _ in range(g.choice([1, 1, 2]))]
            clauses = [(k_, g.choice(CLAUSE_PARS[k_])) for k_ in kinds]
        T, N = g.choice([2, 3, 5, 8]), g.choice([4, 16, 40])
        names = g.choice([["log_moneyness", "time_to_maturity"], ["moneyness"], ["max_moneyness", "time_to_maturity", "volatility"]])
        w = [g.randint(-8, 8) / 8 for _ in names]
        b = g.randint(-4, 4) / 8
        seed_l = g.randint(0, 10 ** 6)
        u = pi.BrownianStock(sigma=0.25, cost=cost, dt=1 / 64, dtype=torch.float64)
        kw = {} if "Binary" in option or option == "LookbackOption" and g.chance(0.5) else {"call": g.chance(0.7)}
        d = getattr(pi, option)(u, maturity=T / 64, strike=g.choice([1.0, 0.98, 1.02]), **kw)
        fns = [clause_fn(torch, k_, p_) for k_, p_ in clauses]
        for j, f_ in enumerate(fns):
            d.add_clause(f"{clauses[j][0]}_{j}", f_)
        model = torch.nn.Linear(len(names), 1).double()
        with torch.no_grad():
            model.weight.copy_(torch.tensor([w], dtype=torch.float64))
            model.bias.copy_(torch.tensor([b], dtype=torch.float64))
        criterion = {"entropic_risk": lambda: pn.EntropicRiskMeasure(), "expected_shortfall": lambda: pn.ExpectedShortfall(0.5),
                     "entropic_loss": lambda: pn.EntropicLoss()}[crit]()
        hedger = pn.Hedger(model, names, criterion=criterion)
        case = {"option": option, "option_kwargs": kw, "strike": d.strike, "clauses": [list(c) for c in clauses], "criterion": crit, "cost": cost, "T": T + 1, "N": N,
                "features": names, "w": w, "b": b, "torch_seed": seed_l}
        key = "clause:" + "+".join(k_ for k_, _ in clauses)
        with torch.no_grad():
            torch.manual_seed(seed_l)
            stl, loss_b, _ = call_impl(hedger.compute_loss, d, n_paths=N)
            torch.manual_seed(seed_l)
            d.simulate(n_paths=N)
            spot0 = u.spot.clone()
            raw = d.payoff_fn().clone()
            pay = raw
            for f_ in fns:
                pay = f_(d, pay)
            bites = not torch.equal(pay, raw)
            ctx.case(case, nontrivial=bites, tag="clause")
            ctx.traces += 1
            ctx.stats[f"clause: bites={bites}"] += 1
            sth, hb, _ = call_impl(hedger.compute_hedge, d)
            stp, plb, _ = call_impl(hedger.compute_pl, d)
            cols = [model(hedger.get_input(d, i).clone()) for i in range(u.spot.size(1) - 1)]
            hs = torch.cat(cols + [cols[-1]], dim=-2).transpose(-1, -2)
            pls = pl_fn(spot=spot0.unsqueeze(1), unit=hs, cost=[cost], payoff=pay)
            loss_s = criterion(pls)
            if not torch.equal(u.spot, spot0):
                ctx.fail("the simulated prices changed while hedge and P&L were evaluated", case, key="clause:market")
                continue
            if not (stl == sth == stp == "ok"):
                ctx.fail("compute_loss / compute_hedge / compute_pl raises on a derivative carrying clauses", case, key=key + ":error",
                         detail=[str(loss_b)[:100], str(hb)[:100], str(plb)[:100]])
                continue
            close = lambda x, y: tuple(x.shape) == tuple(y.shape) and bool(((x - y).abs() <= 1e-9 * (1 + y.abs())).all())   # noqa  (Linear on simulated prices: 1e-9 relative)
            if not close(hb, hs):
                ctx.fail("derivative with clauses: the hedge all at once differs from the hedge one step at a time", case, key=key + ":hedge",
                         detail={"batched": hb.tolist(), "stepwise": hs.tolist()})
                continue
            if not close(plb, pls):
                ctx.fail("derivative with clauses: compute_pl differs from the P&L of the step-by-step hedge against the payoff with the clauses applied", case,
                         key=key + ":pl", detail={"compute_pl": plb.tolist(), "stepwise": pls.tolist(), "payoff": pay.tolist(), "raw_payoff": raw.tolist()})
                continue
            la, lb, lc = loss_b.item(), loss_s.item(), criterion(plb).item()
            if all(math.isfinite(x) for x in (la, lb, lc)) and (abs(la - lb) > 1e-9 * (1 + abs(lb)) or abs(la - lc) > 1e-9 * (1 + abs(lc))):
                ctx.fail("derivative with clauses: compute_loss differs from the criterion of the P&L taken one step at a time (clauses applied to the payoff) / of compute_pl "
                         "on the same simulated paths", case, key=key + ":loss",
                         detail={"compute_loss": la, "criterion(stepwise P&L)": lb, "criterion(compute_pl)": lc, "payoff": pay.tolist(), "raw_payoff": raw.tolist()})


def check(ctx):
    torch, pfhedge = import_impl()
    from pfhedge.nn import Hedger
    from pfhedge.features import ModuleOutput, FeatureList
    g = ctx.gen
    ctx.lean_gate()
    reqs, metas = [], []
    n_feat = 1500 if ctx.tier == "quick" else 6000
    # ------------------------------------------------------------------ features
    for _ in range(n_feat):
        mk = signed_market(g, gen_market(g))
        name = g.choice(BASE_FEATURES + ["module_output"])
        thr = g.choice([x for p in mk["spot"] for x in p] + [g.dy(F(1, 2), 4, 3)])
        sub = subj = None
        if name == "module_output":
            ins = [g.choice(["moneyness", "time_to_maturity", "volatility", "max_moneyness", "barrier_up", "underlier_spot"])
                   for _ in range(g.choice([1, 2, 3]))]
            ms = gen_linear(g, len(ins), g.choice([1, 2]))
            sub, subj = (model_obj(torch, ms), ins), (model_json(ms), ins)
        d, u = build_derivative(torch, mk)
        try:
            fo = feature_obj(torch, name, mk, thr, sub)
            from pfhedge.features._getter import get_feature
            f = get_feature(fo).of(d, None)
        except Exception as e:  # noqa
            raise InternalError("cannot build feature: " + repr(e))
        T, N = mk["T"], mk["N"]
        steps = sorted({0, T - 1, g.randint(0, T - 1), g.randint(0, T - 1)})
        log = name in LOG_FEATURES
        case = {"feature": name, "thr": rat_str(thr), "option": mk["option"], "primary": mk["primary"], "T": T, "N": N,
                "spot": enc_rat(mk["spot"]), "strike": rat_str(mk["strike"]), "dt": rat_str(mk["dt"]), "steps": steps}
        # the price series (buffers registered by hand) need not end at the derivative's own maturity: Tm grid points up to maturity
        hcls = ""
        if g.chance(0.2):
            Tm = g.choice([t_ for t_ in (2, 3, 4, 6, 9, 13) if t_ != T])
            d.maturity = (Tm - 1) * float(mk["dt"])
            hcls = ":series!=maturity"
            case |= {"maturity": f"{Tm - 1} steps of dt (the series has {T - 1})"}
        ctx.stats["first round: series " + ("!=" if hcls else "==") + " maturity"] += 1
        with torch.no_grad():
            inject(torch, u, mk)
            st_all, v_all, mut = call_impl(f.get, None, watch=[("derivative", d)])
            if mut:
                ctx.mutated(f"{name}.get(None)", mut, case)
            ats = []
            for i in steps:
                inject(torch, u, mk)
                st, v, mut = call_impl(f.get, i, watch=[("derivative", d)])
                if mut:
                    ctx.mutated(f"{name}.get({i})", mut, case)
                ats.append((st, v))
            second = second_round(torch, g, f, d, u, mk, name)
        ctx.stats[f"feature={name}"] += 1
        ctx.stats[f"primary={mk['primary']}"] += 1
        ctx.stats[f"strike{'<0' if mk['strike'] < 0 else '>0'}"] += 1
        ctx.stats[f"paths below zero={sum(p[0] < 0 for p in mk['spot']) > 0}"] += 1
        ctx.case(case, nontrivial=T >= 2, tag="feature")
        ctx.traces += 1
        for rq, mt in judge_second_round(ctx, torch, second, case, name, log, feature_json(name, thr, subj)):
            reqs.append(rq)
            metas.append(mt)
        if st_all != "ok":
            ctx.fail(f"feature {name}.get(None) raised", case, key=f"feature:{name}:get(None):error", detail=v_all)
            continue
        width = v_all.shape[-1]
        if tuple(v_all.shape) != (N, T, width):
            ctx.fail(f"feature {name}.get(None) has shape {tuple(v_all.shape)}, expected (N,T,F)", case, key=f"feature:{name}:shape")
            continue
        allv = v_all.to(torch.float64).tolist()
        # predicate: single step == column of all steps
        for i, (st, v) in zip(steps, ats):
            if st != "ok":
                ctx.fail(f"feature {name}.get({i}) raised", case | {"i": i}, key=f"feature:{name}:get(i):error", detail=v)
                continue
            if tuple(v.shape) != (N, 1, width):
                ctx.fail(f"feature {name}.get(i) has shape {tuple(v.shape)}, expected (N,1,F)", case | {"i": i},
                         key=f"feature:{name}:get(i):shape")
                continue
            if name == "empty":
                continue
            col = [[row[i]] for row in allv]
            tol_log = log or name == "time_to_maturity"     # ttm: real identity, <= 2 ulp in floats (DESIGN 5.3)
            if not vals_equal(v.to(torch.float64).tolist(), col, tol_log):
                ctx.fail(f"feature {name}: get(i) differs from column i of get(None)", case | {"i": i},
                         key=f"feature:{name}:step-vs-all" + sign_class(mk) + hcls, detail={"at": v.tolist(), "col": col})
        # correspondence with the model, path by path
        for p in range(N):
            reqs.append({"op": "feat", "market": market_json(mk, p), "feature": feature_json(name, thr, subj), "steps": steps,
                         "prev": [], "n": T})
            metas.append(("feat", case | {"path": p}, name, log,
                          [row for row in allv[p]],
                          [(st, (v.to(torch.float64)[p, 0].tolist() if st == "ok" else v)) for st, v in ats]))
    # ------------------------------------------------------------------ time to maturity on non-dyadic grids in double precision
    from pfhedge.nn.functional import pl as pl_fn
    # ... and on price series that do not end at the derivative's own maturity, by every route a user has (deterministic: the routes take
    # turns): a sibling derivative of a longer / shorter maturity on the same stock simulated last (the set-up of hedging with a listed
    # option), the stock simulated directly over a longer / shorter horizon, the maturity edited after the simulation, a spot buffer
    # registered by hand.  A hedger fed with the time to maturity then gives the same hedge and P&L all at once and step by step.
    import pfhedge.instruments as I
    HORIZON_ROUTES = ["own", "sibling_longer", "sibling_shorter", "underlier_longer", "underlier_shorter", "maturity_edited", "buffer_by_hand"]
    for it in range(28 if ctx.tier == "quick" else 301):
        route = HORIZON_ROUTES[it % len(HORIZON_ROUTES)]
        dtv = g.choice([1 / 250, 0.1, 1 / 365, 1 / 12, 0.01, 1 / 52])
        ksteps = g.choice([1, 2, 5, 9, 30] if not route.endswith("shorter") else [2, 5, 9, 30])
        osteps = ksteps + g.choice([1, 2, 5]) if not route.endswith("shorter") else g.randint(1, ksteps - 1)    # the other horizon, in steps
        dname = g.choice(["float64", "float64", "float32"])
        stock = I.BrownianStock(dt=dtv, cost=g.choice([0.0, 1e-3]), dtype=getattr(torch, dname))
        d = g.choice([I.EuropeanOption, I.LookbackOption])(stock, maturity=ksteps * dtv)
        torch.manual_seed(g.randint(0, 10 ** 6))
        if route.startswith("underlier"):
            stock.simulate(n_paths=2, time_horizon=osteps * dtv)
        elif route == "buffer_by_hand":
            stock.register_buffer("spot", 1.0 + 0.25 * torch.rand(2, osteps + 1, dtype=getattr(torch, dname)))
        else:
            d.simulate(n_paths=2)
            if route.startswith("sibling"):
                g.choice([I.EuropeanOption, I.LookbackOption])(stock, maturity=osteps * dtv).simulate(n_paths=2)
            elif route == "maturity_edited":
                d.maturity = osteps * dtv
        T = stock.spot.size(1)
        hcls = "" if T - 1 == round(d.maturity / dtv) else ":series!=maturity"
        case = {"ttm_grid": True, "dt": dtv, "steps": ksteps, "dtype": dname, "T": T} | ({"route": route, "other_horizon_steps": osteps} if hcls else {})
        ctx.case(case, True, tag="ttm_grid")
        ctx.stats[f"ttm_grid: route={route}"] += 1
        ctx.stats["ttm_grid: series " + ("!=" if hcls else "==") + " maturity"] += 1
        from pfhedge.features._getter import get_feature
        for fname in ("time_to_maturity", "expiry_time"):
            try:
                f = get_feature(fname).of(d, None)
            except Exception:  # noqa
                continue
            with torch.no_grad():
                allv = f.get(None)
                for i in range(T):
                    at = f.get(i)
                    col = allv[:, [i]]
                    if at.shape != col.shape or at.dtype != col.dtype:
                        ctx.fail(f"feature {fname}: get(i) and column i of get(None) differ in shape / dtype", case | {"i": i}, key=f"feature:{fname}:step-vs-all" + hcls)
                        break
                    a_, b_ = at.to(torch.float64).reshape(-1).tolist(), col.to(torch.float64).reshape(-1).tolist()
                    # identity of real numbers; in floating point (T-1)dt - i dt and (T-1-i) dt differ by a few ulp OF THE DTYPE
                    ulp = 2.0 ** -52 if dname == "float64" else 2.0 ** -23
                    # (the batched form subtracts two grid times: its rounding error is relative to the horizon (T-1) dt)
                    if any(abs(x - y) > 8 * ulp * max(abs(x), abs(y), (T - 1) * dtv) for x, y in zip(a_, b_)):
                        ctx.fail(f"feature {fname}: get(i) differs from column i of get(None) beyond rounding of the instrument's dtype", case | {"i": i},
                                 key=f"feature:{fname}:step-vs-all" + hcls, detail={"at": a_, "col": b_})
                        break
        # a hedger fed with the time to maturity (state-independent inputs): all at once (compute_hedge / compute_pl) and one step at a time
        # (get_input(i) -> model; functional.pl on that hedge).  Simulated prices, grid times in the instrument's dtype: 64 ulp of the dtype
        # relative to 1 + |value| + the horizon of the series (the two forms of the time to maturity differ by a few ulp of the horizon; weights of size 1)
        fname = ("time_to_maturity", "expiry_time")[it % 2]
        lin = torch.nn.Linear(2, 1, dtype=getattr(torch, dname))
        with torch.no_grad():
            lin.weight.copy_(torch.tensor([[g.choice([1.0, -1.0, 2.0, 0.5]), g.choice([0.5, -0.5, 1.0, 0.0])]], dtype=getattr(torch, dname)))
            lin.bias.fill_(g.choice([0.0, 0.25]))
        hedger = Hedger(lin, [fname, "moneyness"])
        caseh = case | {"hedger": f"Linear({lin.weight.tolist()}, {lin.bias.tolist()}) on [{fname}, moneyness]"}
        ctx.case(caseh, True, tag="ttm_grid_hedger")
        with torch.no_grad():
            stb, hb, _ = call_impl(hedger.compute_hedge, d)
            stp, plb, _ = call_impl(hedger.compute_pl, d)
            try:
                outs = [lin(hedger.get_input(d, i)) for i in range(T - 1)]
                hs = torch.cat(outs + [outs[-1]], dim=-2).transpose(-1, -2)
                pls = pl_fn(spot=stock.spot.unsqueeze(1), unit=hs, cost=[stock.cost], payoff=d.payoff())
                sts = "ok"
            except Exception as e:  # noqa
                sts, hs = "err", repr(e)[:200]
        if stb != "ok" or stp != "ok" or sts != "ok":
            ctx.fail("a hedger fed with the time to maturity raises (all at once / one step at a time) on a simulated market", caseh,
                     key="ttm-hedger:error" + hcls, detail=[str(hb)[:100], str(plb)[:100], str(hs)[:100]])
            continue
        tol = 64 * (2.0 ** -52 if dname == "float64" else 2.0 ** -23)
        far = lambda x, y: tuple(x.shape) != tuple(y.shape) or bool(((x - y).abs() > tol * (1 + (T - 1) * dtv + x.abs())).any())     # noqa
        if far(hb, hs):
            ctx.fail("a hedger fed with the time to maturity (state-independent inputs) gives different hedges all at once and one step at a time", caseh,
                     key="ttm-hedger:batched-vs-stepwise" + hcls, detail={"batched": hb.tolist(), "stepwise": hs.tolist()})
        elif far(plb, pls):
            ctx.fail("a hedger fed with the time to maturity (state-independent inputs) gives different P&L all at once and one step at a time", caseh,
                     key="ttm-hedger:pl:batched-vs-stepwise" + hcls, detail={"batched": plb.tolist(), "stepwise": pls.tolist()})
    # ------------------------------------------------------------------ hedges in both modes
    n_h = 800 if ctx.tier == "quick" else 3500
    for it in range(n_h):
        mk = signed_market(g, gen_market(g))
        H = g.choice([1, 1, 2, 3])
        # hedge=None ("use derivative.underliers"): the hedging instruments are the derivative's underliers -- the stock of a built-in
        # option, ALL registered underliers of a user-defined one (H of them: prev_hedge has H entries, zeros at step 0)
        dflt = it < len(DEFAULT_HEDGE_CORPUS) or g.chance(0.12)
        if it < len(DEFAULT_HEDGE_CORPUS):
            H = DEFAULT_HEDGE_CORPUS[it]
        reg = g.choice(["register_underlier", "attribute"])
        k = g.choice([1, 2, 3])
        usable = [n for n in BASE_FEATURES if hedge_usable(n, mk)]
        names = [g.choice(usable) for _ in range(k)]
        thr = g.choice([x for p in mk["spot"] for x in p])
        kindm = g.choice(["linear", "mlp", "linear"])
        T, N = mk["T"], mk["N"]
        # where the state-dependent input stands among the declared inputs: last (as in the documentation's examples), first, in between;
        # the model sees its columns in the DECLARED order, the H columns of prev_hedge at that position
        pos = None
        # the price series need not end at the derivative's own maturity (a buffer registered by hand, the underlier simulated with another
        # horizon, a sibling derivative of another maturity simulated last, the maturity edited): Tm = grid points up to maturity
        Tm = T
        c0 = it - len(DEFAULT_HEDGE_CORPUS)
        if 0 <= c0 < len(PREV_POS_CORPUS):
            names, H, pos = PREV_POS_CORPUS[c0]
            k = len(names)
        elif 0 <= c0 - len(PREV_POS_CORPUS) < len(HORIZON_CORPUS):
            names, H, dT = HORIZON_CORPUS[c0 - len(PREV_POS_CORPUS)]
            k, kindm, Tm = len(names), "linear", (T - dT if T - dT >= 2 else T + abs(dT))
        elif g.chance(0.15):
            Tm = g.choice([t_ for t_ in (2, 3, 4, 6, 9, 13) if t_ != T])
        if pos is None:
            pos = g.weighted([(k, 5)] + [(j, 3.0 / k) for j in range(k)])
        if Tm != T and c0 >= len(PREV_POS_CORPUS) and c0 - len(PREV_POS_CORPUS) < len(HORIZON_CORPUS):
            # (corpus) a model that looks at the time to maturity whatever the other draws: no ReLU, weight 1 or more on that column
            ms = gen_linear(g, k, H, relu=False)
            ms["w"][0][names.index("time_to_maturity")] = g.choice([F(1), F(2), F(-1)])
        else:
            ms = gen_linear(g, k, H) if kindm == "linear" else gen_mlp(g, k, H)
        d, u = build_derivative(torch, mk)
        others = extra_hedges(torch, g, mk, H - 1)
        if dflt and H > 1:
            d = user_derivative(torch, mk, u, others, reg)
        if Tm != T:
            d.maturity = (Tm - 1) * float(mk["dt"])
        put = lambda xs, x: list(xs[:pos]) + [x] + list(xs[pos:])      # noqa  (the declared inputs with the state-dependent one at `pos`)
        base = model_obj(torch, ms)
        feats = [feature_obj(torch, n, mk, thr) for n in names]
        h_batched = Hedger(base, feats)
        rec = []

        class DropPrev(torch.nn.Module):
            def __init__(self, inner, H, pos):
                super().__init__()
                self.inner, self.H, self.pos = inner, H, pos

            def forward(self, x):
                rec.append(x.detach().clone())
                return self.inner(torch.cat([x[..., :self.pos], x[..., self.pos + self.H:]], dim=-1))
        h_step = Hedger(DropPrev(base, H, pos), put([feature_obj(torch, n, mk, thr) for n in names], "prev_hedge"))
        # a model that really consumes prev_hedge (directly, or through a ModuleOutput that hands it on unchanged)
        msp = gen_linear(g, k + H, H)
        prev_form = g.choice(["prev_hedge", "prev_hedge", "module_output(prev_hedge)"])
        prev_feat = lambda: "prev_hedge" if prev_form == "prev_hedge" else ModuleOutput(torch.nn.Identity(), ["prev_hedge"])   # noqa
        m_prev = model_obj(torch, msp)
        h_prev = Hedger(m_prev, put([feature_obj(torch, n, mk, thr) for n in names], prev_feat()))
        # COPIES of the three hedgers (taken before or after the originals were used), see copy_hedger
        copy_kind = g.choice(COPY_KINDS + ["none"] * 3)
        rebuild = {"batched": lambda: Hedger(model_obj(torch, blank_model(ms)), [feature_obj(torch, n, mk, thr) for n in names]),
                   "step": lambda: Hedger(DropPrev(model_obj(torch, blank_model(ms)), H, pos), put([feature_obj(torch, n, mk, thr) for n in names], "prev_hedge")),
                   "prev": lambda: Hedger(model_obj(torch, blank_model(msp)), put([feature_obj(torch, n, mk, thr) for n in names], prev_feat()))}
        originals = {"batched": h_batched, "step": h_step, "prev": h_prev}
        copies = {}
        if copy_kind.endswith("_fresh"):
            copies = {w: copy_hedger(ctx, h, copy_kind, rebuild[w]) for w, h in originals.items()}
        stc1 = stc2 = stc3 = st2c = st3c = "skipped"
        outc1 = outc2 = outc3 = out2c = out3c = None
        rec_copy = rec_third = []
        hedge = [u] + others
        hargs = (d,) if dflt else (d, hedge)      # what the hedger is called with
        dfl = (":default-hedge" + (":multi-underlier" if H > 1 else "")) if dflt else ""
        ctx.stats[f"H={H}"] += 1
        ctx.stats[f"hedge argument={'None' if dflt else 'list'}" + (" (user-defined derivative, several underliers)" if dflt and H > 1 else "")] += 1
        ctx.stats[f"copy={copy_kind}"] += 1
        ctx.stats[f"hedge: strike{'<0' if mk['strike'] < 0 else '>0'}"] += 1
        cls = sign_class(mk)
        pcls = ":prev-not-last" if pos != k else ""
        hcls = ":series!=maturity" if Tm != T else ""
        ctx.stats[f"prev_hedge declared {'last' if pos == k else 'first' if pos == 0 else 'in between'}"] += 1
        ctx.stats[f"hedge: series {'as long as' if Tm == T else 'longer than' if Tm < T else 'shorter than'} the maturity"] += 1
        case = {"H": H, "features": names, "thr": rat_str(thr), "model": model_json(ms), "option": mk["option"], "primary": mk["primary"],
                "T": T, "N": N, "spot": enc_rat(mk["spot"]), "strike": rat_str(mk["strike"]), "dt": rat_str(mk["dt"])}
        if pcls:
            case |= {"inputs_of_the_state_dependent_hedgers": put(names, "prev_hedge")}
        if hcls:
            case |= {"maturity": f"{Tm - 1} steps of dt (the series has {T - 1})"}
        if dflt:
            case |= {"hedge_argument": None} | ({"derivative": f"user-defined {mk['option']} with {H} underliers ({reg})",
                                                 "other_underliers": [enc_rat(tensor_to_fracs(o.spot)) for o in others]} if H > 1 else {})
        with torch.no_grad():
            inject(torch, u, mk)
            st1, out1, mut = call_impl(h_batched.compute_hedge, *hargs, watch=[("derivative", d)])
            if mut:
                ctx.mutated("compute_hedge(batched)", mut, case)
            inject(torch, u, mk)
            st2, out2, mut = call_impl(h_step.compute_hedge, *hargs, watch=[("derivative", d)])
            if mut:
                ctx.mutated("compute_hedge(stepwise)", mut, case)
            # a SECOND evaluation on the same hedger objects (same path count, same instruments): the recurrent state left by the
            # first must not leak into it
            rec_first = list(rec)
            del rec[:]
            inject(torch, u, mk)
            st2b, out2b, mut = call_impl(h_step.compute_hedge, *hargs, watch=[("derivative", d)])
            rec_second = list(rec)
            del rec[:]
            # a model that really consumes prev_hedge, evaluated twice
            inject(torch, u, mk)
            st3, out3, _ = call_impl(h_prev.compute_hedge, *hargs)
            inject(torch, u, mk)
            st3b, out3b, _ = call_impl(h_prev.compute_hedge, *hargs)
            # the recurrence written out by hand (independent of the hedger's bookkeeping): x_i = (features at step i, out_{i-1}),
            # out_i = model(x_i), out_{-1} = 0 with one entry per hedging instrument; the last column repeats column T-2
            inject(torch, u, mk)
            st_ref, ref3 = "ok", None
            try:
                fl = FeatureList([feature_obj(torch, n, mk, thr) for n in names]).of(d)
                prev_, cols = torch.zeros(N, 1, H, dtype=torch.float64), []
                at_step = [[f_.get(i) for f_ in fl.features] for i in range(T - 1)]       # (N, 1, 1) each, in the declared order
                for i in range(T - 1):
                    prev_ = m_prev(torch.cat(put(at_step[i], prev_), dim=-1))
                    cols.append(prev_)
                ref3 = torch.cat(cols + [cols[-1]], dim=-2).transpose(-1, -2)
                all_steps = fl.get(None)                                                  # (N, T, k)
            except Exception as e:  # noqa
                st_ref = repr(e)
            # the copies: each evaluated (the step-by-step one with the recording wrapper), then the original once more
            if copy_kind != "none":
                if not copies:
                    copies = {w: copy_hedger(ctx, h, copy_kind, rebuild[w]) for w, h in originals.items()}
                inject(torch, u, mk)
                stc1, outc1, _ = call_impl(copies["batched"].compute_hedge, *hargs)
                inject(torch, u, mk)
                stc2, outc2, _ = call_impl(copies["step"].compute_hedge, *hargs)
                rec_copy = list(rec)
                del rec[:]
                inject(torch, u, mk)
                stc3, outc3, _ = call_impl(copies["prev"].compute_hedge, *hargs)
                inject(torch, u, mk)
                st3c, out3c, _ = call_impl(h_prev.compute_hedge, *hargs)
                inject(torch, u, mk)
                st2c, out2c, _ = call_impl(h_step.compute_hedge, *hargs)
                rec_third = list(rec)
                del rec[:]
            # P&L and loss of the default-hedge scenarios, all at once and step by step (compute_loss simulates by itself: same torch seed)
            if dflt:
                others_spot = [o.spot.clone() for o in others]
                inject(torch, u, mk)
                payoff0 = d.payoff()
                stp1, pl1, _ = call_impl(h_batched.compute_pl, *hargs)
                inject(torch, u, mk)
                stp2, pl2, _ = call_impl(h_step.compute_pl, *hargs)
                seed_l = g.randint(0, 10 ** 6)
                torch.manual_seed(seed_l)
                stl1, loss1, _ = call_impl(h_batched.compute_loss, *hargs, n_paths=N)
                torch.manual_seed(seed_l)
                stl2, loss2, _ = call_impl(h_step.compute_loss, *hargs, n_paths=N)
                del rec[:]
                inject(torch, u, mk)
                for o, sp_ in zip(others, others_spot):
                    o.register_buffer("spot", sp_)
            rec.extend(rec_first)
        ctx.case(case, nontrivial=True, tag="hedge_modes")
        ctx.traces += 1
        ctx.stats[f"model={kindm}"] += 1
        anylog = any(n in LOG_FEATURES or n == "time_to_maturity" for n in names)

        def same_hedge(x, y):
            """bitwise; with log features / time to maturity as the batched-vs-stepwise predicate below"""
            if tuple(x.shape) != tuple(y.shape):
                return False
            return torch.equal(x, y) if not anylog else all(near(p_, q_) for p_, q_ in zip(x.reshape(-1).tolist(), y.reshape(-1).tolist()))
        if st2 == "ok" and (st2b != "ok" or not torch.equal(out2, out2b) or len(rec_second) != len(rec_first)
                            or any(not torch.equal(a_, b_) for a_, b_ in zip(rec_first, rec_second))):
            ctx.fail("a second step-by-step evaluation on the same hedger sees different model inputs (prev_hedge at step 0 must be zero again)", case,
                     key="compute_hedge:second-evaluation", detail={"first_step0": rec_first[0].tolist() if rec_first else None,
                                                                    "second_step0": rec_second[0].tolist() if rec_second else None})
        if st3 == "ok" and (st3b != "ok" or not torch.equal(out3, out3b)):
            ctx.fail("a hedger consuming prev_hedge gives a different hedge when evaluated a second time on the same market", case | {"prev_model": model_json(msp)},
                     key="compute_hedge:second-evaluation", detail={"first": out3.tolist(), "second": out3b.tolist() if st3b == "ok" else str(out3b)})
        # ---- hand-unrolled recurrence: the original, then the copies
        casep = case | {"prev_model": model_json(msp), "prev_form": prev_form}
        casec = case | {"copy": copy_kind}
        if st_ref != "ok":
            # the recurrence is unrolled from the features' own single-step values: when those cannot even be concatenated with
            # the previous output (a feature returning the wrong shape at one step) the library, not the harness, is at fault
            ctx.fail("the hand-unrolled recurrence out_i = model(features_i, out_{i-1}) cannot be evaluated from the features' single-step values",
                     casep, key="compute_hedge:prev_hedge:recurrence:error" + cls, detail=st_ref)
            continue
        if st3 == "ok" and not same_hedge(out3, ref3):
            ctx.fail("a hedger consuming prev_hedge does not follow out_i = model(features_i, out_{i-1}), out_{-1} = 0", casep,
                     key="compute_hedge:prev_hedge:recurrence" + dfl + cls + pcls, detail={"hedger": out3.tolist(), "by_hand": ref3.tolist()})
        copied = copy_kind != "none"
        if copied and st3 == "ok" and (stc3 != "ok" or not same_hedge(outc3, ref3)):
            ctx.fail(f"a copy ({copy_kind}) of a hedger consuming prev_hedge does not follow out_i = model(features_i, out_{{i-1}}), out_{{-1}} = 0",
                     casep | {"copy": copy_kind}, key="compute_hedge:copy:recurrence",
                     detail={"copy": outc3.tolist() if stc3 == "ok" else str(outc3)[:200], "by_hand": ref3.tolist()})
        if copied and st3 == "ok" and (st3c != "ok" or not torch.equal(out3, out3c)):
            ctx.fail(f"after a copy ({copy_kind}) of it was evaluated, a hedger consuming prev_hedge gives another hedge on the same market",
                     casep | {"copy": copy_kind}, key="compute_hedge:copy:original-disturbed",
                     detail={"before": out3.tolist(), "after": out3c.tolist() if st3c == "ok" else str(out3c)[:200]})
        if copied and st2 == "ok" and (st2c != "ok" or not torch.equal(out2, out2c) or len(rec_third) != len(rec_first)
                            or any(not torch.equal(a_, b_) for a_, b_ in zip(rec_first, rec_third))):
            ctx.fail(f"after a copy ({copy_kind}) of it was evaluated, a step-by-step hedger sees other model inputs on the same market", casec,
                     key="compute_hedge:copy:original-disturbed")
        if copied and st1 == "ok" and st2 == "ok":
            if stc1 != "ok" or stc2 != "ok":
                ctx.fail(f"compute_hedge raised on a copy ({copy_kind}) of a hedger that works", casec, key="compute_hedge:copy:error",
                         detail=[str(outc1)[:200], str(outc2)[:200]])
            else:
                if not same_hedge(outc1, outc2):
                    ctx.fail(f"a copy ({copy_kind}) of a hedger with state-independent inputs gives different hedges all-at-once and step-by-step", casec,
                             key="compute_hedge:copy:batched-vs-stepwise", detail={"batched": outc1.tolist(), "stepwise": outc2.tolist()})
                if len(rec_copy) != T - 1:
                    ctx.fail(f"the model of a copy ({copy_kind}) is not called once per step 0..T-2 in the step-by-step mode", casec,
                             key="compute_hedge:copy:calls", detail={"calls": len(rec_copy)})
                else:
                    for i, x in enumerate(rec_copy):
                        prev = x[..., pos:pos + H].squeeze(1).tolist()
                        exp = [[0.0] * H for _ in range(N)] if i == 0 else [[outc2[p][hh][i - 1].item() for hh in range(H)] for p in range(N)]
                        if tuple(x.shape) != (N, 1, k + H) or prev != exp:
                            ctx.fail(f"in a copy ({copy_kind}) of a hedger, prev_hedge seen by the model at step i is not the model's output at step i-1 "
                                     "(zeros of width H at step 0)", casec | {"i": i}, key="compute_hedge:copy:prev_hedge",
                                     detail={"seen": prev, "expected": exp, "shape": list(x.shape)})
                            break
        if st3 != "ok":
            ctx.fail("a hedger consuming prev_hedge raises although the hand-unrolled recurrence out_i = model(features_i, out_{i-1}), out_{-1} = 0 (one entry per "
                     "hedging instrument) is defined", casep, key="compute_hedge:prev_hedge:raises" + dfl + pcls, detail=str(out3)[:200])
        if dflt and rec and (tuple(rec[0].shape) != (N, 1, k + H) or bool((rec[0][..., pos:pos + H] != 0).any())):
            ctx.fail("hedge=None: prev_hedge seen by the model at step 0 is not zero with one entry per hedging instrument (= per underlier of the derivative)",
                     case, key="compute_hedge:prev_hedge:step0" + dfl, detail={"shape": list(rec[0].shape), "expected": [N, 1, k + H], "seen": rec[0].tolist()})
        if st1 != "ok" or st2 != "ok":
            ctx.fail("compute_hedge raised on a well-formed market", case, key="compute_hedge:error" + dfl + pcls + hcls, detail=[str(out1)[:100], str(out2)[:100]])
            continue
        if dflt and (tuple(out1.shape) != (N, H, T) or tuple(out2.shape) != (N, H, T)):
            ctx.fail("hedge=None: the hedge has not one row per underlier of the derivative", case, key="compute_hedge:shape" + dfl,
                     detail={"batched": list(out1.shape), "stepwise": list(out2.shape), "expected": [N, H, T]})
            continue
        if dflt:
            # "the same hedge, P&L and loss": P&L all at once == P&L step by step == functional.pl on the step-by-step hedge, the generated
            # prices of ALL hedging instruments, their own cost rates and the derivative's payoff
            exp_pl = pl_fn(spot=torch.stack([tens(torch, mk["spot"])] + others_spot, dim=1), unit=out2, cost=[hh.cost for hh in hedge], payoff=payoff0)
            if stp1 != "ok" or stp2 != "ok":
                ctx.fail("hedge=None: compute_pl raises although compute_hedge gives one position per underlier of the derivative", case,
                         key="compute_pl:error" + dfl, detail=[str(pl1)[:100], str(pl2)[:100]])
            elif not (same_hedge(pl1, pl2) and same_hedge(pl2, exp_pl)):
                ctx.fail("hedge=None: the P&L all at once, the P&L step by step and functional.pl on the step-by-step hedge over all underliers differ", case,
                         key="compute_pl:batched-vs-stepwise" + dfl, detail={"batched": pl1.tolist(), "stepwise": pl2.tolist(), "from_hedge": exp_pl.tolist()})
            if stl1 != "ok" or stl2 != "ok":
                ctx.fail("hedge=None: compute_loss raises on a derivative whose underliers are the hedging instruments", case | {"torch_seed": seed_l},
                         key="compute_loss:error" + dfl, detail=[str(loss1)[:100], str(loss2)[:100]])
            else:
                import math
                la, lb = loss1.item(), loss2.item()
                # simulated (non-dyadic) prices: dot products may be accumulated in another order for one column than for all (1e-9 relative)
                if math.isfinite(la) and math.isfinite(lb) and abs(la - lb) > 1e-9 * (1 + abs(la)):
                    ctx.fail("hedge=None: the loss of the all-at-once hedger differs from the loss of the step-by-step hedger on the same simulated paths", case | {"torch_seed": seed_l},
                             key="compute_loss:batched-vs-stepwise" + dfl, detail={"batched": la, "stepwise": lb})
        a, b = out1.tolist(), out2.tolist()
        ok = vals_equal(a, b, False) if not anylog else all(
            near(x, y) for pa, pb in zip(a, b) for ra, rb in zip(pa, pb) for x, y in zip(ra, rb))
        if not ok:
            ctx.fail("a hedger with state-independent inputs gives different hedges all-at-once and step-by-step", case,
                     key="compute_hedge:batched-vs-stepwise" + dfl + cls + pcls + hcls, detail={"batched": a, "stepwise": b})
        # recorded inputs: prev_hedge column at step i == output at step i-1; zeros (width H) at step 0
        if len(rec) != T - 1:
            ctx.fail("the model is not called once per step 0..T-2 in the step-by-step mode", case, key="compute_hedge:calls",
                     detail={"calls": len(rec)})
        else:
            for i, x in enumerate(rec):
                prev = x[..., pos:pos + H].squeeze(1).tolist()
                exp = [[0.0] * H for _ in range(N)] if i == 0 else [[out2[p][hh][i - 1].item() for hh in range(H)] for p in range(N)]
                if tuple(x.shape) != (N, 1, k + H) or prev != exp:
                    ctx.fail("prev_hedge seen by the model at step i is not the model's output at step i-1 (zeros of width H at step 0)" +
                             (" in the columns where `inputs` declares it" if pcls else ""),
                             case | {"i": i}, key="compute_hedge:prev_hedge" + dfl + pcls, detail={"seen": prev, "expected": exp, "shape": list(x.shape), "input": x.tolist()})
                    break
            # the whole input the model saw at step i: the features' own single-step values in the DECLARED order, prev_hedge where it was declared;
            # and, prev_hedge left out, column i of the input for all steps (bitwise; 8 ulp for logarithms and the time to maturity)
            for i, x in enumerate(rec):
                if tuple(x.shape) != (N, 1, k + H):
                    break
                want = torch.cat(put(at_step[i], x[..., pos:pos + H]), dim=-1)
                if not (torch.equal(x, want) or bool(((x == want) | (x.isnan() & want.isnan())).all())):
                    ctx.fail("the input the model of a state-dependent hedger sees at step i is not the features' values at step i in the order `inputs` declares them "
                             "(prev_hedge where it was declared)", case | {"i": i}, key="compute_hedge:stepwise-input:declared-order" + dfl + pcls,
                             detail={"seen": x.tolist(), "declared_order": want.tolist()})
                    break
                rest = torch.cat([x[..., :pos], x[..., pos + H:]], dim=-1)
                if tuple(all_steps.shape) != (N, T, k) or not all(
                        vals_equal(rest[..., j].tolist(), all_steps[:, [i], j].tolist(), names[j] in LOG_FEATURES or names[j] == "time_to_maturity") for j in range(k)):
                    ctx.fail("the state-independent inputs the model sees at step i of the step-by-step evaluation are not column i of the same inputs evaluated for all steps",
                             case | {"i": i}, key="compute_hedge:stepwise-input-vs-all-steps" + dfl + cls + hcls,
                             detail={"at_step": rest.tolist(), "column": all_steps[:, [i]].tolist() if all_steps.dim() == 3 else list(all_steps.shape)})
                    break
        for p in range(N):
            fj = [feature_json(n, thr) for n in names]
            reqs.append({"op": "hedge", "market": market_json(mk, p), "features": fj, "model": model_json(ms), "n": T, "h": H})
            metas.append(("hedge", case | {"path": p, "mode": "batched"}, None, anylog, [[out1[p][hh][t].item() for hh in range(H)] for t in range(T)], None))
            # stepwise in the model: same features + prev_hedge (where it was declared) with a module that ignores it: drops the last H
            # columns / has zero weights on the H columns at `pos`
            ms2 = dict(kind="drop_last", h=H, inner=ms) if pos == k else pad_model(ms, H, pos)
            fjp = put(fj, ["prev_hedge"])
            reqs.append({"op": "hedge", "market": market_json(mk, p), "features": fjp, "model": model_json(ms2), "n": T, "h": H})
            metas.append(("hedge", case | {"path": p, "mode": "stepwise"}, None, anylog, [[out2[p][hh][t].item() for hh in range(H)] for t in range(T)], None))
            # a model that consumes prev_hedge (the ModuleOutput form hands prev_hedge on unchanged), and the copies
            if st3 == "ok":
                reqs.append({"op": "hedge", "market": market_json(mk, p), "features": fjp, "model": model_json(msp), "n": T, "h": H})
                metas.append(("hedge", casep | {"path": p, "mode": "recurrent"}, None, anylog, [[out3[p][hh][t].item() for hh in range(H)] for t in range(T)], None))
            if p == 0 and stc2 == "ok" and tuple(outc2.shape) == (N, H, T):
                reqs.append({"op": "hedge", "market": market_json(mk, p), "features": fjp, "model": model_json(ms2), "n": T, "h": H})
                metas.append(("hedge", casec | {"path": p, "mode": "stepwise-copy"}, None, anylog, [[outc2[p][hh][t].item() for hh in range(H)] for t in range(T)], None))
            if p == 0 and st3 == "ok" and stc3 == "ok" and tuple(outc3.shape) == (N, H, T):
                reqs.append({"op": "hedge", "market": market_json(mk, p), "features": fjp, "model": model_json(msp), "n": T, "h": H})
                metas.append(("hedge", casep | {"copy": copy_kind, "path": p, "mode": "recurrent-copy"}, None, anylog, [[outc3[p][hh][t].item() for hh in range(H)] for t in range(T)], None))
    # ------------------------------------------------------------------ one-feature hedgers with modules working in place
    inplace_section(ctx, torch, g, reqs, metas)
    # ------------------------------------------------------------------ features on series with non-finite entries (NaN, +inf, -inf)
    nonfinite_section(ctx, torch, g)
    # ------------------------------------------------------------------ derivatives with clauses that alter the payoff: hedge / P&L / loss
    clause_section(ctx, torch, g)
    try:
        outs = ctx.driver(reqs)
    except DriverBroken as e:
        ctx.ties_broken.append({"kind": "driver", "detail": str(e)[:1500]})
        outs = []
    for (what, case, name, log, allv, ats), mo in zip(metas, outs):
        if what == "feat":
            if name == "empty":
                if "ok" not in mo["all"] or len(mo["all"]["ok"]) != len(allv):
                    ctx.disagree("feat_all_shape", case, len(allv), mo["all"])
                continue
            if "ok" not in mo["all"] or not vals_equal(dec_flt(mo["all"]["ok"]), allv, log):
                ctx.disagree("feat_all", case, allv, mo["all"] if "ok" not in mo["all"] else dec_flt(mo["all"]["ok"]))
            for (st, v), mm in zip(ats, mo["at"]):
                mv = ("ok", dec_flt(mm["ok"])) if "ok" in mm else ("err", mm["err"])
                if st != mv[0] or (st == "ok" and not vals_equal(v, mv[1], log)) or (st != "ok" and v != mv[1]):
                    ctx.disagree("feat_at", case, (st, v), mv)
        else:
            if "ok" not in mo:
                ctx.disagree("hedge", case, allv, mo)
            else:
                mv = dec_flt(mo["ok"])
                same = vals_equal(mv, allv, False) if not log else all(
                    len(r1) == len(r2) and all(near(x, y) for x, y in zip(r1, r2)) for r1, r2 in zip(mv, allv)) and len(mv) == len(allv)
                if not same:
                    ctx.disagree("hedge", case, allv, mv)
    import ext_featreg
    ext_featreg.run(ctx, g)          # the registry behind feature names (Model/FeatReg, op feat_reg)
    return ctx.finish(
        rule="features: all registered features + Barrier(up/down, threshold tied to a path value) + Ones + log variants + ModuleOutput over "
             "Brownian/Heston/Merton/LocalVol underliers x 4 option types on dyadic injected buffers (ties, zero/negative variance), steps {0,T-1,random}; "
             "second round on the same feature/derivative objects after the market was replaced (buffers re-registered, underlier / sibling derivative / "
             "derivative simulated, cast to float32, deep copy of the bound feature); strikes below zero and paths below zero (one sign per path; log features of a "
             "hedging model only where defined); hedges: linear/MLP dyadic models through both branches with a recording wrapper, a model consuming prev_hedge "
             "(directly / through ModuleOutput) against the hand-unrolled recurrence, and the same on copies of the hedgers (deepcopy before / after use, "
             "pickle, state_dict into a newly built hedger); the same with hedge=None (built-in options; user-defined options with 2-3 registered underliers: "
             "prev_hedge zeros per underlier, P&L and loss in both modes; deterministic corpus + random); one-feature hedgers (underlier_spot / spot at the underlier's price / "
             "variance / volatility / moneyness / prev_hedge alone) whose module overwrites its input (ReLU / Hardtanh in place, x -= 1, x *= 1/2): hedge all at once, step by step, "
             "P&L, loss and the market afterwards (deterministic corpus + random); every feature, a ModuleOutput and a FeatureList on user-registered price / variance / volatility "
             "series with NaN / +inf / -inf at the first, an inner or the last step, float64 and float32: get(i) == column i of get(None) with NaN equal to NaN, every step "
             "(deterministic corpus feature x value x position with the Barrier threshold touched before the hole, + random; real code only); "
             "options carrying 1-2 clauses (knock-out up/down, cap, fee, scale, rebate) that alter the payoff on the simulated paths: compute_loss == criterion(step-by-step P&L "
             "with the clauses applied by hand) == criterion(compute_pl), hedge and P&L in both modes (deterministic corpus + random; real code only); "
             "non-trivial = T>=2; distinct = sha1 of canonical case")


def pad_model(ms, H, pos=None):
    """same module with H extra (ignored) inputs inserted at column `pos` (default: appended): zero weights on the prev_hedge columns"""
    ins = lambda r: r[:len(r) if pos is None else pos] + [F(0)] * H + r[len(r) if pos is None else pos:]   # noqa
    if ms["kind"] == "linear":
        return dict(kind="linear", w=[ins(r) for r in ms["w"]], b=ms["b"], relu=ms["relu"])
    l0 = ms["layers"][0]
    return dict(kind="mlp", layers=[dict(w=[ins(r) for r in l0["w"]], b=l0["b"])] + ms["layers"][1:])
